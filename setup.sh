#!/bin/sh
# Offline setup: overlay venv on top of /venv's interpreter with the solver wheels.
set -e
cd "$(dirname "$0")"
if [ ! -x .venv/bin/python ] || ! .venv/bin/python -c "import z3, cvc5, jsonschema, Cython, dnaio" 2>/dev/null; then
  rm -rf .venv
  /venv/bin/python -m venv .venv
  PIP_NO_INDEX=1 .venv/bin/pip install -q --no-index --find-links /opt/veriftools/wheels z3-solver cvc5 deal icontract crosshair-tool jsonschema
  echo "import site; site.addsitedir('/venv/lib/python3.12/site-packages')" > .venv/lib/python3.12/site-packages/zz_venv.pth
fi
.venv/bin/python -c "import z3, cvc5, jsonschema, Cython, dnaio; print('setup ok: z3', z3.get_version_string())"
