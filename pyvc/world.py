"""The 'world' around one function: class index, contracts, builtins, string methods,
external handlers.  Everything here that is not derived from /repo is an assumed contract
of the language or of a dependency and is listed in trusted_base."""
import ast
import z3

from .values import *  # noqa
from . import values
from .state import St, CArr
from . import api, frontends
from .engine import zint, str_slice, str_concat, str_eq, slice_bounds
from . import calls


class World:
    def __init__(self):
        self.classes = frontends.build_class_index()
        for k, v in self.classes.items():
            values.CLASS_BASES[k] = v["bases"]
        self._tags = {}
        self.builtins = dict(BUILTINS)
        self.str_methods = dict(STR_METHODS)
        self.float_hook = None
        self.handlers = {}        # (cls, method) -> python handler
        self.attr_handlers = {}
        self.setattr_handlers = {}
        self.ctor_handlers = {}
        self.globals = {}         # name -> value (module constants, lifted lazily)
        self.global_providers = []
        self.lemmas = {}
        self.elem_wrappers = {}

    # ---- classes
    def cls_tag(self, name):
        if name not in self._tags:
            self._tags[name] = len(self._tags) + 1
        return self._tags[name]

    def cls_by_tag(self, tag):
        for k, v in self._tags.items():
            if v == tag:
                return k
        raise Unsupported(f"unknown class tag {tag}")

    def subclasses(self, cls):
        return [c for c in self.classes if is_subclass(c, cls)] + ([cls] if cls not in self.classes else [])

    def find_method(self, cls, attr, after=None):
        order = mro(cls)
        if after is not None:
            if after in order:
                order = order[order.index(after) + 1:]
        for c in order:
            info = self.classes.get(c)
            if info and attr in info["methods"]:
                return c, info["methods"][attr]
        return None

    def dispatch_targets(self, static_cls, attr):
        """Group the concrete subclasses of static_cls by the class that defines attr."""
        groups = {}
        for c in self.subclasses(static_cls):
            m = self.find_method(c, attr)
            if m is None:
                continue
            if any(getattr(d, "id", getattr(d, "attr", None)) == "abstractmethod" for d in m[1].decorator_list):
                continue        # c is abstract with respect to attr: no instances
            groups.setdefault(m[0], []).append(c)
        return list(groups.items())

    def is_abstract(self, cls):
        """A class with an abstract method left unimplemented has no instances."""
        names = set()
        for c in mro(cls):
            info = self.classes.get(c)
            if info:
                names |= set(info["methods"])
        for nme in names:
            m = self.find_method(cls, nme)
            if m and any(getattr(d, "id", getattr(d, "attr", None)) == "abstractmethod" for d in m[1].decorator_list):
                return True
        return False

    def class_attr(self, cls, attr):
        """AST of a class-level constant `attr = <expr>` found along the MRO."""
        for c in mro(cls):
            info = self.classes.get(c)
            if not info:
                continue
            for st_ in info["node"].body:
                if isinstance(st_, ast.Assign) and len(st_.targets) == 1 and isinstance(st_.targets[0], ast.Name) \
                        and st_.targets[0].id == attr:
                    return st_.value
        return None

    def property_overrides(self, static_cls, attr):
        """Subclasses of static_cls (grouped by defining class) where attr is a @property."""
        key = (static_cls, attr)
        cache = self.__dict__.setdefault("_prop_cache", {})
        if key not in cache:
            groups = {}
            for c in self.subclasses(static_cls):
                m = self.find_method(c, attr)
                if m is not None and any(isinstance(d, ast.Name) and d.id == "property" for d in m[1].decorator_list):
                    groups.setdefault(m[0], []).append(c)
            cache[key] = list(groups.items())
        return cache[key]

    def exc_matches(self, raised, handler):
        if handler in ("Exception", "BaseException"):
            return True
        if raised == handler:
            return True
        builtin = {"KeyError": ["LookupError"], "IndexError": ["LookupError"], "FileNotFoundError": ["OSError"],
                   "UnicodeDecodeError": ["ValueError"], "BrokenPipeError": ["OSError"]}
        if handler in builtin.get(raised, []):
            return True
        return raised in self.classes and is_subclass(raised, handler)

    # ---- lookup
    def lift(self, v):
        if isinstance(v, bool):
            return z3.BoolVal(v)
        if isinstance(v, int):
            return z3.IntVal(v)
        if isinstance(v, float):
            return z3.RealVal(repr(v))
        if v is None:
            return None
        if isinstance(v, tuple):
            return TupV(self.lift(x) for x in v)
        if isinstance(v, list):
            return ListV((z3.BoolVal(True), self.lift(x)) for x in v)
        if isinstance(v, (str, bytes, dict, set, frozenset)):
            return PyConst(v)
        return v

    def lookup_global(self, name, cx):
        if name in cx.c.env:
            return cx.c.env[name]
        if name in self.globals:
            return self.globals[name]
        if name in self.classes:
            return ClsV(name)
        for p in self.global_providers:
            r = p(name, cx)
            if r is not None:
                return r
        if name in ("int", "str", "float", "bool", "list", "dict", "tuple", "set", "object", "bytes"):
            return ClsV(name)
        if name in ("True", "False"):
            return z3.BoolVal(name == "True")
        return None

    def contract_for(self, name, cx):
        c = api.BY_NAME.get(name)
        if c is None:
            return None
        if c is cx.c and cx.depth == 0 and False:
            return None
        if name in cx.c.inline:
            return None
        return c

    def find_function(self, name, cx):
        """Module-level function of the file under verification (or any module) for inlining."""
        files = [cx.ex.file] + [f for f in ("modifiers.py", "adapters.py", "steps.py", "cli.py", "utils.py",
                                            "predicates.py", "report.py", "parser.py", "files.py",
                                            "kmer_heuristic.py", "statistics.py", "pipeline.py", "align.py")
                                if f != cx.ex.file]
        for f in files:
            if not f.endswith(".py"):
                continue
            _, tree = frontends.py_module(f)
            fn = frontends.find_py(tree, name)
            if isinstance(fn, ast.FunctionDef):
                return fn
        return None

    def method_handler(self, cls, attr):
        for c in mro(cls):
            h = self.handlers.get((c, attr))
            if h is not None:
                return h
        return None

    def attr_handler(self, cls, attr):
        for c in mro(cls):
            h = self.attr_handlers.get((c, attr))
            if h is not None:
                return h
        return None

    def setattr_handler(self, cls, attr):
        for c in mro(cls):
            h = self.setattr_handlers.get((c, attr))
            if h is not None:
                return h
        return None

    def ctor_handler(self, cls):
        return self.ctor_handlers.get(cls)

    def call_handler(self, fv):
        return None

    def ensure_specs(self, cx, c):
        if c.name in cx.specs_done:
            return
        cx.specs_done.add(c.name)
        for s in c.specs:
            s(cx)

    def lemma_instance(self, ex, name, args):
        lem = api.LEMMAS.get(name)
        if lem is None:
            raise AttachError(f"unknown lemma {name}")
        ex.cx.used_lemmas.add(name)
        return lem.instance(ex.cx, *args)

    def wrap_elem(self, ex, seq, term, st):
        from . import heap
        return heap.seq_elem(seq, term)

    def cast(self, ex, ctype, v, st, node, spec):
        t = ctype[0] if isinstance(ctype, tuple) else ctype
        t = str(t)
        if "*" in t:
            return v
        if t in ("int", "Py_ssize_t", "ssize_t", "long", "size_t"):
            v = zint(v)
            if z3.is_real(v):
                # C truncation toward zero
                return z3.If(v >= 0, z3.ToInt(v), -z3.ToInt(-v))
            return v
        if t in ("double", "float"):
            v = zint(v)
            return z3.ToReal(v) if z3.is_int(v) else v
        if t in ("uint8_t", "unsigned char"):
            return zint(v) % 256
        if t in ("char",):
            return zint(v)
        return v

    def slice_step(self, ex, base, lo, hi, step, st, node, spec):
        s = z3.simplify(zint(step))
        if z3.is_int_value(s) and s.as_long() == -1 and lo is None and hi is None and isinstance(base, (StrV, PyConst)):
            b = as_str(base)
            k = z3.Int("k!rev")
            return StrV(z3.Lambda([k], b.arr[b.n - 1 - k]), b.n)
        raise Unsupported("extended slice")

    def list_method(self, ex, st, base, attr, args, kwargs, node, spec):
        T = z3.BoolVal(True)
        if attr == "append":
            return None, ListV(base.items + ((T, args[0]),))
        if attr == "extend":
            v = args[0]
            if isinstance(v, TupV):
                return None, ListV(base.items + tuple((T, i) for i in v.items))
            if isinstance(v, ListV):
                return None, ListV(base.items + v.items)
            raise Unsupported(f"list.extend with {v!r}")
        if attr == "copy":
            return base, None
        if attr == "insert":
            i = z3.simplify(zint(args[0]))
            if z3.is_int_value(i) and all(z3.is_true(z3.simplify(g)) for g, _ in base.items):
                k = i.as_long()
                items = list(base.items)
                items.insert(k, (T, args[1]))
                return None, ListV(items)
        if attr == "pop" and all(z3.is_true(z3.simplify(g)) for g, _ in base.items) and base.items:
            k = -1 if not args else z3.simplify(zint(args[0])).as_long()
            items = list(base.items)
            g, v = items.pop(k)
            return v, ListV(items)
        raise Unsupported(f"list.{attr} at line {getattr(node, 'lineno', '?')}")

    def container_method(self, ex, st, base, attr, args, kwargs, node, spec):
        from . import heap
        if isinstance(base, SeqV):
            if attr == "append":
                v = args[0]
                if isinstance(v, Opt):
                    v = ex.need_not_none(v, st, node, "append")
                return None, heap.seq_append(base, v, st)
            if attr == "extend":
                v = args[0]
                if isinstance(v, ListV):
                    v = heap.seq_from_list(v, base.elem, st)
                if isinstance(v, SeqV):
                    return None, heap.seq_concat(base, v)
        if isinstance(base, MapV):
            if attr == "get":
                return base.arr[zint(args[0])], None
        if isinstance(base, TupV) and attr == "index":
            pass
        raise Unsupported(f"{type(base).__name__}.{attr} at line {getattr(node, 'lineno', '?')}")

    def const_dict_get(self, ex, d, idx, st, node, spec):
        if isinstance(idx, PyConst):
            if idx.v in d:
                return self.lift(d[idx.v])
            ex.cx.pending.append((z3.BoolVal(True), "KeyError"))
            return None
        raise Unsupported("symbolic key into a constant dict")


# ------------------------------------------------------------------------------- builtins

def _b_len(ex, st, args, kwargs, node, spec):
    v = args[0]
    if isinstance(v, Opt):
        v = v.val if spec else ex.need_not_none(v, st, node, "len()")
    if isinstance(v, (StrV, SeqV)):
        return v.n
    if isinstance(v, PyConst):
        return z3.IntVal(len(v.v))
    if isinstance(v, TupV):
        return z3.IntVal(len(v.items))
    if isinstance(v, ListV):
        return z3.Sum(*[z3.If(g, 1, 0) for g, _ in v.items]) if v.items else z3.IntVal(0)
    if isinstance(v, CArr):
        return v.n
    if isinstance(v, ObjV):
        h = ex.world.method_handler(v.cls, "__len__")
        if h is not None:
            return h(ex, st, v, [], {}, node, spec)
        m = ex.world.find_method(v.cls, "__len__")
        if m is not None:
            return ex.call_method(v, "__len__", [], {}, st, node, spec)[0]
    raise Unsupported(f"len of {v!r} at line {getattr(node, 'lineno', '?')}")


def _minmax(is_min):
    def f(ex, st, args, kwargs, node, spec):
        if len(args) == 1:
            v = args[0]
            items = list(v.items) if isinstance(v, TupV) else [i for g, i in v.items]
        else:
            items = args
        items = [zint(x) for x in items]
        acc = items[0]
        for x in items[1:]:
            a, b = coerce_num(acc, x)
            acc = z3.If(a <= b, a, b) if is_min else z3.If(a >= b, a, b)
        return acc
    return f


def _b_abs(ex, st, args, kwargs, node, spec):
    v = zint(args[0])
    return z3.If(v >= 0, v, -v)


def _b_int(ex, st, args, kwargs, node, spec):
    if not args:
        return z3.IntVal(0)
    v = args[0]
    v = zint(v)
    if is_z3(v):
        if z3.is_real(v):
            return z3.If(v >= 0, z3.ToInt(v), -z3.ToInt(-v))
        return v
    f = ex.cx.spec.get("__int_of_str__")
    if f is not None:
        return f(ex, st, v, node, spec)
    raise Unsupported(f"int() of {v!r}")


def _b_float(ex, st, args, kwargs, node, spec):
    v = zint(args[0])
    if is_z3(v):
        return z3.ToReal(v) if z3.is_int(v) else v
    f = ex.cx.spec.get("__float_of_str__")
    if f is not None:
        return f(ex, st, v, node, spec)
    raise Unsupported(f"float() of {v!r}")


def _b_bool(ex, st, args, kwargs, node, spec):
    return boolify(args[0]) if args else z3.BoolVal(False)


def _b_isinstance(ex, st, args, kwargs, node, spec):
    v, c = args
    names = [x.name for x in c.items] if isinstance(c, TupV) else [c.name]
    if isinstance(v, Opt):
        inner = _b_isinstance(ex, st, [v.val, c], kwargs, node, spec)
        return z3.And(z3.Not(v.none), inner)
    if v is None:
        return z3.BoolVal(False)
    if isinstance(v, ObjV):
        tag = v.fields.get("__cls__")
        if tag is None or z3.is_int_value(z3.simplify(tag)) and False:
            return z3.BoolVal(any(is_subclass(v.cls, nme) for nme in names))
        if tag is None:
            return z3.BoolVal(any(is_subclass(v.cls, nme) for nme in names))
        subs = set()
        for nme in names:
            subs |= set(ex.world.subclasses(nme))
        if not subs:
            return z3.BoolVal(False)
        return z3.Or(*[tag == ex.world.cls_tag(s) for s in sorted(subs)])
    pyt = {"str": (StrV,), "int": (z3.ArithRef,), "bool": (z3.BoolRef,), "tuple": (TupV,), "list": (ListV,)}
    for nme in names:
        if nme in pyt and isinstance(v, pyt[nme]):
            return z3.BoolVal(True)
        if nme == "str" and isinstance(v, PyConst) and isinstance(v.v, str):
            return z3.BoolVal(True)
    return z3.BoolVal(False)


def _b_ord(ex, st, args, kwargs, node, spec):
    s = as_str(args[0])
    return s.arr[0]


def _b_chr(ex, st, args, kwargs, node, spec):
    v = zint(args[0])
    return StrV(z3.Store(z3.K(I, z3.IntVal(0)), 0, v), z3.IntVal(1))


def _b_str(ex, st, args, kwargs, node, spec):
    if not args:
        return PyConst("")
    v = args[0]
    if isinstance(v, (StrV, PyConst)):
        return v
    f = ex.cx.spec.get("__str_of__")
    if f is not None:
        return f(ex, st, v, node, spec)
    return StrV(fresh("str.arr", AII), fresh("str.n", I))


def _b_list(ex, st, args, kwargs, node, spec):
    if not args:
        return ListV()
    v = args[0]
    if isinstance(v, ListV):
        return v
    if isinstance(v, TupV):
        return ListV((z3.BoolVal(True), i) for i in v.items)
    if isinstance(v, SeqV):
        return v
    if isinstance(v, ObjV) and (v.cls, "__concat__") in ex.world.handlers:
        return v          # a sequence value of a contract module's own kind
    raise Unsupported(f"list() of {v!r}")


def _b_tuple(ex, st, args, kwargs, node, spec):
    if not args:
        return TupV(())
    v = args[0]
    if isinstance(v, TupV):
        return v
    if isinstance(v, ListV) and all(z3.is_true(z3.simplify(g)) for g, _ in v.items):
        return TupV(i for _, i in v.items)
    raise Unsupported(f"tuple() of {v!r}")


_GSUM = {}


def gsum(ex, st, gen, g, seq, b, spec):
    """sum(elt for x in seq) over a symbolic sequence: recursive spec function, one per
    (element expression, array) pair, defined by its recurrence."""
    from . import heap
    arr = heap.named_array(ex.cx, seq.arr)
    text = ast.unparse(gen.elt) + " for " + ast.unparse(g.target)
    key = (text, str(seq.elem), arr.get_id())
    cache = ex.cx.__dict__.setdefault("_gsum", {})
    if key not in cache:
        fname = "GSUM[" + text + "]"
        f = _GSUM.setdefault(fname, z3.Function(fname, AII, I, I))
        j = z3.Int("j!gs")
        bb = dict(b)
        calls._bind_target(g.target, heap.seq_elem(seq, arr[j - 1]), bb)
        term = zint(ex.ev(gen.elt, st, True, bb))
        ex.cx.axioms.append(f(arr, 0) == 0)
        ex.cx.axioms.append(z3.ForAll([j], z3.Implies(j > 0, f(arr, j) == f(arr, j - 1) + term), patterns=[f(arr, j)]))
        cache[key] = f
    return cache[key](arr, seq.n)


def _b_sum(ex, st, args, kwargs, node, spec):
    v = args[0]
    if isinstance(v, tuple) and v and v[0] == "__gsum__":
        return gsum(ex, st, v[1], v[2], v[3], v[4], spec)
    if isinstance(v, ListV):
        acc = z3.IntVal(0) if len(args) < 2 else zint(args[1])
        for g, i in v.items:
            x = zint(i)
            a, b = coerce_num(acc, z3.If(g, x, 0 * x))
            acc = a + b
        return acc
    if isinstance(v, TupV):
        acc = z3.IntVal(0)
        for i in v.items:
            a, b = coerce_num(acc, zint(i))
            acc = a + b
        return acc
    f = ex.cx.spec.get("__sum__")
    if f is not None:
        return f(ex, st, v, node, spec)
    raise Unsupported(f"sum of {v!r}")


def _b_any(ex, st, args, kwargs, node, spec):
    v = args[0]
    if isinstance(v, ListV):
        return z3.Or(*[z3.And(g, boolify(i)) for g, i in v.items]) if v.items else z3.BoolVal(False)
    if isinstance(v, TupV):
        return z3.Or(*[boolify(i) for i in v.items]) if v.items else z3.BoolVal(False)
    raise Unsupported("any() of symbolic sequence")


def _b_all(ex, st, args, kwargs, node, spec):
    v = args[0]
    if isinstance(v, ListV):
        return z3.And(*[z3.Implies(g, boolify(i)) for g, i in v.items]) if v.items else z3.BoolVal(True)
    if isinstance(v, TupV):
        return z3.And(*[boolify(i) for i in v.items]) if v.items else z3.BoolVal(True)
    raise Unsupported("all() of symbolic sequence")


def _b_noop(ex, st, args, kwargs, node, spec):
    return None


def _b_print(ex, st, args, kwargs, node, spec):
    """print(...) to a file: counted in the ghost variable $nprinted; the arguments are kept in $lastprint."""
    if "file" in kwargs:
        st.env["$nprinted"] = st.env.get("$nprinted", z3.IntVal(0)) + 1
    return None


def _b_copy(ex, st, args, kwargs, node, spec):
    v = args[0]
    if isinstance(v, ObjV) and "__id__" in v.fields:
        return v.with_field("__id__", fresh("id.copy", I))
    return v


def _b_cast_identity(ex, st, args, kwargs, node, spec):
    return args[0]


def _b_defaultdict(ex, st, args, kwargs, node, spec):
    if len(args) == 2 and isinstance(args[0], ClsV) and args[0].name == "int" and isinstance(args[1], MapV):
        return args[1]          # defaultdict(int, counts): the same total map (absent = 0)
    if args and isinstance(args[0], ClsV) and args[0].name == "int":
        return MapV(z3.K(I, z3.IntVal(0)))
    raise Unsupported("defaultdict of non-int")


def _b_slice(ex, st, args, kwargs, node, spec):
    a = list(args) + [None] * (3 - len(args))
    if len(args) == 1:
        a = [None, args[0], None]
    if a[2] is not None:
        raise Unsupported("slice() with a step")
    return ObjV("__slice__", {"lo": a[0], "hi": a[1]})


def _b_counter(ex, st, args, kwargs, node, spec):
    """collections.Counter(counts) in the total-map view (absent = 0); Counter + Counter is the point-wise sum for
    non-negative counts (entries that sum to zero are dropped, which reads as 0 again)."""
    if len(args) == 1 and isinstance(args[0], Opt):
        args = [ex.need_not_none(args[0], st, node, "Counter()")]
    if len(args) == 1 and (isinstance(args[0], MapV) or (isinstance(args[0], ObjV) and args[0].cls == "CountDict")):
        return args[0]
    raise Unsupported("Counter of something that is not a map of counts")


BUILTINS = {
    "Counter": _b_counter, "collections.Counter": _b_counter,
    "slice": _b_slice,
    "defaultdict": _b_defaultdict, "collections.defaultdict": _b_defaultdict,
    "len": _b_len, "min": _minmax(True), "max": _minmax(False), "abs": _b_abs, "int": _b_int, "float": _b_float,
    "bool": _b_bool, "isinstance": _b_isinstance, "ord": _b_ord, "chr": _b_chr, "str": _b_str, "list": _b_list,
    "tuple": _b_tuple, "sum": _b_sum, "any": _b_any, "all": _b_all, "print": _b_print,
    "copy.copy": _b_copy, "copy": _b_copy, "__fstring__": lambda ex, st, a, k, n, s: StrV(fresh("f.arr", AII), fresh("f.n", I)),
    "__sizeof__": lambda ex, st, a, k, n, s: z3.IntVal(1),
    "logger.debug": _b_noop, "logger.info": _b_noop, "logger.warning": _b_noop, "logger.error": _b_noop,
    "logging.getLogger": _b_noop, "warnings.warn": _b_noop,
}


# ------------------------------------------------------------------------------- str methods
# Character-level functions are uninterpreted symbols constrained by the ASCII facts the
# proofs need (declared once here; listed as assumed str semantics).

COUNT = z3.Function("COUNT", AII, I, I, I)
UPPER = z3.Function("chr_upper", I, I)
LOWER = z3.Function("chr_lower", I, I)


def char_axioms():
    c = z3.Int("c!ch")
    return [
        z3.ForAll([c], UPPER(c) == z3.If(z3.And(97 <= c, c <= 122), c - 32, c), patterns=[UPPER(c)]),
        z3.ForAll([c], LOWER(c) == z3.If(z3.And(65 <= c, c <= 90), c + 32, c), patterns=[LOWER(c)]),
    ]


def map_str(cx, f, s):
    """Pointwise image of a string under a character function: a named array constant with its
    defining axiom (one per (function, array) pair in use)."""
    cache = cx.__dict__.setdefault("_map_cache", {})
    key = (f.name(), s.arr.get_id())
    if key not in cache:
        arr = fresh(f"{f.name()}.img", AII)
        k = z3.Int("k!map")
        cx.axioms.append(z3.ForAll([k], arr[k] == f(s.arr[k]), patterns=[arr[k]]))
        cache[key] = arr
    return StrV(cache[key], s.n)


def _map_chars(f):
    def m(ex, st, s, args, kwargs, node, spec):
        ex.cx.need_char_axioms = True
        return map_str(ex.cx, f, s)
    return m


def _s_startswith(ex, st, s, args, kwargs, node, spec):
    p = args[0]
    if isinstance(p, TupV):
        return z3.Or(*[_s_startswith(ex, st, s, [x], kwargs, node, spec) for x in p.items])
    p = as_str(p)
    return str_eq(str_slice(s, z3.IntVal(0), p.n), p) if True else None


def _s_endswith(ex, st, s, args, kwargs, node, spec):
    p = args[0]
    if isinstance(p, TupV):
        return z3.Or(*[_s_endswith(ex, st, s, [x], kwargs, node, spec) for x in p.items])
    p = as_str(p)
    return z3.And(p.n <= s.n, str_eq(StrV(z3.Lambda([z3.Int("k!ew")], s.arr[z3.Int("k!ew") + s.n - p.n]), p.n), p))


def _s_count(ex, st, s, args, kwargs, node, spec):
    p = args[0]
    if isinstance(p, PyConst) and len(p.v) == 1:
        f = ex.cx.get_count_fn()
        return f(s.arr, s.n, z3.IntVal(ord(p.v)))
    raise Unsupported("str.count of a multi-character pattern")


def _s_encode(ex, st, s, args, kwargs, node, spec):
    return s


def _s_format(ex, st, s, args, kwargs, node, spec):
    return StrV(fresh("fmt.arr", AII), fresh("fmt.n", I))


FIRSTIDX = z3.Function("FIRST_INDEX", AII, I, I, I)


def first_index(cx, s, ch):
    """Index of the first occurrence of character ch in s (len(s) if absent), with defining axioms per use."""
    cache = cx.__dict__.setdefault("_firstidx", set())
    key = (s.arr.get_id(), s.n.get_id(), ch)
    p = FIRSTIDX(s.arr, s.n, z3.IntVal(ch))
    if key not in cache:
        cache.add(key)
        t = z3.Int("t!fi")
        cx.axioms += [0 <= p, p <= s.n, z3.Or(p == s.n, s.arr[p] == ch),
                      z3.ForAll([t], z3.Implies(z3.And(0 <= t, t < p), s.arr[t] != ch))]
    return p


LASTIDX = z3.Function("LASTIDX", AII, I, I, I)


def last_index(cx, s, ch):
    """Index of the last occurrence of character ch in s (-1 if absent), with defining axioms per use."""
    cache = cx.__dict__.setdefault("_lastidx", set())
    key = (s.arr.get_id(), s.n.get_id(), ch)
    p = LASTIDX(s.arr, s.n, z3.IntVal(ch))
    if key not in cache:
        cache.add(key)
        t = z3.Int("t!li")
        cx.axioms += [-1 <= p, p < z3.If(s.n > 0, s.n, 0), z3.Or(p == -1, s.arr[p] == ch),
                      z3.ForAll([t], z3.Implies(z3.And(p < t, t < s.n), s.arr[t] != ch))]
    return p


def _s_rpartition(ex, st, s, args, kwargs, node, spec):
    sep = args[0]
    if not (isinstance(sep, PyConst) and isinstance(sep.v, str) and len(sep.v) == 1):
        raise Unsupported("str.rpartition with a non-constant or multi-character separator")
    p = last_index(ex.cx, s, ord(sep.v))
    found = p >= 0
    # not found: ('', '', s)
    left = str_slice(s, z3.IntVal(0), z3.If(found, p, 0))
    mid = StrV(z3.K(I, z3.IntVal(ord(sep.v))), z3.If(found, 1, 0))
    right = str_slice(s, z3.If(found, p + 1, 0), s.n)
    return TupV((left, mid, right))


FIRSTSUB = {}


def first_sub(cx, s, text):
    """Index of the first occurrence of the constant text (2..8 characters) in s, len(s) if absent."""
    L = len(text)
    fn = FIRSTSUB.setdefault(text, z3.Function("FIRST_SUB[" + text + "]", AII, I, I))
    cache = cx.__dict__.setdefault("_firstsub", set())
    key = (s.arr.get_id(), s.n.get_id(), text)
    p = fn(s.arr, s.n)
    if key not in cache:
        cache.add(key)
        t = z3.Int("t!fs")

        def match(at):
            return z3.And(*[s.arr[at + i] == ord(ch) for i, ch in enumerate(text)])
        cx.axioms += [0 <= p, p <= s.n, z3.Implies(p < s.n, z3.And(p + L <= s.n, match(p))),
                      z3.ForAll([t], z3.Implies(z3.And(0 <= t, t < p, t + L <= s.n), z3.Not(match(t))))]
    return p


def named_slice(cx, s, lo, hi):
    """s[lo:hi] for 0 <= lo <= hi <= len(s) as a named array with its defining axiom (one per slice in use) instead of a
    lambda term: keeps uninterpreted functions of strings applied to constants."""
    cache = cx.__dict__.setdefault("_named_slices", {})
    key = (s.arr.get_id(), lo.get_id())
    if key not in cache:
        arr = fresh("slice", AII)
        k = z3.Int("k!ns")
        cx.axioms.append(z3.ForAll([k], arr[k] == s.arr[k + lo], patterns=[arr[k]]))
        cache[key] = arr
    return StrV(cache[key], hi - lo)


def _s_partition(ex, st, s, args, kwargs, node, spec):
    sep = args[0]
    if isinstance(sep, PyConst) and isinstance(sep.v, str) and 2 <= len(sep.v) <= 8:
        p = first_sub(ex.cx, s, sep.v)
        found = p < s.n
        L = len(sep.v)
        cs = const_str(sep.v)
        return TupV((named_slice(ex.cx, s, z3.IntVal(0), p), StrV(cs.arr, z3.If(found, L, 0)),
                     named_slice(ex.cx, s, z3.If(found, p + L, s.n), s.n)))
    if not (isinstance(sep, PyConst) and isinstance(sep.v, str) and len(sep.v) == 1):
        raise Unsupported("str.partition with a non-constant or multi-character separator")
    p = first_index(ex.cx, s, ord(sep.v))
    found = p < s.n
    left = str_slice(s, z3.IntVal(0), p)
    mid = StrV(z3.K(I, z3.IntVal(ord(sep.v))), z3.If(found, 1, 0))
    right = str_slice(s, z3.If(found, p + 1, s.n), s.n)
    return TupV((left, mid, right))


def _s_find(ex, st, s, args, kwargs, node, spec):
    sub = args[0]
    if isinstance(sub, PyConst) and isinstance(sub.v, str) and len(sub.v) == 1:
        p = first_index(ex.cx, s, ord(sub.v))
        return z3.If(p < s.n, p, -1)
    fn = z3.Function("STR_FIND", AII, I, AII, I, I)
    sub = as_str(sub)
    r = fn(s.arr, s.n, sub.arr, sub.n)
    st.pc.append(z3.And(-1 <= r, r <= s.n))
    return r


def _s_replace(ex, st, s, args, kwargs, node, spec):
    if all(isinstance(x, PyConst) and isinstance(x.v, str) and len(x.v) == 1 for x in args[:2]):
        # single character by single character: exact pointwise semantics
        ca, cb = ord(args[0].v), ord(args[1].v)
        cache = ex.cx.__dict__.setdefault("_repl_cache", {})
        key = (s.arr.get_id(), ca, cb)
        if key not in cache:
            arr = fresh("replaced", AII)
            k = z3.Int("k!rp")
            ex.cx.axioms.append(z3.ForAll([k], arr[k] == z3.If(s.arr[k] == ca, cb, s.arr[k]), patterns=[arr[k]]))
            cache[key] = arr
        return StrV(cache[key], s.n)
    a, b = as_str(args[0]), as_str(args[1])
    fa = z3.Function("STR_REPLACE.arr", AII, I, AII, I, AII, I, AII)
    fn = z3.Function("STR_REPLACE.n", AII, I, AII, I, AII, I, I)
    n = fn(s.arr, s.n, a.arr, a.n, b.arr, b.n)
    st.pc.append(n >= 0)
    return StrV(fa(s.arr, s.n, a.arr, a.n, b.arr, b.n), n)


STRIP_FN = {}


def _strip_index(cx, s, chars, left):
    """Index where s.lstrip(chars) starts (left) / where s.rstrip(chars) ends (not left), with defining axioms per use."""
    key_name = ("L" if left else "R") + "STRIP[" + "".join(sorted(chars)) + "]"
    fn = STRIP_FN.setdefault(key_name, z3.Function(key_name, AII, I, I))
    cache = cx.__dict__.setdefault("_strip", set())
    key = (s.arr.get_id(), s.n.get_id(), key_name)
    j = fn(s.arr, s.n)
    if key not in cache:
        cache.add(key)
        t = z3.Int("t!st")

        def inset(c):
            return z3.Or(*[c == ord(ch) for ch in chars])
        if left:
            cx.axioms += [0 <= j, j <= s.n, z3.Implies(j < s.n, z3.Not(inset(s.arr[j]))),
                          z3.ForAll([t], z3.Implies(z3.And(0 <= t, t < j), inset(s.arr[t])))]
        else:
            cx.axioms += [0 <= j, j <= s.n, z3.Implies(j > 0, z3.Not(inset(s.arr[j - 1]))),
                          z3.ForAll([t], z3.Implies(z3.And(j <= t, t < s.n), inset(s.arr[t])))]
    return j


WHITESPACE = " \t\n\r\x0b\x0c"


def _strip_chars(args):
    if not args or args[0] is None:
        return WHITESPACE
    if isinstance(args[0], PyConst) and isinstance(args[0].v, str) and args[0].v:
        return args[0].v
    raise Unsupported("str.strip with a non-constant character set")


def _s_lstrip(ex, st, s, args, kwargs, node, spec):
    j = _strip_index(ex.cx, s, _strip_chars(args), True)
    return named_slice(ex.cx, s, j, s.n)


def _s_rstrip(ex, st, s, args, kwargs, node, spec):
    return StrV(s.arr, _strip_index(ex.cx, s, _strip_chars(args), False))


def _s_strip(ex, st, s, args, kwargs, node, spec):
    chars = _strip_chars(args)
    r = StrV(s.arr, _strip_index(ex.cx, s, chars, False))
    j = _strip_index(ex.cx, r, chars, True)
    return named_slice(ex.cx, r, j, r.n)


def _s_just(left):
    def f(ex, st, s, args, kwargs, node, spec):
        width = args[0]
        if not is_z3(width):
            width = z3.IntVal(width.v) if isinstance(width, PyConst) else width
        fill = args[1] if len(args) > 1 else PyConst(" ")
        if isinstance(fill, PyConst) and isinstance(fill.v, str) and len(fill.v) == 1:
            fc = z3.IntVal(ord(fill.v))
        else:
            fs = as_str(fill)
            fc = fs.arr[0]
        n = z3.If(width > s.n, width, s.n)
        arr = fresh("justified", AII)
        k = z3.Int("k!lj")
        if left:      # ljust: the string first, then the fill characters
            ex.cx.axioms.append(z3.ForAll([k], arr[k] == z3.If(k < s.n, s.arr[k], fc), patterns=[arr[k]]))
        else:
            pad = n - s.n
            ex.cx.axioms.append(z3.ForAll([k], arr[k] == z3.If(k < pad, fc, s.arr[k - pad]), patterns=[arr[k]]))
        return StrV(arr, n)
    return f


STR_METHODS = {
    "ljust": _s_just(True), "rjust": _s_just(False),
    "lstrip": _s_lstrip, "rstrip": _s_rstrip, "strip": _s_strip,
    "partition": _s_partition, "rpartition": _s_rpartition, "find": _s_find, "replace": _s_replace,
    "upper": _map_chars(UPPER), "lower": _map_chars(LOWER), "startswith": _s_startswith, "endswith": _s_endswith,
    "count": _s_count, "encode": _s_encode, "decode": _s_encode, "format": _s_format,
}
