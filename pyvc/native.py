"""Native side: copy /repo/src to a cache directory keyed by the hash of the sources and
rebuild the four Cython extensions there (the .so files inside /repo may be stale).
Everything that *executes* cutadapt (witnesses, replays, bounded stand-ins) uses this copy."""
import hashlib
import json
import os
import shutil
import subprocess
import sys
import tempfile

from .frontends import REPO

VERIF = os.path.dirname(os.path.dirname(os.path.abspath(__file__)))
CACHE = os.path.join(VERIF, ".cache", "build")
PY = os.path.join(VERIF, ".venv", "bin", "python")
EXTS = ["_align", "qualtrim", "info", "_kmer_finder"]

BUILD_SCRIPT = r'''
import sys
from setuptools import setup, Extension
from Cython.Build import cythonize
exts = [Extension("cutadapt." + n, [f"src/cutadapt/{n}.pyx"], include_dirs=["src/cutadapt"]) for n in %r]
setup(name="cutadapt_verif", package_dir={"": "src"}, packages=["cutadapt"], ext_modules=cythonize(exts, language_level=3, quiet=True),
      script_args=["-q", "build_ext", "--inplace", "-j", "4"])
'''


def source_hash():
    h = hashlib.sha256()
    src = os.path.join(REPO, "src", "cutadapt")
    for fn in sorted(os.listdir(src)):
        if fn.endswith((".py", ".pyx", ".h", ".pxd")):
            h.update(fn.encode())
            with open(os.path.join(src, fn), "rb") as f:
                h.update(f.read())
    return h.hexdigest()[:20]


def build(asan=False):
    """Returns the directory to put on PYTHONPATH (contains the package `cutadapt`)."""
    key = source_hash() + ("-asan" if asan else "")
    dest = os.path.join(CACHE, key)
    marker = os.path.join(dest, "BUILD_OK")
    if os.path.exists(marker):
        os.utime(marker, None)
        return os.path.join(dest, "src")
    os.makedirs(CACHE, exist_ok=True)
    # one build at a time (checks of several properties, or of several trees, may run concurrently)
    import fcntl
    lock = open(os.path.join(CACHE, ".lock"), "w")
    fcntl.flock(lock, fcntl.LOCK_EX)
    try:
        return _build_locked(key, dest, marker, asan)
    finally:
        fcntl.flock(lock, fcntl.LOCK_UN)
        lock.close()


def _build_locked(key, dest, marker, asan):
    import time
    if os.path.exists(marker):
        return os.path.join(dest, "src")
    # keep the cache small: remove builds that have not been used for an hour (a build in use by a concurrent run
    # against another tree must not disappear), and never keep more than eight
    now = time.time()
    olds = []
    for d in os.listdir(CACHE):
        m = os.path.join(CACHE, d, "BUILD_OK")
        if d != key and not d.startswith("."):
            olds.append((os.path.getmtime(m) if os.path.exists(m) else 0, d))
    olds.sort()
    for i, (mt, d) in enumerate(olds):
        if now - mt > 3600 or len(olds) - i > 8:
            shutil.rmtree(os.path.join(CACHE, d), ignore_errors=True)
    shutil.rmtree(dest, ignore_errors=True)
    os.makedirs(os.path.join(dest, "src"))
    srcdir = os.path.join(REPO, "src", "cutadapt")
    pkg = os.path.join(dest, "src", "cutadapt")
    os.makedirs(pkg)
    for fn in os.listdir(srcdir):
        if fn.endswith((".py", ".pyx", ".h", ".pxd", ".pyi", ".typed")):
            shutil.copy2(os.path.join(srcdir, fn), os.path.join(pkg, fn))
    vf = os.path.join(pkg, "_version.py")
    if not os.path.exists(vf):
        with open(vf, "w") as f:
            f.write("version = '0+verif'\n__version__ = version\n")
    with open(os.path.join(dest, "build_ext.py"), "w") as f:
        f.write(BUILD_SCRIPT % (EXTS,))
    env = dict(os.environ)
    if asan:
        env["CC"] = "clang"
        env["LDSHARED"] = "clang -shared"
        env["CFLAGS"] = "-fsanitize=address -shared-libasan -g -O1 -fno-omit-frame-pointer"
        env["LDFLAGS"] = "-fsanitize=address -shared-libasan"
    r = subprocess.run([PY, "build_ext.py"], cwd=dest, env=env, capture_output=True, text=True)
    if r.returncode != 0:
        raise RuntimeError("native build failed:\n" + r.stdout[-2000:] + r.stderr[-3000:])
    shutil.rmtree(os.path.join(dest, "build"), ignore_errors=True)
    for fn in os.listdir(pkg):
        if fn.endswith(".c"):
            os.unlink(os.path.join(pkg, fn))
    with open(marker, "w") as f:
        f.write(key)
    return os.path.join(dest, "src")


def run_script(script, args=(), asan=False, timeout=3600, input_json=None):
    """Run a native helper script (under /verif/native) against the rebuilt copy; returns parsed JSON stdout."""
    path = build(asan=asan)
    env = dict(os.environ)
    env["PYTHONPATH"] = path + os.pathsep + VERIF
    env.pop("PYTHONHOME", None)
    if asan:
        lib = subprocess.run(["clang", "-print-file-name=libclang_rt.asan-x86_64.so"], capture_output=True, text=True).stdout.strip()
        env["LD_PRELOAD"] = lib
        env["PYTHONMALLOC"] = "malloc"
        env["ASAN_OPTIONS"] = "detect_leaks=0"
    r = subprocess.run([PY, script, *map(str, args)], env=env, capture_output=True, text=True, timeout=timeout,
                       input=json.dumps(input_json) if input_json is not None else None)
    out = r.stdout.strip()
    try:
        data = json.loads(out.splitlines()[-1]) if out else None
    except Exception:
        data = None
    err = r.stderr
    if len(err) > 8000:
        cases = [l for l in err.splitlines() if l.startswith("CASE ")]
        err = (cases[-1] + "\n" if cases else "") + err[-7000:]
    return {"returncode": r.returncode, "json": data, "stdout": out[-4000:], "stderr": err}
