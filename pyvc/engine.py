"""Symbolic executor: Python AST -> verification conditions.

Forward execution with path splitting at return/raise/break/continue, state merging at
joins, loops cut by invariants, calls replaced by contracts (or by inlining the callee's
real body when it has none)."""
import ast
import z3

from .values import *  # noqa
from .state import St, Obl, FnCtx, CArr
from . import api
from . import frontends

INT_CTYPES = {"int": 32, "Py_ssize_t": 64, "ssize_t": 64, "long": 64}
# unsigned C integer types: arithmetic is modulo 2**bits in C; the encoding is mathematical, so every value of such a
# type (variables on assignment, results of + - * with an unsigned operand) carries a no-wrap obligation, and a
# comparison of an unsigned with a signed operand obliges the signed operand to be non-negative (C converts it).
UNSIGNED_CTYPES = {"size_t": 64, "unsigned size_t": 64, "unsigned int": 32, "unsigned long": 64, "uint32_t": 32,
                   "uint64_t": 64, "unsigned Py_ssize_t": 64}


def zint(v):
    if isinstance(v, bool):
        return z3.IntVal(1 if v else 0)
    if isinstance(v, int):
        return z3.IntVal(v)
    if isinstance(v, z3.BoolRef):
        return z3.If(v, 1, 0)
    return v


def py_floordiv(a, b):
    return z3.If(b > 0, a / b, (-a) / (-b))


def py_mod(a, b):
    return a - b * py_floordiv(a, b)


def slice_bounds(n, lo, hi):
    """Python slice normalisation for s[lo:hi] on a sequence of length n."""
    def norm(x, default):
        if x is None:
            return default
        x = zint(x)
        return z3.If(x < 0, z3.If(x + n < 0, z3.IntVal(0), x + n), z3.If(x > n, n, x))
    a = norm(lo, z3.IntVal(0))
    b = norm(hi, n)
    b = z3.If(b < a, a, b)
    return a, b


def str_slice(s, lo, hi):
    a, b = slice_bounds(s.n, lo, hi)
    k = z3.Int("k!sl")
    return StrV(z3.Lambda([k], s.arr[k + a]), b - a)


def str_concat(a, b):
    k = z3.Int("k!cat")
    return StrV(z3.Lambda([k], z3.If(k < a.n, a.arr[k], b.arr[k - a.n])), a.n + b.n)


def str_eq(a, b):
    a, b = as_str(a), as_str(b)
    la, lb = z3.simplify(a.n), z3.simplify(b.n)
    for x, y in ((la, b), (lb, a)):
        if z3.is_int_value(x) and x.as_long() <= 64:
            L = x.as_long()
            return z3.And(a.n == b.n, *[a.arr[i] == b.arr[i] for i in range(L)])
    k = z3.Int("k!eq")
    return z3.And(a.n == b.n, z3.ForAll([k], z3.Implies(z3.And(0 <= k, k < a.n), a.arr[k] == b.arr[k])))


class Exec:
    def __init__(self, cx: FnCtx, world):
        self.cx = cx
        self.world = world          # World: class index, contracts, builtins

    # ------------------------------------------------------------------ helpers
    def hyps(self, st):
        return st.pc + self.cx.guards

    def feasible(self, st, cond, timeout=300):
        """False only if cond is refuted by the quantifier-free part of the path condition."""
        from . import smt
        flat = []
        for h in st.pc + self.cx.guards:
            smt.flatten(h, flat)
        s = z3.Solver()
        s.set(timeout=timeout)
        for h in flat:
            if not smt.has_quant(h):
                s.add(h)
        s.add(cond)
        return s.check() != z3.unsat

    def oblige(self, label, kind, st, goal, node=None):
        return self.cx.oblige(label, kind, st, goal, getattr(node, "lineno", 0))

    def need_not_none(self, v, st, node, what="value"):
        if v is None:
            self.oblige(f"not_none", "none", st, z3.BoolVal(False), node)
            raise Unsupported(f"definitely-None {what} used at line {getattr(node, 'lineno', 0)}")
        if isinstance(v, Opt):
            self.oblige(f"not_none", "none", st, z3.Not(v.none), node)
            return v.val
        return v

    # ------------------------------------------------------------------ expressions
    def ev(self, node, st, spec=False, b=None):
        if isinstance(node, str):
            node = ast.parse(node.strip(), mode="eval").body
            spec = True
        m = getattr(self, "e_" + type(node).__name__, None)
        if m is None:
            raise Unsupported(f"expression {type(node).__name__} at line {getattr(node, 'lineno', '?')}")
        return m(node, st, spec, b or {})

    def e_Constant(self, n, st, spec, b):
        v = n.value
        if isinstance(v, bool):
            return z3.BoolVal(v)
        if isinstance(v, int):
            return z3.IntVal(v)
        if v is None:
            return None
        if isinstance(v, float):
            return z3.RealVal(repr(v))
        return PyConst(v)

    def e_Name(self, n, st, spec, b):
        if n.id in b:
            return b[n.id]
        if n.id in st.env:
            return st.env[n.id]
        if n.id in self.cx.c.consts:
            return self.cx.c.consts[n.id]
        w = self.world.lookup_global(n.id, self.cx)
        if w is not None:
            return w
        raise Unsupported(f"unknown name {n.id!r} at line {getattr(n, 'lineno', '?')} in {self.cx.fn}")

    def e_Tuple(self, n, st, spec, b):
        return TupV(self.ev(e, st, spec, b) for e in n.elts)

    def e_List(self, n, st, spec, b):
        return ListV((z3.BoolVal(True), self.ev(e, st, spec, b)) for e in n.elts)

    def e_JoinedStr(self, n, st, spec, b):
        return StrV(fresh("fstr.arr", AII), fresh("fstr.n", I))

    def e_IfExp(self, n, st, spec, b):
        c = boolify(self.ev(n.test, st, spec, b))
        self.cx.guards.append(c)
        try:
            x = self.ev(n.body, st, spec, b)
        finally:
            self.cx.guards.pop()
        self.cx.guards.append(z3.Not(c))
        try:
            y = self.ev(n.orelse, st, spec, b)
        finally:
            self.cx.guards.pop()
        # `x if x is not None else d`: in the branch guarded by "x is not None" the optional value is its value
        if isinstance(x, Opt) and z3.eq(z3.simplify(c), z3.simplify(z3.Not(x.none))):
            x = x.val
        if isinstance(y, Opt) and z3.eq(z3.simplify(z3.Not(c)), z3.simplify(z3.Not(y.none))):
            y = y.val
        return merge_val(c, x, y)

    def e_BoolOp(self, n, st, spec, b):
        # Python semantics: returns one of the operands; we only need truthiness unless
        # the operands are non-boolean (x or default)
        vals = []
        pushed = 0
        try:
            for v in n.values:
                val = self.ev(v, st, spec, b)
                vals.append(val)
                g = boolify(val)
                self.cx.guards.append(g if isinstance(n.op, ast.And) else z3.Not(g))
                pushed += 1
        finally:
            for _ in range(pushed):
                self.cx.guards.pop()
        if all(isinstance(v, z3.BoolRef) for v in vals):
            return z3.And(*vals) if isinstance(n.op, ast.And) else z3.Or(*vals)
        # value semantics
        try:
            res = vals[-1]
            for v in reversed(vals[:-1]):
                g = boolify(v)
                if isinstance(n.op, ast.And):
                    res = merge_val(g, res, v)
                else:
                    res = merge_val(g, v, res)
            return res
        except Unsupported:
            # operands of unrelated types: only the truth value is meaningful (tests of if/while/assert)
            bs = [boolify(v) for v in vals]
            return z3.And(*bs) if isinstance(n.op, ast.And) else z3.Or(*bs)

    def e_UnaryOp(self, n, st, spec, b):
        v = self.ev(n.operand, st, spec, b)
        if isinstance(n.op, ast.Not):
            return z3.Not(boolify(v))
        if isinstance(n.op, ast.USub):
            return -zint(v)
        if isinstance(n.op, ast.UAdd):
            return zint(v)
        raise Unsupported(f"unary {type(n.op).__name__}")

    def arith(self, op, l, r, st, node, spec):
        if isinstance(l, Opt):
            l = l.val if spec else self.need_not_none(l, st, node)
        if isinstance(r, Opt):
            r = r.val if spec else self.need_not_none(r, st, node)
        if isinstance(op, ast.Add):
            # sequence values with their own notion of concatenation (contract modules may register one)
            for o_ in (l, r):
                h_ = self.world.handlers.get((o_.cls, "__concat__")) if isinstance(o_, ObjV) else None
                if h_ is not None:
                    return h_(self, st, l, r, node)
        if isinstance(l, CArr) and isinstance(op, (ast.Add, ast.Sub)):
            k = zint(r)
            return CArr(l.arr, l.n, l.off + (k if isinstance(op, ast.Add) else -k), l.name)
        if isinstance(op, ast.Add) and (isinstance(l, (StrV, PyConst)) or isinstance(r, (StrV, PyConst))):
            if isinstance(l, PyConst) and isinstance(r, PyConst):
                return PyConst(l.v + r.v)
            return str_concat(as_str(l), as_str(r))
        if isinstance(op, ast.Add) and isinstance(l, ListV) and isinstance(r, ListV):
            return ListV(l.items + r.items)
        if isinstance(op, ast.Add) and isinstance(l, TupV) and isinstance(r, TupV):
            return TupV(l.items + r.items)
        if isinstance(op, ast.Add) and isinstance(l, MapV) and isinstance(r, MapV) and not z3.is_array(l.arr.sort().range()):
            arr = fresh("mapsum", AII)
            k = z3.Int("k!ms")
            self.cx.axioms.append(z3.ForAll([k], arr[k] == l.arr[k] + r.arr[k], patterns=[arr[k]]))
            return MapV(arr)
        if isinstance(op, ast.Add) and isinstance(l, SeqV) and isinstance(r, SeqV):
            # list concatenation of two symbolic sequences: a named array with its defining axiom
            arr = fresh("concat", AII)
            k = z3.Int("k!cc")
            self.cx.axioms.append(z3.ForAll([k], arr[k] == z3.If(k < l.n, l.arr[k], r.arr[k - l.n]), patterns=[arr[k]]))
            return SeqV(arr, l.n + r.n, l.elem)
        if isinstance(op, ast.Mult) and isinstance(l, PyConst) and isinstance(l.v, str):
            l, r = r, l
        if isinstance(op, ast.Mult) and isinstance(r, PyConst) and isinstance(r.v, str) and len(r.v) == 1:
            cnt = zint(l)
            cnt = z3.If(cnt < 0, 0, cnt)
            return StrV(z3.K(I, z3.IntVal(ord(r.v))), cnt)
        if isinstance(op, ast.Mod) and isinstance(l, (PyConst, StrV)):
            return StrV(fresh("fmt.arr", AII), fresh("fmt.n", I))
        l, r = zint(self.need_not_none(l, st, node)), zint(self.need_not_none(r, st, node))
        if not (is_z3(l) and is_z3(r)):
            raise Unsupported(f"arithmetic on {l!r}, {r!r} at line {getattr(node, 'lineno', '?')}")
        h = self.world.float_hook
        if (z3.is_real(l) or z3.is_real(r)) and h is not None:
            res = h(self, op, l, r, st, node)
            if res is not None:
                return res
        l, r = coerce_num(l, r)
        if isinstance(op, ast.Add):
            return l + r
        if isinstance(op, ast.Sub):
            return l - r
        if isinstance(op, ast.Mult):
            return l * r
        if isinstance(op, ast.FloorDiv):
            if not spec:
                self.oblige(f"div_nonzero", "div", st, r != 0, node)
            if z3.is_real(l):
                return z3.ToReal(z3.ToInt(l / r))
            if self.cx.ex.ctypes and not spec:
                # C semantics (cdivision unspecified): require non-negative operands so both agree
                pass
            return py_floordiv(l, r)
        if isinstance(op, ast.Div):
            if not spec:
                self.oblige(f"div_nonzero", "div", st, r != 0, node)
            if z3.is_int(l):
                l, r = z3.ToReal(l), z3.ToReal(r)
            return l / r
        if isinstance(op, ast.Mod):
            if not spec:
                self.oblige(f"div_nonzero", "div", st, r != 0, node)
            return py_mod(l, r)
        if isinstance(op, ast.Pow):
            lr, rr = z3.simplify(l), z3.simplify(r)
            if z3.is_int_value(lr) and z3.is_int_value(rr) and rr.as_long() >= 0:
                return z3.IntVal(lr.as_long() ** rr.as_long())
            raise Unsupported("symbolic power")
        if isinstance(op, (ast.BitAnd, ast.BitOr, ast.BitXor, ast.LShift, ast.RShift)):
            f = self.cx.spec.get("__bitop__")
            if f is None:
                raise Unsupported(f"bit operation {type(op).__name__} without a bit-operation spec")
            return f(type(op).__name__, l, r)
        raise Unsupported(f"operator {type(op).__name__}")

    def c_unsigned(self, n):
        """bits if the C expression has an unsigned integer type (syntactic, from the declared C types), else 0"""
        ct = self.cx.ex.ctypes
        if not ct or self.cx.depth:
            return 0
        if isinstance(n, ast.Name):
            return UNSIGNED_CTYPES.get(ct.get((self.cx.ex.qualname, n.id)), 0)
        if isinstance(n, ast.BinOp) and isinstance(n.op, (ast.Add, ast.Sub, ast.Mult, ast.FloorDiv, ast.Mod)):
            return max(self.c_unsigned(n.left), self.c_unsigned(n.right))
        if isinstance(n, ast.UnaryOp):
            return self.c_unsigned(n.operand)
        return 0

    def e_BinOp(self, n, st, spec, b):
        v = self.arith(n.op, self.ev(n.left, st, spec, b), self.ev(n.right, st, spec, b), st, n, spec)
        if not spec and self.cx.c.c_int_bits and is_z3(v) and z3.is_int(v):
            bits = self.c_unsigned(n)
            if bits:
                self.oblige("c_unsigned_no_wrap", "overflow", st, z3.And(v >= 0, v < 2 ** bits), n)
        return v

    def compare(self, op, x, y, st, node, spec):
        if isinstance(op, (ast.Is, ast.IsNot)):
            if y is None:
                r = z3.BoolVal(True) if x is None else (x.none if isinstance(x, Opt) else z3.BoolVal(False))
            elif x is None:
                r = y.none if isinstance(y, Opt) else z3.BoolVal(False)
            elif isinstance(x, ClsV) and isinstance(y, ClsV):
                r = z3.BoolVal(x.name == y.name)
            elif is_z3(x) and is_z3(y):
                r = x == y
            elif isinstance(x.val if isinstance(x, Opt) else x, ObjV) and isinstance(y.val if isinstance(y, Opt) else y, ObjV) \
                    and "__id__" in (x.val if isinstance(x, Opt) else x).fields and "__id__" in (y.val if isinstance(y, Opt) else y).fields:
                # identity of objects that carry an identity field; None is identical to None only
                xn, xv = (x.none, x.val) if isinstance(x, Opt) else (z3.BoolVal(False), x)
                yn, yv = (y.none, y.val) if isinstance(y, Opt) else (z3.BoolVal(False), y)
                r = z3.Or(z3.And(xn, yn), z3.And(z3.Not(xn), z3.Not(yn), xv.fields["__id__"] == yv.fields["__id__"]))
            else:
                raise Unsupported(f"`is` on {x!r}, {y!r}")
            return r if isinstance(op, ast.Is) else z3.Not(r)
        if isinstance(op, (ast.In, ast.NotIn)):
            r = self.contains(x, y, st, node, spec)
            return r if isinstance(op, ast.In) else z3.Not(r)
        if isinstance(op, (ast.Eq, ast.NotEq)):
            r = self.equal(x, y, st, node)
            return r if isinstance(op, ast.Eq) else z3.Not(r)
        x, y = zint(self.need_not_none(x, st, node)), zint(self.need_not_none(y, st, node))
        if isinstance(x, TupV) and isinstance(y, TupV) and len(x.items) == len(y.items) and x.items:
            # lexicographic order of tuples
            strict = {ast.Lt: ast.Lt, ast.LtE: ast.Lt, ast.Gt: ast.Gt, ast.GtE: ast.Gt}[type(op)]()
            res = self.compare(op, x.items[-1], y.items[-1], st, node, spec)
            for a_, b_ in reversed(list(zip(x.items[:-1], y.items[:-1]))):
                res = z3.Or(self.compare(strict, a_, b_, st, node, spec), z3.And(self.equal(a_, b_, st, node), res))
            return res
        if isinstance(x, CArr) and isinstance(y, CArr):
            x, y = x.off, y.off
        if isinstance(x, PyConst) and isinstance(y, PyConst):
            return z3.BoolVal({ast.Lt: x.v < y.v, ast.LtE: x.v <= y.v, ast.Gt: x.v > y.v, ast.GtE: x.v >= y.v}[type(op)])
        if not (is_z3(x) and is_z3(y)):
            raise Unsupported(f"ordering comparison on {x!r}, {y!r} at line {getattr(node, 'lineno', '?')}")
        x, y = coerce_num(x, y)
        return {ast.Lt: lambda: x < y, ast.LtE: lambda: x <= y, ast.Gt: lambda: x > y, ast.GtE: lambda: x >= y}[type(op)]()

    def equal(self, x, y, st, node):
        if x is None or y is None:
            o = y if x is None else x
            if o is None:
                return z3.BoolVal(True)
            return o.none if isinstance(o, Opt) else z3.BoolVal(False)
        if isinstance(x, Opt) or isinstance(y, Opt):
            nx, vx = (x.none, x.val) if isinstance(x, Opt) else (z3.BoolVal(False), x)
            ny, vy = (y.none, y.val) if isinstance(y, Opt) else (z3.BoolVal(False), y)
            return z3.Or(z3.And(nx, ny), z3.And(z3.Not(nx), z3.Not(ny), self.equal(vx, vy, st, node)))
        if isinstance(x, PyConst) and isinstance(y, PyConst):
            return z3.BoolVal(x.v == y.v)
        if isinstance(x, (StrV, PyConst)) and isinstance(y, (StrV, PyConst)):
            if isinstance(x, PyConst) and not isinstance(x.v, (str, bytes)) or \
               isinstance(y, PyConst) and not isinstance(y.v, (str, bytes)):
                return z3.BoolVal(False)
            return str_eq(x, y)
        if isinstance(x, (StrV, PyConst)) != isinstance(y, (StrV, PyConst)):
            # char code (C char) compared with a one-character bytes/str literal
            s, o = (x, y) if isinstance(x, (StrV, PyConst)) else (y, x)
            if isinstance(s, PyConst) and isinstance(s.v, (str, bytes)) and len(s.v) == 1 and is_z3(o):
                ch = s.v[0] if isinstance(s.v, bytes) else ord(s.v)
                return zint(o) == ch
            return z3.BoolVal(False)
        if isinstance(x, ListV) and isinstance(y, TupV):
            x, y = y, x
        if isinstance(x, TupV) and isinstance(y, ListV):
            # tuple against a guarded list: same length and equal element by element
            n_ = z3.Sum(*[z3.If(g, 1, 0) for g, _ in y.items]) if y.items else z3.IntVal(0)
            if len(x.items) > len(y.items):
                return z3.BoolVal(False)
            cs = [n_ == len(x.items)]
            for a_, (g_, b_) in zip(x.items, y.items):
                cs.append(z3.And(g_, self.equal(a_, b_, st, node)))
            return z3.And(*cs)
        if isinstance(x, TupV) and isinstance(y, TupV):
            if len(x.items) != len(y.items):
                return z3.BoolVal(False)
            return z3.And(*[self.equal(p, q, st, node) for p, q in zip(x.items, y.items)]) if x.items else z3.BoolVal(True)
        if isinstance(x, SeqV) and isinstance(y, ListV) and not y.items:
            return x.n == 0
        if isinstance(y, SeqV) and isinstance(x, ListV) and not x.items:
            return y.n == 0
        if isinstance(x, ClsV) and isinstance(y, ClsV):
            return z3.BoolVal(x.name == y.name)
        if isinstance(x, (ClsV, ChoiceV)) and isinstance(y, (ClsV, ChoiceV)):
            ox = x.options if isinstance(x, ChoiceV) else [(z3.BoolVal(True), x)]
            oy = y.options if isinstance(y, ChoiceV) else [(z3.BoolVal(True), y)]
            if all(isinstance(v, ClsV) for _, v in ox + oy):
                hits = [z3.And(g1, g2) for g1, v1 in ox for g2, v2 in oy if v1.name == v2.name]
                return z3.Or(*hits) if hits else z3.BoolVal(False)
        if isinstance(x, MapV) and isinstance(y, MapV):
            return x.arr == y.arr
        if isinstance(x, ObjV) and isinstance(y, ObjV):
            if "__id__" in x.fields and "__id__" in y.fields:
                return x.fields["__id__"] == y.fields["__id__"]
            raise Unsupported(f"equality of objects {x.cls} without identity")
        x, y = zint(x), zint(y)
        if is_z3(x) and is_z3(y):
            if z3.is_bool(x) != z3.is_bool(y):
                x = z3.If(x, 1, 0) if z3.is_bool(x) else x
                y = z3.If(y, 1, 0) if z3.is_bool(y) else y
            if z3.is_arith(x):
                x, y = coerce_num(x, y)
            return x == y
        raise Unsupported(f"equality of {x!r} and {y!r}")

    def contains(self, x, y, st, node, spec):
        if isinstance(y, (TupV, ListV)):
            items = [(z3.BoolVal(True), i) for i in y.items] if isinstance(y, TupV) else y.items
            if not items:
                return z3.BoolVal(False)
            return z3.Or(*[z3.And(g, self.equal(x, i, st, node)) for g, i in items])
        if isinstance(y, PyConst) and isinstance(y.v, (tuple, list, set, frozenset, dict)):
            vals = [self.world.lift(v) for v in y.v]
            return z3.Or(*[self.equal(x, v, st, node) for v in vals]) if vals else z3.BoolVal(False)
        if isinstance(y, DictIntV):
            return y.has[zint(x)]
        if isinstance(y, ObjV) and y.cls == "__kwdict__" and isinstance(x, PyConst):
            v_ = y.fields.get(x.v)
            if v_ is None:
                return z3.BoolVal(False)
            return z3.Not(v_.none) if isinstance(v_, Opt) else z3.BoolVal(True)
        f = self.cx.spec.get("__contains__")
        if f is not None:
            r = f(self, x, y, st)
            if r is not None:
                return r
        if isinstance(y, Opt):
            y = y.val if spec else self.need_not_none(y, st, node, "in")
        if isinstance(x, PyConst) and isinstance(x.v, str) and isinstance(y, (StrV, PyConst)):
            # substring test with a constant needle: uninterpreted predicate of the haystack
            if isinstance(y, PyConst):
                return z3.BoolVal(x.v in y.v)
            fn = z3.Function("HAS_SUBSTR[" + x.v + "]", AII, I, B)
            return fn(y.arr, y.n)
        raise Unsupported(f"`in` on {y!r} at line {getattr(node, 'lineno', '?')}")

    def e_Compare(self, n, st, spec, b):
        terms = [self.ev(n.left, st, spec, b)] + [self.ev(c, st, spec, b) for c in n.comparators]
        if not spec and self.cx.c.c_int_bits and self.cx.ex.ctypes:
            nodes = [n.left] + list(n.comparators)
            for k in range(len(nodes) - 1):
                for un, sn, sv in ((nodes[k], nodes[k + 1], terms[k + 1]), (nodes[k + 1], nodes[k], terms[k])):
                    if self.c_unsigned(un) and not self.c_unsigned(sn) and not isinstance(sn, ast.Constant) \
                            and is_z3(sv) and z3.is_int(sv):
                        self.oblige("c_signed_operand_of_unsigned_compare_nonneg", "overflow", st, sv >= 0, n)
        out = [self.compare(op, x, y, st, n, spec) for op, x, y in zip(n.ops, terms, terms[1:])]
        return z3.And(*out) if len(out) > 1 else out[0]

    def e_Attribute(self, n, st, spec, b):
        # module-qualified constant / function
        if isinstance(n.value, ast.Name) and n.value.id not in b and n.value.id not in st.env:
            g = self.world.lookup_global(n.value.id + "." + n.attr, self.cx)
            if g is not None:
                return g
        base = self.ev(n.value, st, spec, b)
        return self.getattr(base, n.attr, st, n, spec)

    def getattr(self, base, attr, st, node, spec=False):
        if isinstance(base, Opt):
            if spec:
                base = base.val
            else:
                base = self.need_not_none(base, st, node, f".{attr}")
        if base is None:
            if spec:
                raise SpecNoneDeref(f"None.{attr} in specification")
            self.need_not_none(base, st, node, f".{attr}")
        if isinstance(base, ObjV) and attr == "__class__":
            tag = base.fields.get("__cls__")
            if tag is None:
                return ClsV(base.cls)
            tv = z3.simplify(tag)
            if z3.is_int_value(tv):
                return ClsV(self.world.cls_by_tag(tv.as_long()))
            raise Unsupported(f"__class__ of an object of symbolic class at line {getattr(node, 'lineno', '?')}")
        if isinstance(base, ObjV):
            if attr in base.fields:
                tag = base.fields.get("__cls__")
                props = self.world.property_overrides(base.cls, attr)
                if props and tag is not None:
                    val = base.fields[attr]
                    for pcls, concrete in props:
                        sub = ObjV(pcls, {k: v for k, v in base.fields.items() if k != attr})
                        pv = self.call_method(sub, attr, [], {}, st, node, spec)[0]
                        val = merge_val(z3.Or(*[tag == self.world.cls_tag(cn) for cn in concrete]), pv, val)
                    return val
                return base.fields[attr]
            h = self.world.attr_handler(base.cls, attr)
            if h is not None:
                return h(self, st, base, node, spec)
            ca = self.world.class_attr(base.cls, attr)
            if ca is not None:
                return self.ev(ca, St({}, st.pc, st.dec), spec)
            m = self.world.find_method(base.cls, attr)
            if m is not None:
                mcls, fnode = m
                if any(isinstance(d, ast.Name) and d.id == "property" for d in fnode.decorator_list):
                    return self.call_method(base, attr, [], {}, st, node, spec)[0]
                return FuncV(attr, base)
            raise Unsupported(f"attribute {base.cls}.{attr} at line {getattr(node, 'lineno', '?')} in {self.cx.fn}")
        if isinstance(base, ClsV):
            g = self.world.lookup_global(base.name + "." + attr, self.cx)
            if g is not None:
                return g
            raise Unsupported(f"class attribute {base.name}.{attr}")
        if isinstance(base, (StrV, PyConst, ListV, MapV, SeqV, TupV)):
            return FuncV(attr, base)
        raise Unsupported(f"attribute .{attr} of {base!r} at line {getattr(node, 'lineno', '?')}")

    def e_Subscript(self, n, st, spec, b):
        base = self.ev(n.value, st, spec, b)
        if isinstance(n.slice, ast.Slice):
            if n.slice.step is not None:
                step = self.ev(n.slice.step, st, spec, b)
                lo = None if n.slice.lower is None else self.ev(n.slice.lower, st, spec, b)
                hi = None if n.slice.upper is None else self.ev(n.slice.upper, st, spec, b)
                return self.world.slice_step(self, base, lo, hi, step, st, n, spec)
            lo = None if n.slice.lower is None else self.ev(n.slice.lower, st, spec, b)
            hi = None if n.slice.upper is None else self.ev(n.slice.upper, st, spec, b)
            return self.slice(base, lo, hi, st, n, spec)
        idx = self.ev(n.slice, st, spec, b)
        return self.index(base, idx, st, n, spec)

    def slice(self, base, lo, hi, st, node, spec):
        if isinstance(base, Opt):
            base = base.val if spec else self.need_not_none(base, st, node, "slice")
        if isinstance(lo, Opt) or isinstance(hi, Opt):
            raise Unsupported("optional slice bound")
        if isinstance(base, (StrV, PyConst)):
            return str_slice(as_str(base), lo, hi)
        if isinstance(base, ObjV):
            h = self.world.method_handler(base.cls, "__getslice__")
            if h is not None:
                return h(self, st, base, lo, hi, node, spec)
        if isinstance(base, SeqV):
            a, bb = slice_bounds(base.n, lo, hi)
            k = z3.Int("k!sl")
            return SeqV(z3.Lambda([k], base.arr[k + a]), bb - a, base.elem)
        if isinstance(base, ListV) and all(z3.is_true(g) for g, _ in base.items):
            lo_c = None if lo is None else z3.simplify(zint(lo))
            hi_c = None if hi is None else z3.simplify(zint(hi))
            if (lo_c is None or z3.is_int_value(lo_c)) and (hi_c is None or z3.is_int_value(hi_c)):
                return ListV(base.items[slice(None if lo_c is None else lo_c.as_long(),
                                              None if hi_c is None else hi_c.as_long())])
        if isinstance(base, ListV):
            lo_c = None if lo is None else z3.simplify(zint(lo))
            hi_c = None if hi is None else z3.simplify(zint(hi))
            if (lo_c is None or (z3.is_int_value(lo_c) and lo_c.as_long() == 0)) and hi_c is not None and z3.is_int_value(hi_c) and hi_c.as_long() >= 0:
                k_ = hi_c.as_long()
                out = []
                for j, (g, it) in enumerate(base.items):
                    before = z3.Sum(*[z3.If(gg, 1, 0) for gg, _ in base.items[:j]]) if j else z3.IntVal(0)
                    out.append((z3.simplify(z3.And(g, before < k_)), it))
                return ListV(out)
        if isinstance(base, TupV):
            lo_c = None if lo is None else z3.simplify(zint(lo))
            hi_c = None if hi is None else z3.simplify(zint(hi))
            if (lo_c is None or z3.is_int_value(lo_c)) and (hi_c is None or z3.is_int_value(hi_c)):
                return TupV(base.items[slice(None if lo_c is None else lo_c.as_long(),
                                             None if hi_c is None else hi_c.as_long())])
        raise Unsupported(f"slice of {base!r} at line {getattr(node, 'lineno', '?')}")

    def index(self, base, idx, st, node, spec):
        if isinstance(base, Opt):
            base = base.val if spec else self.need_not_none(base, st, node, "index")
        if isinstance(idx, ObjV) and idx.cls == "__slice__":
            return self.slice(base, idx.fields["lo"], idx.fields["hi"], st, node, spec)
        if isinstance(base, CArr):
            i = base.off + zint(idx)
            if not spec:
                self.oblige(f"bounds.{base.name}", "bounds", st,
                            z3.And(0 <= i, i < base.n), node)
            if isinstance(base.arr, dict):
                return ObjV("__struct__", {f: a[i] for f, a in base.arr.items()})
            return base.arr[i]
        if isinstance(base, (StrV, PyConst)) and (isinstance(base, StrV) or isinstance(base.v, (str, bytes))):
            s = as_str(base)
            i = zint(idx)
            j = z3.If(i < 0, i + s.n, i)
            if not spec:
                self.oblige(f"index", "index", st, z3.And(0 <= j, j < s.n), node)
            if isinstance(base, PyConst) and isinstance(base.v, bytes):
                return s.arr[j]
            return StrV(z3.Store(z3.K(I, z3.IntVal(0)), 0, s.arr[j]), z3.IntVal(1))
        if isinstance(base, TupV) or isinstance(base, ListV):
            i = z3.simplify(zint(idx))
            items = base.items if isinstance(base, TupV) else [it for _, it in base.items]
            if isinstance(base, ListV) and not all(z3.is_true(z3.simplify(g)) for g, _ in base.items):
                if not z3.is_int_value(i) or i.as_long() < 0:
                    raise Unsupported("symbolic/negative index into a guarded list")
                want = i.as_long()
                cands = []
                for j, (g, it) in enumerate(base.items):
                    before = z3.Sum(*[z3.If(gg, 1, 0) for gg, _ in base.items[:j]]) if j else z3.IntVal(0)
                    cands.append((z3.And(g, before == want), it))
                if not spec:
                    self.oblige("index", "index", st, z3.Or(*[c_ for c_, _ in cands]), node)
                res = cands[-1][1]
                for c_, it in reversed(cands[:-1]):
                    res = merge_val(c_, it, res)
                return res
            if z3.is_int_value(i):
                k = i.as_long()
                if not (-len(items) <= k < len(items)):
                    self.oblige(f"index", "index", st, z3.BoolVal(False), node)
                    raise Unsupported("constant index out of range")
                return items[k]
            if not items:
                raise Unsupported("index into empty sequence")
            if not spec:
                self.oblige(f"index", "index", st, z3.And(0 <= i, i < len(items)), node)
            res = items[-1]
            for k in range(len(items) - 2, -1, -1):
                res = merge_val(i == k, items[k], res)
            return res
        if isinstance(base, SeqV):
            i = zint(idx)
            j = z3.If(i < 0, i + base.n, i)
            if not spec:
                self.oblige(f"index", "index", st, z3.And(0 <= j, j < base.n), node)
            return self.world.wrap_elem(self, base, base.arr[j], st)
        if isinstance(base, MapV):
            k_ = zint(idx)
            if not (is_z3(k_) and z3.is_int(k_)):
                raise Unsupported(f"map indexed by {idx!r} at line {getattr(node, 'lineno', '?')}")
            v = base.arr[k_]
            return MapV(v) if z3.is_array(v) else v
        if isinstance(base, DictIntV):
            k_ = zint(idx)
            if not spec:
                self.cx.pending.append((z3.Not(base.has[k_]), "KeyError"))
            return base.val[k_]
        if isinstance(base, ObjV):
            h = self.world.method_handler(base.cls, "__getitem__")
            if h is not None:
                return h(self, st, base, idx, node, spec)
        if isinstance(base, PyConst) and isinstance(base.v, dict):
            return self.world.const_dict_get(self, base.v, idx, st, node, spec)
        if isinstance(base, ObjV) and base.cls == "__dict__":
            items = [it for _, it in base.fields["items"].items]
            conds = [self.equal(idx, kv.items[0], st, node) for kv in items]
            if not spec:
                self.oblige("key_present", "index", st, z3.Or(*conds) if conds else z3.BoolVal(False), node)
            res = items[-1].items[1]
            for c_, kv in zip(reversed(conds[:-1]), reversed(items[:-1])):
                res = merge_val(c_, kv.items[1], res)
            return res
        raise Unsupported(f"index into {base!r} at line {getattr(node, 'lineno', '?')}")

    def e_Call(self, n, st, spec, b):
        from .calls import ev_call
        return ev_call(self, n, st, spec, b)

    def e_Lambda(self, n, st, spec, b):
        return FuncV("<lambda>", None, (n, dict(b)))

    def e_ListComp(self, n, st, spec, b):
        from .calls import ev_comprehension
        return ev_comprehension(self, n, st, spec, b)

    e_GeneratorExp = e_ListComp

    def e_Dict(self, n, st, spec, b):
        if not n.keys and "dict" in self.world.builtins and getattr(self.cx.c, "id_key_dicts", False):
            return self.world.builtins["dict"](self, st, [], {}, n, spec)
        keys = [self.ev(k, st, spec, b) for k in n.keys]
        vals = [self.ev(v, st, spec, b) for v in n.values]
        return ObjV("__dict__", {"items": ListV((z3.BoolVal(True), TupV((k, v))) for k, v in zip(keys, vals))})

    def e_Set(self, n, st, spec, b):
        return TupV(self.ev(e, st, spec, b) for e in n.elts)

    def e_Starred(self, n, st, spec, b):
        raise Unsupported("starred expression")
