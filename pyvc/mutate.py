"""Mutation self-test: each committed source rewrite must make a named obligation fail.
An undetected mutant is a weakness of the engine/contract (exit 3), not a property violation."""
import ast
import time

from . import verify, smt
from .values import Unsupported, AttachError


def text_mutator(old, new, occurrence=1):
    def m(fnode):
        src = ast.unparse(fnode)
        idx = -1
        for _ in range(occurrence):
            idx = src.find(old, idx + 1)
            if idx < 0:
                raise AttachError(f"mutant pattern `{old}` (occurrence {occurrence}) not found")
        src2 = src[:idx] + new + src[idx + len(old):]
        f2 = ast.parse(src2).body[0]
        return f2
    return m


def run_mutant(c, m, t_full=20000):
    cx = verify.verify_function(c, mutate=text_mutator(m["old"], m["new"], m.get("occurrence", 1)), canary=False)
    smt.discharge([cx], t_qf=5000, t_full=t_full, use_cli=False, want_model=False)
    failed = [o for o in cx.obls if o.status != "unsat"]
    return failed


def self_test(res, contracts, log):
    for c in contracts:
        for m in c.mutants:
            t0 = time.time()
            try:
                failed = run_mutant(c, m)
                entry = {"function": c.name, "mutant": f"{m['old']} -> {m['new']} (#{m.get('occurrence', 1)})",
                         "detected": bool(failed), "failing": [f"{o.oid}:{o.status}" for o in failed[:4]],
                         "time_s": round(time.time() - t0, 1)}
            except (Unsupported, AttachError) as e:
                entry = {"function": c.name, "mutant": f"{m['old']} -> {m['new']}", "detected": False, "error": str(e)}
            res.mutants.append(entry)
            log(f"  mutant {entry['function']}: {entry['mutant']}: " + ("detected " + ",".join(entry.get("failing", [])) if entry["detected"] else "NOT DETECTED " + entry.get("error", "")))
            if not entry["detected"]:
                res.errors.append(("vacuous", f"mutant not detected: {entry['function']} {entry['mutant']}"))
