"""Mutation self-test: each committed source rewrite must make a named obligation fail.
An undetected mutant is a weakness of the engine/contract (exit 3), not a property violation."""
import ast
import time

from . import verify, smt
from .values import Unsupported, AttachError


def text_mutator(old, new, occurrence=1):
    def m(fnode):
        src = ast.unparse(fnode)
        idx = -1
        for _ in range(occurrence):
            idx = src.find(old, idx + 1)
            if idx < 0:
                raise AttachError(f"mutant pattern `{old}` (occurrence {occurrence}) not found")
        src2 = src[:idx] + new + src[idx + len(old):]
        f2 = ast.parse(src2).body[0]
        return f2
    return m


def run_mutant(c, m, t_full=20000):
    cx = verify.verify_function(c, mutate=text_mutator(m["old"], m["new"], m.get("occurrence", 1)), canary=False)
    smt.discharge([cx], t_qf=5000, t_full=t_full, use_cli=False, want_model=False)
    failed = [o for o in cx.obls if o.status != "unsat"]
    return failed


def _one(job):
    import importlib
    cname, m = job
    from . import runner, api
    runner.load_contracts()
    c = next((x for x in api.REGISTRY.values() if x.name == cname), None) or api.BY_NAME[cname]
    t0 = time.time()
    label = f"{m['old']} -> {m['new']} (#{m.get('occurrence', 1)})"
    try:
        cx = verify.verify_function(c, mutate=text_mutator(m["old"], m["new"], m.get("occurrence", 1)), canary=False)
    except AttachError as e:
        return {"function": cname, "mutant": label, "detected": False, "attach_error": str(e)}
    except Unsupported as e:
        return {"function": cname, "mutant": label, "detected": False, "error": str(e)}
    except Exception as e:   # noqa  - the engine itself failed on the rewritten code
        return {"function": cname, "mutant": label, "detected": False, "error": "engine error: " + repr(e)[:200]}
    jobs = []
    for oi, o in enumerate(cx.obls):
        qf = None if smt.has_quant(o.goal) else smt.to_smt2([], o.hyps, o.goal, qf_only=True)
        jobs.append((oi, qf, smt.to_smt2(cx.axioms, o.hyps, o.goal), 4000, 15000, False, False))
    failing = []
    for j in jobs:
        r = smt._solve(j)
        if r[1] != "unsat":
            failing.append(f"{cx.obls[r[0]].oid}:{r[1]}")
            if len(failing) >= 2:
                break
    return {"function": cname, "mutant": label, "detected": bool(failing), "failing": failing, "time_s": round(time.time() - t0, 1)}


def self_test(res, contracts, log):
    import multiprocessing as mp
    jobs = [(c.name, m) for c in contracts for m in c.mutants]
    if not jobs:
        return
    results = smt.pmap(_one, jobs, min(16, len(jobs)),
                       lambda j: {"function": j[0], "mutant": f"{j[1]['old']} -> {j[1]['new']}", "detected": False,
                                  "error": "the worker process died or timed out"}, job_timeout=1200)
    for entry in results:
        res.mutants.append(entry)
        if entry["detected"]:
            log(f"  mutant {entry['function']}: {entry['mutant']}: detected " + ",".join(entry["failing"]))
        elif "attach_error" in entry:
            log(f"  mutant {entry['function']}: {entry['mutant']}: contract no longer attaches ({entry['attach_error']}) — "
                "on /repo this triggers the native runtime-contract search")
        else:
            log(f"  mutant {entry['function']}: {entry['mutant']}: NOT DETECTED " + entry.get("error", ""))
            res.errors.append(("vacuous", f"mutant not detected: {entry['function']} {entry['mutant']}"))
