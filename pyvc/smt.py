"""Discharge obligations: one SMT query each, 16-process pool.

Order: (0) z3 with the quantifier-free hypotheses only (sound: fewer hypotheses),
(1) z3 with everything, (2) /usr/bin/cvc5 on the exported SMT-LIB, (3) /usr/bin/z3 4.8.12.
`unsat` from any back end discharges; `sat` is a refutation (model returned); anything
else is 'unknown'."""
import multiprocessing as mp
import os
import subprocess
import tempfile
import time
import z3


def has_quant(e):
    seen = set()
    stack = [e]
    while stack:
        x = stack.pop()
        if x.get_id() in seen:
            continue
        seen.add(x.get_id())
        if z3.is_quantifier(x):
            if x.is_lambda():
                stack.append(x.body())
                continue
            return True
        stack.extend(x.children())
    return False


def flatten(h, out, guard=None):
    """Split conjunctions (also under an implication / ite-as-implication) into separate facts."""
    if z3.is_and(h):
        for c in h.children():
            flatten(c, out, guard)
    elif z3.is_implies(h) and (z3.is_and(h.arg(1)) or z3.is_implies(h.arg(1))):
        g = h.arg(0) if guard is None else z3.And(guard, h.arg(0))
        flatten(h.arg(1), out, g)
    else:
        out.append(h if guard is None else z3.Implies(guard, h))


def to_smt2(axioms, hyps, goal, qf_only=False):
    s = z3.Solver()
    if not qf_only:
        s.add(*axioms)
    flat = []
    for h in hyps:
        flatten(h, flat)
    for h in flat:
        if qf_only and has_quant(h):
            continue
        s.add(h)
    s.add(z3.Not(goal))
    return s.to_smt2()


def _model_dict(m):
    out = {}
    for d in m.decls():
        try:
            v = m[d]
            if d.arity() == 0:
                if z3.is_array(v) or isinstance(v, z3.QuantifierRef):
                    out[d.name()] = str(v)[:400]
                else:
                    out[d.name()] = str(v)
            else:
                out[d.name()] = str(v)[:200]
        except Exception:
            pass
    return out


def _solve(job):
    name, smt_qf, smt_full, t_qf, t_full, want_model, use_cli = job
    t0 = time.time()
    try:
        if smt_qf is not None:
            s = z3.Solver()
            s.set(timeout=t_qf)
            s.from_string(smt_qf)
            if s.check() == z3.unsat:
                return name, "unsat", "z3-5.1(qf-hyps)", time.time() - t0, "", None
        # portfolio: the same query under several seeds / budgets (slow queries are the unstable ones)
        r = None
        slices = [(0, min(t_full, 10000)), (1, min(t_full, 10000)), (2, t_full)]
        for seed, budget in slices:
            s = z3.Solver()
            s.set(timeout=budget)
            if seed:
                s.set("random_seed", seed)
                s.set("smt.random_seed", seed) if False else None
                z3.set_param("smt.random_seed", seed)
            else:
                z3.set_param("smt.random_seed", 0)
            s.from_string(smt_full)
            r = s.check()
            if r == z3.unsat:
                return name, "unsat", "z3-5.1" + (f"(seed {seed})" if seed else ""), time.time() - t0, "", None
            if r == z3.sat:
                md = _model_dict(s.model()) if want_model else None
                return name, "sat", "z3-5.1", time.time() - t0, "", md
        reason = s.reason_unknown()
        if use_cli:
            for solver, cmd in (("cvc5-1.0.3", ["/usr/bin/cvc5", "--lang=smt2", f"--tlimit={t_full}"]),
                                ("z3-4.8.12", ["/usr/bin/z3", f"-T:{max(1, t_full // 1000)}", "-smt2"])):
                with tempfile.NamedTemporaryFile("w", suffix=".smt2", delete=False) as f:
                    f.write(smt_full)
                    path = f.name
                try:
                    p = subprocess.run(cmd + [path], capture_output=True, text=True, timeout=t_full / 1000 + 5)
                    ans = p.stdout.strip().splitlines()[0] if p.stdout.strip() else ""
                except Exception:
                    ans = ""
                finally:
                    os.unlink(path)
                if ans == "unsat":
                    return name, "unsat", solver, time.time() - t0, "", None
        return name, "unknown", "z3-5.1", time.time() - t0, reason, None
    except Exception as e:      # noqa
        return name, "error", "z3-5.1", time.time() - t0, repr(e)[:300], None


_WORK = []        # (axioms, obligation) pairs, inherited by forked workers (z3 terms cannot be pickled)


def _solve_idx(args):
    i, t_qf, t_full, want_model, use_cli = args
    axioms, o = _WORK[i]
    try:
        qf = None if has_quant(o.goal) else to_smt2([], o.hyps, o.goal, qf_only=True)
        full = to_smt2(axioms, o.hyps, o.goal)
    except Exception as e:   # noqa
        return i, "error", "z3-5.1", 0.0, "smt2 export: " + repr(e)[:200], None
    if o.kind == "canary":
        return _solve((i, qf, full, 2000, 3000, False, False))
    if getattr(o, "short", False):
        # an obligation that is listed as an open finding: it is expected to fail; a short attempt is enough to notice
        # if it has become provable
        return _solve((i, qf, full, 3000, 8000, want_model, False))
    return _solve((i, qf, full, t_qf, t_full, want_model, use_cli))


def pmap(fn, jobs, procs, on_crash, job_timeout=None):
    """Parallel map that survives the death of a worker process (a crashing solver must not hang the check): jobs whose
    worker died are retried alone; a job that kills its worker again (or exceeds job_timeout alone) gets on_crash(job)."""
    from concurrent.futures import ProcessPoolExecutor, as_completed
    ctx = mp.get_context("fork")
    results = [None] * len(jobs)
    retry = []
    with ProcessPoolExecutor(max_workers=procs, mp_context=ctx) as ex:
        futs = {ex.submit(fn, j): i for i, j in enumerate(jobs)}
        for f in as_completed(futs):
            i = futs[f]
            try:
                results[i] = f.result()
            except BaseException:   # noqa  (BrokenProcessPool and whatever the job raised)
                retry.append(i)
    for i in retry:
        try:
            with ProcessPoolExecutor(max_workers=1, mp_context=ctx) as ex:
                results[i] = ex.submit(fn, jobs[i]).result(timeout=job_timeout)
        except BaseException:       # noqa
            results[i] = on_crash(jobs[i])
    return results


def discharge(cxs, t_qf=5000, t_full=30000, procs=None, use_cli=True, want_model=True):
    """cxs: list of FnCtx.  Sets status/solver/time on each obligation."""
    global _WORK
    _WORK = [(cx.axioms, o) for cx in cxs for o in cx.obls]
    if not _WORK:
        return
    jobs = [(i, t_qf, t_full, want_model, use_cli) for i in range(len(_WORK))]
    procs = procs or min(16, os.cpu_count() or 4, len(jobs))
    if procs <= 1 or len(jobs) == 1:
        results = [_solve_idx(j) for j in jobs]
    else:
        results = pmap(_solve_idx, jobs, procs, lambda j: (j[0], "error", "none", 0.0, "solver process died", None),
                       job_timeout=(t_qf + 5 * t_full) / 1000 + 120)
    for i, status, solver, t, reason, model in results:
        o = _WORK[i][1]
        o.status, o.solver, o.time, o.reason, o.model = status, solver, t, reason, model
    _WORK = []


def _retry_idx(args):
    """Second chance for an obligation that is known to be provable (locked) but came back `unknown`: other seeds, longer."""
    i, seeds, budget = args
    axioms, o = _WORK[i]
    t0 = time.time()
    try:
        full = to_smt2(axioms, o.hyps, o.goal)
        reason = ""
        for seed in seeds:
            z3.set_param("smt.random_seed", seed)
            s = z3.Solver()
            s.set(timeout=budget)
            s.set("random_seed", seed)
            s.from_string(full)
            r = s.check()
            if r == z3.unsat:
                return i, "unsat", f"z3-5.1(retry, seed {seed})", time.time() - t0, "", None
            if r == z3.sat:
                return i, "sat", "z3-5.1", time.time() - t0, "", _model_dict(s.model())
            reason = s.reason_unknown()
        return i, "unknown", "z3-5.1", time.time() - t0, reason, None
    except Exception as e:      # noqa
        return i, "error", "z3-5.1", time.time() - t0, repr(e)[:300], None


def retry(pairs, seeds=(11, 12, 13), budget=60000):
    """pairs: [(axioms, obligation)] that came back unknown; updates them in place."""
    global _WORK
    if not pairs:
        return
    _WORK = list(pairs)
    jobs = [(i, seeds, budget) for i in range(len(_WORK))]
    results = pmap(_retry_idx, jobs, min(16, len(jobs)), lambda j: (j[0], "error", "none", 0.0, "solver process died", None),
                   job_timeout=len(seeds) * budget / 1000 + 120)
    for i, status, solver, t, reason, model in results:
        o = _WORK[i][1]
        if status in ("unsat", "sat"):
            o.status, o.solver, o.reason, o.model = status, solver, reason, model
        o.time += t
    _WORK = []


def check_sat(axioms, hyps, timeout=5000):
    """Reachability (cover) query: is the conjunction satisfiable?"""
    s = z3.Solver()
    s.set(timeout=timeout)
    s.add(*axioms)
    s.add(*hyps)
    return str(s.check())
