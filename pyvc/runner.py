"""Per-property orchestration: obligations -> verdict, known findings, replay, evidence."""
import importlib
import json
import os
import random
import sys
import time
import traceback

import z3

from . import api, verify, smt, native, frontends, mutate as mutmod
from .values import Unsupported, AttachError

VERIF = native.VERIF
CONTRACT_MODULES = ["common", "c13", "c14", "c03", "c09", "c16", "c17", "c20", "c04", "c05", "c15", "c11", "c10",
                    "c01", "c02", "c08", "c07", "c06", "c19", "c18", "cpipe", "cwrap", "cstats", "cnames", "cdemux", "cindex", "creport"]

ASSUMPTIONS_COMMON = [
    "Python int = SMT Int; C int/ssize_t = SMT Int plus a no-overflow obligation under the stated size preconditions",
    "str/bytes = (array of character codes, length); slicing by Python's normalisation rules",
    "objects are structs copied on write (no aliasing between distinct variables except where modelled)",
    "floats: see the property's own assumption list",
    "inputs are ASCII (non-ASCII raises ValueError in the .pyx entry points and is outside the claim)",
]


def load_contracts():
    mods = {}
    for m in CONTRACT_MODULES:
        path = os.path.join(VERIF, "contracts", m + ".py")
        if os.path.exists(path):
            mods[m] = importlib.import_module("contracts." + m)
    w = verify.world()
    for m in mods.values():
        if hasattr(m, "install") and not getattr(m, "_installed", False):
            m.install(w)
            m._installed = True
    return mods


def load_known():
    path = os.path.join(VERIF, "known_findings.jsonl")
    out = []
    if os.path.exists(path):
        for line in open(path):
            line = line.strip()
            if line and not line.startswith("#"):
                out.append(json.loads(line))
    return out


def load_lock():
    path = os.path.join(VERIF, "contracts", "LOCK.json")
    if os.path.exists(path):
        return json.load(open(path))
    return {}


class Result:
    def __init__(self, pid, tier, seed):
        self.pid, self.tier, self.seed = pid, tier, seed
        self.cxs = []
        self.errors = []          # (kind, text): 'unsupported' | 'attach' | 'vacuous' | 'lock' | 'crash'
        self.violations = []      # dict(obligation, replay, note)
        self.known = []
        self.undecided = []
        self.native = []          # results of native checks
        self.finite = []
        self.mutants = []
        self.unattached = []
        self.t0 = time.time()


def gen_obligations(res, contracts, canary=True):
    for c in contracts:
        try:
            cx = verify.verify_function(c, canary=canary)
            res.cxs.append(cx)
        except AttachError as e:
            res.errors.append(("attach", f"{c.name}: {e}"))
            res.unattached.append(c)
        except Unsupported as e:
            res.errors.append(("unsupported", f"{c.name}: {e}"))
            res.unattached.append(c)        # the runtime form of the contract (if any) is searched instead
        except Exception as e:   # noqa
            res.errors.append(("crash", f"{c.name}: {e!r}\n{traceback.format_exc()[-1500:]}"))


def run_native(script, payload, timeout=3600, asan=False):
    return native.run_script(os.path.join(VERIF, "native", script), input_json=payload, timeout=timeout, asan=asan)


def write_replay(pid, name, data):
    os.makedirs(os.path.join(VERIF, "replays"), exist_ok=True)
    safe = "".join(ch if ch.isalnum() or ch in "._-" else "_" for ch in name)[:120]
    path = os.path.join(VERIF, "replays", f"{pid}-{safe}.json")
    with open(path, "w") as f:
        json.dump(data, f, indent=1, default=str)
    return path


def match_known(known, pid, key):
    for k in known:
        if k.get("property") == pid and k.get("status") == "known" and k.get("obligation") == key:
            return k
    return None


def run_property(pid, tier="quick", seed=0, relock=False, only=None, verbose=True):
    mods = load_contracts()
    res = Result(pid, tier, seed)
    contracts = [c for c in api.REGISTRY.values() if pid in c.props]
    if only:
        contracts = [c for c in contracts if c.name in only]
    lemmas = [l for l in api.LEMMAS.values() if pid in l.props]
    known = load_known()
    lock = load_lock().get(pid, {})
    mod = mods.get(pid.lower())
    log = (lambda *a: print(*a, flush=True)) if verbose else (lambda *a: None)

    # ---- 1. obligations from the real source
    t_gen = time.time()
    gen_obligations(res, contracts)
    for lem in lemmas:
        try:
            res.cxs.append(lem.build())
        except Exception as e:   # noqa
            res.errors.append(("crash", f"lemma {lem.name}: {e!r}\n{traceback.format_exc()[-1500:]}"))
    t_gen = time.time() - t_gen
    nobl = sum(len(cx.obls) for cx in res.cxs)
    log(f"[{pid}] {len(res.cxs)} functions/lemmas under contract, {nobl} obligations generated in {t_gen:.1f}s")

    # ---- 2. discharge
    t_full = 60000 if tier == "thorough" else 30000
    for cx in res.cxs:
        for o in cx.obls:
            if o.kind != "canary" and match_known(known, pid, o.kind_id) is not None:
                o.short = True
    smt.discharge(res.cxs, t_qf=8000, t_full=t_full)
    # an obligation kind that is locked (discharged on the unchanged tree) and comes back `unknown` gets a second chance
    # with other seeds and a longer budget before it is reported: slow queries are the unstable ones
    second = [(cx.axioms, o) for cx in res.cxs for o in cx.obls
              if o.kind != "canary" and o.status == "unknown" and o.kind_id in lock.get("kinds", {})
              and match_known(known, pid, o.kind_id) is None]
    if second and not relock:
        log(f"[{pid}] {len(second)} locked obligation(s) undecided after the first pass: retrying with other seeds")
        smt.retry(second)
    all_obls = [(cx, o) for cx in res.cxs for o in cx.obls]
    canaries = [(cx, o) for cx, o in all_obls if o.kind == "canary"]
    real = [(cx, o) for cx, o in all_obls if o.kind != "canary"]
    for cx in res.cxs:
        cs = [o for o in cx.obls if o.kind == "canary"]
        if cs and all(o.status == "unsat" for o in cs):
            res.errors.append(("vacuous", f"{cx.fn}: `False` is provable at every return point (contradictory hypotheses)"))
    # functions must have at least one canary (a reachable return)
    for cx in res.cxs:
        if getattr(cx, "nreturns", 1) == 0 and not getattr(cx, "is_lemma", False):
            res.errors.append(("vacuous", f"{cx.fn}: no return path was generated"))
    if nobl - len(canaries) == 0 and not res.errors:
        res.errors.append(("vacuous", "zero obligations generated"))

    # ---- 3. lock: every locked obligation kind must still be generated
    kinds_now = {}
    for cx, o in real:
        kinds_now.setdefault(o.kind_id, []).append(o)
    if relock:
        return res, kinds_now
    for kid in lock.get("kinds", {}):
        fn = kid.split(":")[0]
        if only and fn not in only:
            continue
        if kid not in kinds_now and not any(e[1].startswith(fn + ":") for e in res.errors):
            res.errors.append(("lock", f"locked obligation kind {kid} is no longer generated"))

    # ---- 4. failed obligations
    failed = [(cx, o) for cx, o in real if o.status != "unsat"]
    undecided_cx = {}
    for cx, o in failed:
        if o.status == "error":
            res.errors.append(("crash", f"{o.oid}: solver error {o.reason[:300]}"))
            continue
        k = match_known(known, pid, o.kind_id)
        if k is not None:
            res.known.append((k, o))
            continue
        locked = o.kind_id in lock.get("kinds", {})
        if o.status == "sat" or locked:
            res.violations.append({"cx": cx, "o": o})
        else:
            res.undecided.append(o)
            undecided_cx.setdefault(cx.fn, (cx, o))

    # ---- 4a. an undecided obligation of a function that has a runtime form of its contract: search for an input on
    # which the real function breaks that contract.  A found input is a violation (it replays on the real code);
    # nothing found leaves the obligation undecided.
    for fn, (cx, o) in undecided_cx.items():
        rt = getattr(cx.c, "runtime", None) if hasattr(cx, "c") else None
        if rt is None:
            continue
        r = run_native("runtime_check.py", {"module": rt["module"], "name": rt["name"], "seed": seed,
                                            "count": rt.get("replay_count", 20000), "time_s": 60, "max_failures": 400}, timeout=900,
                       asan=rt.get("asan", False))
        js = r["json"] or {}
        # failures of a class that the stand-in lists as a known finding are not new violations
        js["failures"] = [f for f in js.get("failures", []) if not all(":KNOWN:" in x for x in f.get("failed", ["x"]))]
        if js.get("failures"):
            path = write_replay(pid, o.oid, {"property": pid, "obligation": o.oid, "answer": o.status, "reason": o.reason,
                                             "why": "the obligation could not be decided by the solvers; the runtime form "
                                                    "of the same contract fails on the real function for this input",
                                             "failing_input": js["failures"][0], "all": js["failures"][:10]})
            res.violations.append({"replay": path})
            res.undecided = [u for u in res.undecided if u.fn != fn]

    # ---- 4b. contracts that could not be attached: search with the runtime form of the contract
    for c in res.unattached:
        rt = getattr(c, "runtime", None)
        if rt is None:
            continue
        r = run_native("runtime_check.py", {"module": rt["module"], "name": rt["name"], "seed": seed, "count": 30000,
                                            "time_s": 60, "max_failures": 400}, timeout=600)
        js = r["json"] or {}
        js["failures"] = [f for f in js.get("failures", []) if not all(":KNOWN:" in x for x in f.get("failed", ["x"]))]
        entry = {"name": f"runtime contract of {c.name} (contract could not be attached)", "bounded": True,
                 "cases": js.get("cases", 0), "distinct_nontrivial": js.get("distinct_nontrivial", 0),
                 "bounds": js.get("bounds", ""), "failures": js.get("failures", [])}
        res.native.append(entry)
        if js.get("failures"):
            path = write_replay(pid, f"unattached.{c.name}", {"property": pid, "obligation": f"{c.name}:runtime-contract",
                                                              "why": "the static contract no longer attaches to the code; its runtime form fails",
                                                              "failing_input": js["failures"][0], "all": js["failures"]})
            res.violations.append({"replay": path})

    if not only:
        replay_known_witnesses(res, pid, known)

    # ---- 5. finite / native parts supplied by the property module
    if mod is not None and hasattr(mod, "extra_checks") and not only:
        try:
            mod.extra_checks(res, tier, seed, known, log)
        except Exception as e:   # noqa
            res.errors.append(("crash", f"extra_checks: {e!r}\n{traceback.format_exc()[-2000:]}"))

    # ---- 6. mutation self-test (thorough)
    if tier == "thorough" and not only:
        mutmod.self_test(res, contracts, log)
    return res, kinds_now


GRID_PROPS = ("C03", "C04", "C05", "C06", "C10", "C11", "C15", "C19")
_GRID_CACHE = {}


def grid_search(pid, seed):
    """Failing command lines for this property from the command-line grid (run once per check run)."""
    key = (pid, seed)
    if key not in _GRID_CACHE:
        r = run_native("cli_grid.py", {"seed": seed + 1000, "count": 120, "props": [pid]}, timeout=3000)
        _GRID_CACHE[key] = r["json"] or {}
    return [f for f in _GRID_CACHE[key].get("failures", []) if f.get("property") == pid]


# property -> (module, name, label prefix) of the runtime contract used when a failed obligation's own function has none
PROP_RUNTIME = {"C01": ("c01", "match_to", "C01:"), "C02": ("c01", "match_to", "C02:"), "C08": ("c08", "index", None),
                "C09": ("cmods", "best_match", None), "C13": ("c13", "modifiers", None), "C16": ("cmods", "revcomp", "C16:"),
                "C20": ("cmods", "revcomp", "C20:"), "C17": ("c17", "get_info_records", None)}
_PRT_CACHE = {}


def prop_runtime_search(pid, seed):
    key = (pid, seed)
    if key not in _PRT_CACHE:
        m, n, prefix = PROP_RUNTIME[pid]
        r = run_native("runtime_check.py", {"module": m, "name": n, "seed": seed + 77, "count": 30000, "time_s": 90, "prefix": prefix, "max_failures": 400}, timeout=900)
        js = r["json"] or {}
        js["failures"] = [f for f in js.get("failures", []) if not all(":KNOWN:" in x for x in f.get("failed", ["x"]))]
        _PRT_CACHE[key] = js
    return _PRT_CACHE[key]


def replay_violation(pid, v, mod, seed):
    """Try to turn a failed obligation into a failing native input."""
    o = v["o"]
    cx = v["cx"]
    data = {"property": pid, "obligation": o.oid, "kind": o.kind, "function": cx.fn, "line": o.line,
            "solver": o.solver, "answer": o.status, "reason": o.reason, "model": o.model,
            "goal": str(o.goal)[:2000]}
    found = None
    c = cx.c if hasattr(cx, "c") else None
    rt = getattr(c, "runtime", None) if c is not None else None
    if rt is not None:
        payload = {"module": rt["module"], "name": rt["name"], "seed": seed, "count": rt.get("replay_count", 20000),
                   "model": o.model, "max_failures": 400}
        r = run_native("runtime_check.py", payload, timeout=900, asan=rt.get("asan", False))
        if r["json"]:
            # failures of a class that is listed as a known finding are not what this obligation is about
            r["json"]["failures"] = [f for f in r["json"].get("failures", []) if not all(":KNOWN:" in x for x in f.get("failed", ["x"]))][:5]
        data["native_search"] = {"returncode": r["returncode"], "result": r["json"], "stderr": r["stderr"][-1500:]}
        if r["json"] and r["json"].get("failures"):
            found = r["json"]["failures"][0]
            data["failing_input"] = found
    if found is None and pid in PROP_RUNTIME:
        # no runtime form of this function's own contract gave an input: search with the property-level runtime contract
        # (the bounded stand-in of the property); an input found this way breaks the property on the real code, though not
        # necessarily through this obligation
        mine = prop_runtime_search(pid, seed)
        data["property_level_search"] = {"runtime_contract": list(PROP_RUNTIME[pid]), "cases": mine.get("cases"), "failures": mine.get("failures", [])[:3]}
        if mine.get("failures"):
            found = mine["failures"][0]
            data["failing_input"] = found
    if found is None and pid in GRID_PROPS:
        # no runtime form of this contract gave an input: look for a failing command line with this property's oracles
        mine = grid_search(pid, seed)
        data["grid_search"] = {"cases": _GRID_CACHE[(pid, seed)].get("cases"), "failures": mine[:3]}
        if mine:
            found = mine[0]
            data["failing_input"] = found
    path = write_replay(pid, o.oid, data)
    return path, found


def finish(pid, tier, seed, res, kinds_now, level_claimed, assumptions, bounded_desc=None):
    """Print verdict lines, write evidence, return exit status."""
    mods = load_contracts()
    mod = mods.get(pid.lower())
    exit_code = 0
    real = [(cx, o) for cx in res.cxs for o in cx.obls if o.kind != "canary"]
    n_obl = len(real)
    n_dis = sum(1 for _, o in real if o.status == "unsat")
    by_solver = {}
    for _, o in real:
        if o.status == "unsat":
            by_solver[o.solver] = by_solver.get(o.solver, 0) + 1
    solver_time = sum(o.time for _, o in real)
    for kind, text in res.errors:
        print(f"CHECKER-ERROR[{kind}]: {text}")
    printed = set()
    for k, o in res.known:
        key = (k.get("obligation"), k.get("what"))
        if key not in printed:
            printed.add(key)
            print(f"KNOWN-FINDING: property={pid} {k.get('what')}")
    nviol = 0
    for v in res.violations:
        if "o" in v:
            path, found = replay_violation(pid, v, mod, seed)
            tail = "" if found else " no-failing-input-found"
            print(f"  failed obligation {v['o'].oid} ({v['o'].status}, {v['o'].solver}, {v['o'].time:.1f}s)")
            print(f"VIOLATION property={pid} replay={path}{tail}")
        else:
            print(f"VIOLATION property={pid} replay={v['replay']}" + (" no-failing-input-found" if v.get("nofail") else ""))
        nviol += 1
    for o in res.undecided:
        print(f"UNDECIDED: {o.oid} ({o.status}: {o.reason})")
    if nviol:
        exit_code = 1
    elif any(k in ("unsupported", "vacuous", "lock", "crash") for k, _ in res.errors):
        exit_code = 3
    elif res.undecided or any(k == "attach" for k, _ in res.errors):
        exit_code = 2

    bounded = [n for n in res.native if n.get("bounded")]
    open_known = bool(res.known) or any(n.get("known_hits") for n in res.native)
    level = level_claimed
    if level == "proof" and (n_dis != n_obl or bounded or open_known):
        level = "other"
    samples = []
    for cx, o in real[:: max(1, len(real) // 6)][:6]:
        samples.append({"obligation": o.oid, "kind": o.kind, "status": o.status, "solver": o.solver,
                        "time_s": round(o.time, 3), "hyps": len(o.hyps), "goal": str(o.goal)[:300]})
    functions = []
    trusted = set()
    dropped = []
    for cx in res.cxs:
        ex = getattr(cx, "ex", None)
        functions.append({"function": cx.fn, "file": getattr(ex, "file", None),
                          "sha256": getattr(ex, "sha256", None),
                          "obligations": sum(1 for o in cx.obls if o.kind != "canary"),
                          "discharged": sum(1 for o in cx.obls if o.kind != "canary" and o.status == "unsat"),
                          "inlined_callees": sorted(getattr(cx, "inlined", [])),
                          "callee_contracts_used": sorted(getattr(cx, "used_contracts", [])),
                          "lemmas_used": sorted(getattr(cx, "used_lemmas", []))})
        for t in getattr(cx, "trusted", []):
            trusted.add(t)
        if ex is not None and ex.dropped:
            dropped.append({"function": cx.fn, "dropped": sorted({d[1] for d in ex.dropped})})
    if mod is not None:
        for t in getattr(mod, "TRUSTED", []):
            trusted.add(t)
    # the assumptions of every contract module that contributes a function under contract or a callee contract
    import sys as _sys
    used_modules = set()
    for cx in res.cxs:
        c_ = getattr(cx, "c", None)
        if c_ is not None and getattr(c_, "module", None):
            used_modules.add(c_.module)
        for nm in getattr(cx, "used_contracts", []):
            cc = api.BY_NAME.get(nm) or next((x for x in api.REGISTRY.values() if x.name == nm), None)
            if cc is not None and getattr(cc, "module", None):
                used_modules.add(cc.module)
    for mn in sorted(used_modules):
        m_ = _sys.modules.get(mn)
        tr = getattr(m_, "TRUSTED", []) if m_ is not None else []
        for t in (tr.values() if isinstance(tr, dict) else tr):
            trusted.add(t)
    common = mods.get("common")
    for t in getattr(common, "TRUSTED", {}).values():
        trusted.add(t)
    coverage = {
        "obligations": n_obl, "discharged": n_dis,
        "checker_cmd": f"./check {pid} --tier {tier}",
        "trusted_base": sorted(trusted),
        "explanation": (f"{n_dis}/{n_obl} verification conditions generated from the current /repo source were discharged "
                        f"(back ends: {by_solver}); return-point canaries refuted (reachable returns): {sum(1 for cx in res.cxs for o in cx.obls if o.kind == 'canary' and o.status != 'unsat')}; "
                        + (f"bounded stand-ins (never counted as proved): {[n['name'] for n in bounded]}; " if bounded else "")
                        + (f"open known findings: {len(res.known)}; " if res.known else "")),
        "functions_under_contract": functions,
        "by_backend": by_solver, "solver_time_s": round(solver_time, 2),
        "slowest": sorted([(round(o.time, 2), o.oid) for _, o in real], reverse=True)[:5],
        "samples": samples,
        "dropped_by_extraction": dropped,
        "known_failing": [{"obligation": o.oid, "what": k.get("what")} for k, o in res.known],
        "undecided": [o.oid for o in res.undecided],
        "bounded": [{k: v for k, v in n.items() if k != "failures"} for n in res.native],
        "finite_exhaustive": res.finite,
        "mutation_self_test": res.mutants,
        "checker_errors": [f"{k}: {t}" for k, t in res.errors],
        "obligation_kinds": len(kinds_now),
    }
    ev = {"property_id": pid, "tier": tier, "seed": seed, "level": level, "coverage": coverage,
          "assumptions": ASSUMPTIONS_COMMON + list(assumptions), "wall_s": round(time.time() - res.t0, 2),
          "violations": nviol}
    from .frontends import REPO as _REPO
    # a run against a scratch copy of the repository (VERIF_REPO, used for the seeded changes) does not replace the
    # evidence of the real tree
    ev_dir = os.path.join(VERIF, "evidence") if os.path.realpath(_REPO) == "/repo" else os.path.join(VERIF, ".cache", "evidence_scratch")
    os.makedirs(ev_dir, exist_ok=True)
    with open(os.path.join(ev_dir, f"{pid}.json"), "w") as f:
        json.dump(ev, f, indent=1, default=str)
    print(f"[{pid}] {n_dis}/{n_obl} obligations discharged, solver time {solver_time:.1f}s, level={level}, "
          f"violations={nviol}, known={len(res.known)}, exit={exit_code}, wall={time.time() - res.t0:.1f}s")
    return exit_code


def replay_known_witnesses(res, pid, known):
    """Every listed (open) finding that carries a native witness is replayed on the current tree: it is reported
    as KNOWN-FINDING only while the witness still fails."""
    for k in known:
        if k.get("property") != pid or k.get("status") != "known" or not k.get("witness"):
            continue
        w = k["witness"]
        r = native.run_script(os.path.join(VERIF, "native", "runtime_check.py"), input_json={
            "module": w["module"], "name": w["name"], "seed": 0, "count": 0, "inputs": [w["input"]], "prefix": w.get("prefix")},
            timeout=300)
        js = r["json"] or {}
        if js.get("failures"):
            class _O:
                oid = k["obligation"]
            if not any(kk is k for kk, _ in res.known):
                res.known.append((k, _O()))


def cli_grid(res, pid, tier, seed, known, quick=24, thorough=200, kinds=None):
    """Shared bounded stand-in at the command-line level (native/cli_grid.py); only failures tagged with
    this property are reported.  Never counted as proved."""
    r = run_native("cli_grid.py", {"seed": seed, "count": quick if tier == "quick" else thorough, "props": kinds or [pid]},
                   timeout=3000)
    js = r["json"]
    if js is None:
        res.errors.append(("crash", "cli_grid.py: " + r["stderr"][-800:]))
        return
    mine = [f for f in js["failures"] if f["property"] == pid]
    res.native.append({"name": f"command-line grid for {pid} (oracles from the statement)", "bounded": True, "cases": js["cases"],
                       "distinct_nontrivial": js["distinct_nontrivial"], "bounds": js["bounds"], "failures": mine[:5],
                       "samples": js["samples"][:2]})
    if mine:
        path = write_replay(pid, "cli_grid", {"property": pid, "obligation": "bounded:cli_grid", "failing_input": mine[0], "all": mine[:5]})
        res.violations.append({"replay": path})


def asan_failure(r):
    """An AddressSanitizer abort of a native helper: returns the failing case (last logged input) or None."""
    if r["returncode"] != 0 and "AddressSanitizer" in r["stderr"]:
        full = r["stderr"]
        case = None
        for line in full.splitlines():
            if line.startswith("CASE "):
                case = line[5:]
        summary = [l for l in full.splitlines() if "ERROR: AddressSanitizer" in l or l.startswith("SUMMARY")]
        return {"input": json.loads(case) if case else None, "failed": ["AddressSanitizer: " + "; ".join(summary)[:400]],
                "observed": "memory error in the native extension"}
    return None


def runtime_standin(res, pid, module, name, seed, count, time_s, prefix=None, label=None, classify=None, known=None, crosscheck=False, asan=False,
                    exhaustive=False, tier="quick"):
    """Bounded stand-in: the runtime form of a contract on seeded random inputs (never counted as proved).
    `classify(failure) -> known-finding obligation key or None` separates listed findings from new violations."""
    r = native.run_script(os.path.join(VERIF, "native", "runtime_check.py"), input_json={
        "module": module, "name": name, "seed": seed, "count": count, "time_s": time_s, "prefix": prefix, "log_cases": asan,
        "max_failures": (100000 if exhaustive else 300) if classify else 5, "exhaustive": exhaustive, "tier": tier},
        timeout=time_s + 600, asan=asan)
    if asan and len(r["stderr"]) >= 3900:
        pass
    js = r["json"]
    af = asan_failure(r) if asan else None
    if af is not None:
        js = {"cases": 0, "distinct_nontrivial": 0, "failures": [af], "samples": [], "bounds": "(aborted by AddressSanitizer)"}
    if js is None:
        res.errors.append(("crash", f"runtime_check {module}.{name}: " + r["stderr"][-800:]))
        return
    fails = js["failures"]
    new = []
    hits = {}
    for f in fails:
        key = classify(f) if classify else None
        k = match_known(known or [], pid, key) if key else None
        if k is not None:
            hits.setdefault(key, (k, f))
        else:
            new.append(f)
    res.native.append({"name": label or f"runtime contract {module}.{name}", "bounded": not crosscheck, "crosscheck_only": crosscheck, "cases": js["cases"],
                       "distinct_nontrivial": js["distinct_nontrivial"], "bounds": js["bounds"], "known_hits": len(fails) - len(new),
                       "failures": new[:5], "samples": js["samples"][:2]})
    for key, (k, f) in hits.items():
        class _O:
            oid = key
        res.known.append((k, _O()))
    if new:
        path = write_replay(pid, f"runtime.{name}", {"property": pid, "obligation": f"bounded:{module}.{name}", "failing_input": new[0], "all": new[:5]})
        res.violations.append({"replay": path})
