"""Statement execution: path splitting, merging, loops cut by invariants."""
import ast
import z3

from .values import *  # noqa
from .state import St, CArr
from .engine import Exec, zint, INT_CTYPES, UNSIGNED_CTYPES
from . import api


MUTATORS = {"append", "extend", "pop", "add", "update", "remove", "clear", "insert", "setdefault", "popitem", "discard",
            "write", "add_match", "sort", "reverse"}


def assigned_paths(stmts):
    """name -> None (whole variable may change) or set of top-level fields that may change."""
    out = {}

    def add(name, field):
        if field is None:
            out[name] = None
        elif name not in out:
            out[name] = {field}
        elif out[name] is not None:
            out[name].add(field)

    for s in stmts:
        for n in ast.walk(s):
            targets = []
            if isinstance(n, ast.Assign):
                targets = n.targets
            elif isinstance(n, (ast.AugAssign, ast.AnnAssign)):
                targets = [n.target]
            elif isinstance(n, (ast.For, ast.comprehension)):
                targets = [n.target]
            elif isinstance(n, ast.With):
                targets = [i.optional_vars for i in n.items if i.optional_vars is not None]
            elif isinstance(n, ast.Delete):
                targets = list(n.targets)
            elif isinstance(n, ast.Expr) and isinstance(n.value, ast.Call) and isinstance(n.value.func, ast.Attribute):
                # method call on a name may mutate it (append, add_match ...)
                targets = [n.value.func.value]
            elif isinstance(n, ast.Call) and isinstance(n.func, ast.Attribute) and n.func.attr in MUTATORS:
                targets = [n.func.value]
            elif isinstance(n, ast.Expr) and isinstance(n.value, ast.Call) and isinstance(n.value.func, ast.Name) \
                    and n.value.func.id == "print":
                add("$nprinted", None)
            if isinstance(n, ast.Call) and isinstance(n.func, ast.Attribute) and n.func.attr in ("write", "__call__") or \
                    isinstance(n, ast.Call) and isinstance(n.func, ast.Name) and n.func.id in ("step", "__ginc__"):
                for g_ in ("$nwrites", "$w_writer", "$w_rec1", "$w_rec2", "$nfiltered", "$nstat", "$ncalls", "$nconsumed", "$c_step", "$c_obj",
                           "$c_in", "$c_in2", "$c_none", "$c_out", "$c_out2", "$chain_start"):
                    add(g_, None)
            if isinstance(n, ast.Call) and isinstance(n.func, ast.Attribute) and n.func.attr == "add_match":
                add("$tally", None)
                add("$tally_key", None)
            if isinstance(n, ast.AugAssign) and isinstance(n.target, ast.Attribute) and n.target.attr == "reverse_complemented":
                add("$rc_total", None)
            for t in targets:
                stack = [t]
                while stack:
                    x = stack.pop()
                    if isinstance(x, (ast.Tuple, ast.List)):
                        stack.extend(x.elts)
                        continue
                    chain = []
                    while isinstance(x, (ast.Attribute, ast.Subscript)):
                        chain.append(x.attr if isinstance(x, ast.Attribute) else None)
                        x = x.value
                    if isinstance(x, ast.Name):
                        first = chain[-1] if chain else None
                        add(x.id, first)
    return out


def assigned_names(stmts):
    return set(assigned_paths(stmts))


class Outcome:
    __slots__ = ("kind", "st", "val")

    def __init__(self, kind, st, val=None):
        self.kind, self.st, self.val = kind, st, val


class ExecS(Exec):
    # ------------------------------------------------------------------ merging
    def merge_states(self, mark, states):
        """Merge states that extend a common state (mark = its (len(pc), len(dec)))."""
        if len(states) == 1:
            return states[0]
        mpc, mdec = mark
        # facts and decisions shared by all states beyond the mark stay unguarded (keeps merged formulas small)
        while all(len(s.pc) > mpc for s in states):
            f0 = states[0].pc[mpc]
            if not all(s.pc[mpc].get_id() == f0.get_id() for s in states[1:]):
                break
            if all(len(s.dec) > mdec and s.dec[mdec].get_id() == f0.get_id() for s in states):
                mdec += 1
            mpc += 1
        base = states[0].pc[:mpc]
        guards = []
        facts = []
        for s in states:
            ds = s.dec[mdec:]
            g = z3.And(*ds) if len(ds) > 1 else (ds[0] if ds else z3.BoolVal(True))
            guards.append(g)
            dids = {d.get_id() for d in ds}
            for f in s.pc[mpc:]:
                if f.get_id() in dids:
                    continue
                facts.append(f if not ds else z3.Implies(g, f))
        out = St({}, base + [z3.Or(*guards)] + facts, states[0].dec[:mdec])
        memo = {}
        keys = set()
        for s in states:
            keys |= set(s.env)
        for k in keys:
            vals = [s.env.get(k, _MISSING) for s in states]
            present = [v for v in vals if v is not _MISSING]
            if len(present) < len(vals) and k.startswith("$"):
                raise Unsupported(f"ghost variable {k} undefined on some path")
            if len(present) < len(vals):
                # defined on some paths only: usable afterwards only if all defining paths agree on the very
                # same value; otherwise the name is dropped (a later use is reported as unsupported)
                if all(v is present[0] for v in present):
                    out.env[k] = present[0]
                continue
            mk_ = tuple(id(v) for v in vals)
            if mk_ in memo:
                out.env[k] = memo[mk_]
                continue
            acc = vals[-1]
            try:
                for g, v in zip(reversed(guards[:-1]), reversed(vals[:-1])):
                    acc = merge_val(g, v, acc, k)
            except Unsupported:
                if k.startswith("$") or k == "__yielded__":
                    raise
                # values of unrelated shapes on different paths: the variable is dropped after the join; a later
                # use of it is reported as an unknown name (unsupported), never silently mis-modelled
                continue
            out.env[k] = acc
            memo[mk_] = acc
        return out

    # ------------------------------------------------------------------ blocks
    def ex_block(self, stmts, st):
        """Returns a list of Outcome; at most one of kind 'normal' (merged) - unless the contract asks for path
        splitting (`split_paths`): then the branches of an if are not merged and every path continues on its own
        (more, but simpler obligations)."""
        if getattr(self.cx.c, "split_paths", False) and self.cx.depth == 0:
            lives, out = [st], []
            for s in stmts:
                nxt = []
                for lv in lives:
                    res = self.ex_stmt(s, lv)
                    nxt += [o.st for o in res if o.kind == "normal"]
                    out += [o for o in res if o.kind != "normal"]
                lives = nxt
                if not lives:
                    break
            return out + [Outcome("normal", lv) for lv in lives]
        base = st.mark()
        live = st
        out = []
        for s in stmts:
            if live is None:
                break
            res = self.ex_stmt(s, live)
            normals = [o.st for o in res if o.kind == "normal"]
            out += [o for o in res if o.kind != "normal"]
            live = self.merge_states(base, normals) if normals else None
        if live is not None:
            out.append(Outcome("normal", live))
        return out

    def split_pending(self, st, node):
        """Turn exceptions registered by calls inside the statement into raise outcomes."""
        outs = []
        pend, self.cx.pending = self.cx.pending, []
        for cond, exc in pend:
            r = st.copy()
            r.decide(cond)
            outs.append(Outcome("raise", r, exc))
            st.decide(z3.Not(cond))
        return outs

    # ------------------------------------------------------------------ assignment
    def assign(self, target, v, st, node):
        if isinstance(target, ast.Name):
            ct = self.cx.ex.ctypes.get((self.cx.ex.qualname, target.id)) if self.cx.ex.ctypes else None
            if ct in INT_CTYPES and self.cx.c.c_int_bits and is_z3(v) and z3.is_int(v):
                bits = INT_CTYPES[ct]
                self.oblige(f"c_int_range.{target.id}", "overflow", st,
                            z3.And(-(2 ** (bits - 1)) <= v, v < 2 ** (bits - 1)), node)
            if ct in UNSIGNED_CTYPES and self.cx.c.c_int_bits and is_z3(v) and z3.is_int(v) and self.cx.depth == 0:
                self.oblige(f"c_uint_range.{target.id}", "overflow", st,
                            z3.And(0 <= v, v < 2 ** UNSIGNED_CTYPES[ct]), node)
            if ct in ("double", "float") and is_z3(v) and z3.is_int(v):
                v = z3.ToReal(v)
            lt = self.cx.c.local_types.get(target.id) if self.cx.depth == 0 else None
            if lt is not None and isinstance(v, ListV) and isinstance(lt, api.SeqT):
                from . import heap
                v = heap.seq_from_list(v, lt.elem, st)
            st.env[target.id] = v
        elif isinstance(target, (ast.Tuple, ast.List)):
            if isinstance(v, Opt):
                v = self.need_not_none(v, st, node, "unpacking")
            if isinstance(v, TupV):
                items = v.items
            elif isinstance(v, ListV) and all(z3.is_true(g) for g, _ in v.items):
                items = [i for _, i in v.items]
            else:
                raise Unsupported(f"unpacking of {v!r} at line {getattr(node, 'lineno', '?')}")
            if len(items) != len(target.elts):
                raise Unsupported("unpacking arity mismatch")
            for t, x in zip(target.elts, items):
                self.assign(t, x, st, node)
        elif isinstance(target, ast.Attribute) and isinstance(target.value, ast.Subscript) and \
                isinstance(self.ev(target.value.value, st, spec=True), CArr) and \
                isinstance(self.ev(target.value.value, st, spec=True).arr, dict):
            # column[i].field = v : store into that field's array only
            arrv = self.ev(target.value.value, st)
            idx = self.ev(target.value.slice, st)
            i = arrv.off + zint(idx)
            self.oblige(f"bounds.{arrv.name}", "bounds", st, z3.And(0 <= i, i < arrv.n), node)
            arr = dict(arrv.arr)
            arr[target.attr] = z3.Store(arr[target.attr], i, zint(v))
            self.store_carr(target.value.value, CArr(arr, arrv.n, arrv.off, arrv.name), st, node)
        elif isinstance(target, ast.Attribute):
            base = self.ev(target.value, st)
            if isinstance(base, Opt):
                base = self.need_not_none(base, st, node)
            if not isinstance(base, ObjV):
                raise Unsupported(f"attribute assignment on {base!r}")
            h = self.world.setattr_handler(base.cls, target.attr)
            nb = h(self, st, base, v, node) if h is not None else base.with_field(target.attr, v)
            # aliases: other variables bound to the very same object see the update
            for k_, v_ in list(st.env.items()):
                if v_ is base:
                    st.env[k_] = nb
            self.assign(target.value, nb, st, node)
        elif isinstance(target, ast.Subscript):
            base = self.ev(target.value, st)
            idx = self.ev(target.slice, st)
            if isinstance(base, CArr):
                i = base.off + zint(idx)
                self.oblige(f"bounds.{base.name}", "bounds", st,
                            z3.And(0 <= i, i < base.n), node)
                if isinstance(base.arr, dict):
                    if not (isinstance(v, ObjV) and v.cls == "__struct__"):
                        raise Unsupported("struct array store of non-struct")
                    arr = {f: z3.Store(a, i, v.fields[f]) for f, a in base.arr.items()}
                else:
                    arr = z3.Store(base.arr, i, zint(v))
                nb = CArr(arr, base.n, base.off, base.name)
                self.store_carr(target.value, nb, st, node)
            elif isinstance(base, MapV):
                self.assign(target.value, MapV(z3.Store(base.arr, zint(idx), v.arr if isinstance(v, MapV) else zint(v))), st, node)
            elif isinstance(base, DictIntV):
                k_ = zint(idx)
                self.assign(target.value, DictIntV(z3.Store(base.has, k_, z3.BoolVal(True)), z3.Store(base.val, k_, zint(v))), st, node)
            elif isinstance(base, ObjV):
                h = self.world.method_handler(base.cls, "__setitem__")
                if h is None:
                    raise Unsupported(f"item assignment on {base.cls}")
                self.assign(target.value, h(self, st, base, idx, v, node), st, node)
            elif isinstance(base, ListV):
                i = z3.simplify(zint(idx))
                if not z3.is_int_value(i) or not all(z3.is_true(z3.simplify(g)) for g, _ in base.items):
                    raise Unsupported("item assignment on a list with symbolic index/shape")
                items = list(base.items)
                items[i.as_long()] = (z3.BoolVal(True), v)
                self.assign(target.value, ListV(items), st, node)
            elif isinstance(base, SeqV):
                i = zint(idx)
                self.oblige(f"index", "index", st, z3.And(0 <= i, i < base.n), node)
                if isinstance(base.elem, api.ObjT):
                    from . import heap
                    oid = v.fields.get("__id__") if isinstance(v, ObjV) else None
                    if oid is None:
                        oid = fresh("id.upd", I)
                    out = []
                    heap.facts(base.elem, base.elem.cls, "", oid, v, out)
                    st.pc += out
                    v = oid
                self.assign(target.value, SeqV(z3.Store(base.arr, i, zint(v)), base.n, base.elem), st, node)
            else:
                raise Unsupported(f"item assignment on {base!r}")
        else:
            raise Unsupported(f"assignment target {type(target).__name__}")

    def store_carr(self, target, nb, st, node):
        """All aliases of the same C array (pointer copies with offsets) see the store."""
        if isinstance(target, ast.Name):
            old = st.env.get(target.id)
            for k, v in list(st.env.items()):
                if isinstance(v, CArr) and v.name == nb.name:
                    st.env[k] = CArr(nb.arr, v.n, v.off, v.name)
            st.env[target.id] = nb
            # struct fields of self holding the same array
            for k, v in list(st.env.items()):
                if isinstance(v, ObjV):
                    changed = {f: CArr(nb.arr, x.n, x.off, x.name) for f, x in v.fields.items()
                               if isinstance(x, CArr) and x.name == nb.name}
                    if changed:
                        f2 = dict(v.fields)
                        f2.update(changed)
                        st.env[k] = ObjV(v.cls, f2)
        else:
            self.assign(target, nb, st, node)
            if isinstance(target, ast.Attribute):
                for k, v in list(st.env.items()):
                    if isinstance(v, CArr) and v.name == nb.name:
                        st.env[k] = CArr(nb.arr, v.n, v.off, v.name)

    # ------------------------------------------------------------------ statements
    def ex_stmt(self, s, st):
        m = getattr(self, "s_" + type(s).__name__, None)
        if m is None:
            raise Unsupported(f"statement {type(s).__name__} at line {getattr(s, 'lineno', '?')} in {self.cx.fn}")
        if getattr(s, "_ghost", False):
            return self.ex_ghost(s, st)
        return m(s, st)

    def s_Pass(self, s, st):
        return [Outcome("normal", st)]

    s_Global = s_Nonlocal = s_Import = s_ImportFrom = s_Pass

    def s_Expr(self, s, st):
        if isinstance(s.value, ast.Constant):
            return [Outcome("normal", st)]
        st = st.copy()
        if isinstance(s.value, (ast.Yield, ast.YieldFrom)):
            return self.do_yield(s.value, st)
        self.ev(s.value, st)
        outs = self.split_pending(st, s)
        return outs + [Outcome("normal", st)]

    def do_yield(self, y, st):
        cur = st.env.get("__yielded__", ListV())
        if isinstance(cur, ObjV):
            # opaque (inside / after a loop cut by an invariant)
            self.ev(y.value, st) if y.value is not None else None
            return self.split_pending(st, y) + [Outcome("normal", st)]
        if isinstance(y, ast.Yield):
            v = self.ev(y.value, st) if y.value is not None else None
            outs = self.split_pending(st, y)
            st.env["__yielded__"] = ListV(cur.items + ((z3.BoolVal(True), v),))
        else:
            v = self.ev(y.value, st)
            outs = self.split_pending(st, y)
            if not isinstance(v, ListV):
                raise Unsupported("yield from a non-list value")
            st.env["__yielded__"] = ListV(cur.items + v.items)
        return outs + [Outcome("normal", st)]

    def s_Assign(self, s, st):
        st = st.copy()
        v = self.ev(s.value, st)
        outs = self.split_pending(st, s)
        for t in s.targets:
            self.assign(t, v, st, s)
        return outs + [Outcome("normal", st)]

    def s_AnnAssign(self, s, st):
        if s.value is None:
            return [Outcome("normal", st)]
        st = st.copy()
        v = self.ev(s.value, st)
        outs = self.split_pending(st, s)
        self.assign(s.target, v, st, s)
        return outs + [Outcome("normal", st)]

    def s_AugAssign(self, s, st):
        st = st.copy()
        load = ast.parse(ast.unparse(s.target), mode="eval").body
        ast.copy_location(load, s)
        for x in ast.walk(load):
            ast.copy_location(x, s)
        cur = self.ev(load, st)
        rhs = self.ev(s.value, st)
        if isinstance(s.op, ast.Add) and isinstance(rhs, ObjV) and (rhs.cls, "__concat__") in self.world.handlers:
            v = self.world.handlers[(rhs.cls, "__concat__")](self, st, cur, rhs, s)
        elif isinstance(cur, ListV) and isinstance(s.op, ast.Add):
            v = ListV(cur.items + (rhs.items if isinstance(rhs, ListV) else tuple((z3.BoolVal(True), i) for i in rhs.items)))
        elif isinstance(cur, ObjV) and isinstance(s.op, ast.Add) and cur.cls not in ("__kwdict__",):
            # x += y on an object: x = x.__iadd__(y)
            from .calls import _call_method
            res_, new_ = _call_method(self, cur, "__iadd__", [rhs], {}, st, s, False)
            v = res_ if res_ is not None else (new_ if new_ is not None else cur)
        else:
            v = self.arith(s.op, cur, rhs, st, s, False)
        outs = self.split_pending(st, s)
        self.assign(s.target, v, st, s)
        return outs + [Outcome("normal", st)]

    def s_If(self, s, st):
        st = st.copy()
        c = boolify(self.ev(s.test, st))
        outs = self.split_pending(st, s)
        sc = z3.simplify(c)
        if z3.is_true(sc):
            return outs + self.ex_block(s.body, st)
        if z3.is_false(sc):
            return outs + self.ex_block(s.orelse, st)
        base = st.mark()
        a = st.copy()
        a.decide(c)
        r1 = self.branch_or_dead(s.body, a)
        bb = st.copy()
        bb.decide(z3.Not(c))
        r2 = self.branch_or_dead(s.orelse, bb)
        normals = [o.st for o in r1 + r2 if o.kind == "normal"]
        outs += [o for o in r1 + r2 if o.kind != "normal"]
        if normals and getattr(self.cx.c, "split_paths", False) and self.cx.depth == 0:
            return outs + [Outcome("normal", n_) for n_ in normals]
        if normals:
            outs.append(Outcome("normal", self.merge_states(base, normals)))
        return outs

    def branch_or_dead(self, stmts, st):
        """A branch that uses something outside the encoding is skipped only if it is dead code under the path condition
        (e.g. debugging output behind a flag that the contract's precondition switches off)."""
        nobl = len(self.cx.obls)
        try:
            return self.ex_block(stmts, st)
        except Unsupported:
            if self.feasible(st, z3.BoolVal(True), timeout=2000):
                raise
            del self.cx.obls[nobl:]
            return []

    def s_Break(self, s, st):
        return [Outcome("break", st)]

    def s_Continue(self, s, st):
        return [Outcome("continue", st)]

    def s_Return(self, s, st):
        st = st.copy()
        v = self.ev(s.value, st) if s.value is not None else None
        outs = self.split_pending(st, s)
        return outs + [Outcome("return", st, v)]

    def s_Raise(self, s, st):
        st = st.copy()
        if s.exc is None:
            return [Outcome("raise", st, st.env.get("__current_exc__", "Exception"))]
        e = s.exc
        name = None
        if isinstance(e, ast.Call):
            e = e.func
        if isinstance(e, ast.Name):
            name = e.id
        elif isinstance(e, ast.Attribute):
            name = e.attr
        else:
            raise Unsupported("raise of a computed exception")
        return [Outcome("raise", st, name)]

    def s_Assert(self, s, st):
        st = st.copy()
        c = boolify(self.ev(s.test, st))
        outs = self.split_pending(st, s)
        self.oblige(f"assert{self.cx.assert_ordinal(s)}", "assert", st, c, s)
        st.pc.append(c)
        return outs + [Outcome("normal", st)]

    def s_Delete(self, s, st):
        st = st.copy()
        outs = []
        for t in s.targets:
            if isinstance(t, ast.Name):
                st.env.pop(t.id, None)
            elif isinstance(t, ast.Subscript):
                base = self.ev(t.value, st)
                if isinstance(base, ObjV) and self.world.method_handler(base.cls, "__delitem__") is not None:
                    nb = self.world.method_handler(base.cls, "__delitem__")(self, st, base, self.ev(t.slice, st), s)
                    outs += self.split_pending(st, s)
                    self.assign(t.value, nb, st, s)
                    continue
                if not isinstance(base, DictIntV):
                    raise Unsupported("del of an item of a non-dict")
                k_ = zint(self.ev(t.slice, st))
                self.cx.pending.append((z3.Not(base.has[k_]), "KeyError"))
                outs += self.split_pending(st, s)
                self.assign(t.value, DictIntV(z3.Store(base.has, k_, z3.BoolVal(False)), base.val), st, s)
            else:
                raise Unsupported("del of this target")
        return outs + [Outcome("normal", st)]
        return [Outcome("normal", st)]

    def s_With(self, s, st):
        st = st.copy()
        for it in s.items:
            v = self.ev(it.context_expr, st)
            if it.optional_vars is not None:
                self.assign(it.optional_vars, v, st, s)
        outs = self.split_pending(st, s)
        return outs + self.ex_block(s.body, st)

    def s_FunctionDef(self, s, st):
        st = st.copy()
        st.env[s.name] = FuncV(s.name, None, (s, None))
        return [Outcome("normal", st)]

    def s_Try(self, s, st):
        if s.finalbody:
            raise Unsupported(f"try/finally at line {s.lineno}")
        base = st.mark()
        res = self.ex_block(s.body, st.copy())
        outs = []
        normals = []
        for o in res:
            if o.kind == "normal":
                if s.orelse:
                    r2 = self.ex_block(s.orelse, o.st)
                    normals += [x.st for x in r2 if x.kind == "normal"]
                    outs += [x for x in r2 if x.kind != "normal"]
                else:
                    normals.append(o.st)
            elif o.kind == "raise":
                handled = False
                for h in s.handlers:
                    names = []
                    if h.type is None:
                        names = None
                    elif isinstance(h.type, ast.Tuple):
                        names = [getattr(e, "id", getattr(e, "attr", None)) for e in h.type.elts]
                    else:
                        names = [getattr(h.type, "id", getattr(h.type, "attr", None))]
                    if names is None or any(self.world.exc_matches(o.val, nm) for nm in names):
                        hs = o.st.copy()
                        hs.env["__current_exc__"] = o.val
                        if h.name:
                            hs.env[h.name] = ObjV("__exc__", {"name": PyConst(o.val)})
                        r2 = self.ex_block(h.body, hs)
                        normals += [x.st for x in r2 if x.kind == "normal"]
                        outs += [x for x in r2 if x.kind != "normal"]
                        handled = True
                        break
                if not handled:
                    outs.append(o)
            else:
                outs.append(o)
        if normals:
            outs.append(Outcome("normal", self.merge_states(base, normals)))
        return outs

    # ------------------------------------------------------------------ ghost code
    def ex_ghost(self, s, st):
        st = st.copy()
        self.cx.ghost_count += 1
        if isinstance(s, ast.Assign):
            v = self.ev(s.value, st, spec=True)
            self.assign(s.targets[0], v, st, s)
            return [Outcome("normal", st)]
        if isinstance(s, ast.Expr) and isinstance(s.value, ast.Call) and isinstance(s.value.func, ast.Name):
            f = s.value.func.id
            if f == "__assert__":
                g = boolify(self.ev(s.value.args[0], st, spec=True))
                lab = s.value.args[1].value if len(s.value.args) > 1 else f"g{self.cx.ghost_count}"
                self.oblige(f"ghost_assert.{lab}", "ghost", st, g, s)
                st.pc.append(g)
                return [Outcome("normal", st)]
            if f == "__inst__":
                # instance of a universally quantified precondition: __inst__('label', value_for_var1, ...)
                lab = s.value.args[0].value
                req = dict(self.cx.c._requires).get(lab)
                if req is None:
                    raise AttachError(f"__inst__: no precondition labelled {lab}")
                qn = ast.parse(req.strip(), mode="eval").body
                if not (isinstance(qn, ast.Call) and isinstance(qn.func, ast.Name) and qn.func.id in ("forall", "forallp")):
                    raise AttachError(f"__inst__: precondition {lab} is not a single forall")
                vals = [zint(self.ev(a, st, spec=True)) for a in s.value.args[1:]]
                if qn.func.id == "forall":
                    triples = [(qn.args[0].id, qn.args[1], qn.args[2])]
                    body = qn.args[3]
                else:
                    nv = (len(qn.args) - 2) // 3
                    triples = [(qn.args[3 * k_].id, qn.args[3 * k_ + 1], qn.args[3 * k_ + 2]) for k_ in range(nv)]
                    body = qn.args[-2]
                if len(vals) != len(triples):
                    raise AttachError(f"__inst__: {lab} binds {len(triples)} variables")
                b = {}
                rng = []
                ent = self.cx.entry
                for (nm, lo, hi), v in zip(triples, vals):
                    rng += [zint(self.ev(lo, ent, True, b)) <= v, v < zint(self.ev(hi, ent, True, b))]
                    b[nm] = v
                st.pc.append(z3.Implies(z3.And(*rng), boolify(self.ev(body, ent, True, b))))
                return [Outcome("normal", st)]
            if f == "__define__":
                nm = s.value.args[0].value
                v = self.ev(s.value.args[1], st, spec=True)
                if isinstance(v, CArr):
                    v = v.arr
                if isinstance(v, bool):
                    v = z3.BoolVal(v)
                const = z3.Const(nm, v.sort())
                if nm in self.cx.__dict__.setdefault("_defined", set()):
                    raise AttachError(f"ghost constant {nm} defined twice")
                self.cx._defined.add(nm)
                st.pc.append(const == v)
                st.env[nm] = const
                return [Outcome("normal", st)]
            if f == "__ginc__":
                nm = "$" + s.value.args[0].value
                st.env[nm] = st.env.get(nm, z3.IntVal(0)) + 1
                return [Outcome("normal", st)]
            if f == "__lemma__":
                name = s.value.args[0].value
                args = [self.ev(a, st, spec=True) for a in s.value.args[1:]]
                st.pc.append(self.world.lemma_instance(self, name, args))
                return [Outcome("normal", st)]
            if f == "__assume__":
                raise Unsupported("ghost __assume__ is not allowed (would be an unchecked assumption)")
        if isinstance(s, ast.If):
            return self.s_If_ghost(s, st)
        raise Unsupported("ghost statement form")

    def s_If_ghost(self, s, st):
        c = boolify(self.ev(s.test, st, spec=True))
        base = st.mark()
        a = st.copy()
        a.decide(c)
        r1 = self.ex_block(s.body, a)
        bb = st.copy()
        bb.decide(z3.Not(c))
        r2 = self.ex_block(s.orelse, bb)
        normals = [o.st for o in r1 + r2 if o.kind == "normal"]
        return [Outcome("normal", self.merge_states(base, normals))]

    # ------------------------------------------------------------------ loops
    def s_While(self, s, st):
        if s.orelse:
            raise Unsupported("while-else")
        return self.ex_loop(s, st, None)

    def s_For(self, s, st):
        if s.orelse:
            raise Unsupported("for-else")
        st = st.copy()
        it = s.iter
        # literal / statically shaped iteration: unroll exactly
        kind, seq = self.classify_iter(it, st)
        outs0 = self.split_pending(st, s)
        if kind == "items":
            return outs0 + self.unroll(s, st, seq)
        return outs0 + self.ex_loop(s, st, (kind, seq))

    def classify_iter(self, it, st):
        if isinstance(it, ast.Call) and isinstance(it.func, ast.Name) and it.func.id in ("range", "reversed", "enumerate", "zip"):
            f = it.func.id
            if f == "range":
                args = [zint(self.ev(a, st)) for a in it.args]
                if len(args) == 3:
                    raise Unsupported("range with step")
                lo, hi = (z3.IntVal(0), args[0]) if len(args) == 1 else (args[0], args[1])
                return "range", (lo, hi, False)
            if f == "reversed":
                k, seq = self.classify_iter(it.args[0], st)
                if k == "range":
                    return "range", (seq[0], seq[1], True)
                if k == "items":
                    return "items", list(reversed(seq))
                raise Unsupported("reversed() of a symbolic sequence")
            if f == "enumerate":
                k, seq = self.classify_iter(it.args[0], st)
                start = 0
                if len(it.args) > 1:
                    start = z3.simplify(zint(self.ev(it.args[1], st))).as_long()
                if k == "items":
                    return "items", [(g, TupV((z3.IntVal(i + start), v))) for i, (g, v) in enumerate(seq)]
                if k == "seq":
                    return "seq", ("enumerate:%d" % start, seq[1])
                raise Unsupported("enumerate of range")
            if f == "zip":
                parts = [self.classify_iter(a, st) for a in it.args]
                if all(k == "items" for k, _ in parts):
                    n = min(len(p) for _, p in parts)
                    out = []
                    for i in range(n):
                        gs = [p[i][0] for _, p in parts]
                        if not all(z3.is_true(z3.simplify(g)) for g in gs):
                            raise Unsupported("zip over guarded lists")
                        out.append((z3.BoolVal(True), TupV(p[i][1] for _, p in parts)))
                    return "items", out
                raise Unsupported("zip over symbolic sequences")
        v = self.ev(it, st)
        if isinstance(v, Opt):
            v = self.need_not_none(v, st, it)
        if isinstance(v, TupV):
            return "items", [(z3.BoolVal(True), x) for x in v.items]
        if isinstance(v, ListV):
            return "items", list(v.items)
        if isinstance(v, PyConst) and isinstance(v.v, (tuple, list)):
            return "items", [(z3.BoolVal(True), self.world.lift(x)) for x in v.v]
        if isinstance(v, SeqV):
            return "seq", ("plain", v)
        if isinstance(v, StrV):
            return "seq", ("str", v)
        if isinstance(v, ObjV):
            h = self.world.method_handler(v.cls, "__iter__")
            if h is not None:
                r = h(self, st, v, [], {}, it, False)
                if isinstance(r, SeqV):
                    return "seq", ("plain", r)
        raise Unsupported(f"iteration over {v!r} at line {getattr(it, 'lineno', '?')}")

    def unroll(self, s, st, items):
        base = st.mark()
        outs = []
        live = st
        exits = []
        for g, item in items:
            if live is None:
                break
            g = z3.simplify(g)
            body_st = live.copy()
            skip_st = None
            if not z3.is_true(g):
                skip_st = live.copy()
                skip_st.decide(z3.Not(g))
                body_st.decide(g)
            self.assign(s.target, item, body_st, s)
            res = self.ex_block(s.body, body_st)
            cont = [o.st for o in res if o.kind in ("normal", "continue")]
            exits += [o.st for o in res if o.kind == "break"]
            outs += [o for o in res if o.kind in ("return", "raise")]
            if skip_st is not None:
                cont.append(skip_st)
            live = self.merge_states(base, cont) if cont else None
        finals = exits + ([live] if live is not None else [])
        if finals:
            outs.append(Outcome("normal", self.merge_states(base, finals)))
        return outs

    def rebinds(self, body, name):
        for st_ in body:
            for n in ast.walk(st_):
                ts = n.targets if isinstance(n, ast.Assign) else [n.target] if isinstance(n, (ast.AugAssign, ast.For)) else []
                for t in ts:
                    for x in ([t] if isinstance(t, ast.Name) else t.elts if isinstance(t, (ast.Tuple, ast.List)) else []):
                        if isinstance(x, ast.Name) and x.id == name:
                            return True
        return False

    def stored_arrays(self, body, st):
        """Names (CArr.name) of C arrays written through a subscript inside the loop body."""
        out = set()
        for st_ in body:
            for n in ast.walk(st_):
                ts = n.targets if isinstance(n, ast.Assign) else [n.target] if isinstance(n, ast.AugAssign) else []
                for t in ts:
                    x = t
                    while isinstance(x, ast.Attribute):
                        x = x.value
                    if isinstance(x, ast.Subscript):
                        b = x.value
                        try:
                            v = self.ev(b, st, spec=True)
                        except Exception:
                            v = None
                        if isinstance(v, CArr):
                            out.add(v.name)
        return out

    def havoc_arrays(self, st, names):
        new = {}
        def repl(v):
            if isinstance(v, CArr) and v.name in names:
                if v.name not in new:
                    if isinstance(v.arr, dict):
                        new[v.name] = {f: fresh(f"{v.name}.{f}", a.sort()) for f, a in v.arr.items()}
                    else:
                        new[v.name] = fresh(v.name, v.arr.sort())
                return CArr(new[v.name], v.n, v.off, v.name)
            if isinstance(v, ObjV):
                f2 = {k: repl(x) for k, x in v.fields.items()}
                if any(f2[k] is not v.fields[k] for k in f2):
                    return ObjV(v.cls, f2)
            return v
        for k in list(st.env):
            st.env[k] = repl(st.env[k])

    def loop_spec(self, s):
        no = self.cx.loop_ids.get(id(s))
        spec = self.cx.c.loops.get(no)
        if spec is None:
            raise AttachError(f"loop {no} of {self.cx.fn} (line {s.lineno}: {ast.unparse(s).splitlines()[0]}) has no invariant")
        head = ast.unparse(s).splitlines()[0].rstrip(":")
        if spec["head"] is not None and spec["head"].strip().rstrip(":") != head:
            raise AttachError(f"loop {no} of {self.cx.fn}: contract is for `{spec['head']}`, code has `{head}`")
        return no, spec["inv"]

    def ex_loop(self, s, st, iterinfo):
        no, invs = self.loop_spec(s)
        st = st.copy()
        base = st.mark()
        tgt = nx = None
        if iterinfo is not None:
            kind, seq = iterinfo
            if not isinstance(s.target, ast.Name) and kind == "range":
                raise Unsupported("range loop with non-name target")
            if kind == "range":
                lo, hi, rev = seq
                tgt = s.target.id
                nx = tgt + "_next"
                st.env[nx] = (hi - 1) if rev else lo
                guard = (lambda e: e[nx] >= lo) if rev else (lambda e: e[nx] < hi)
                step = (lambda e: e[nx] - 1) if rev else (lambda e: e[nx] + 1)
                bind = lambda bst: self.assign(s.target, bst.env[nx], bst, s)
            else:
                mode, sv = seq
                nx = f"__k{no}"
                st.env[nx] = z3.IntVal(0)
                guard = lambda e: e[nx] < sv.n
                step = lambda e: e[nx] + 1

                def bind(bst, mode=mode, sv=sv):
                    k = bst.env[nx]
                    if mode == "str":
                        el = StrV(z3.Store(z3.K(I, z3.IntVal(0)), 0, sv.arr[k]), z3.IntVal(1))
                    else:
                        el = self.world.wrap_elem(self, sv, sv.arr[k], bst)
                    if mode.startswith("enumerate"):
                        el = TupV((k + int(mode.split(":")[1]) if ":" in mode else k, el))
                    self.assign(s.target, el, bst, s)
        # invariant on entry
        for lab, inv in invs:
            self.oblige(f"loop{no}.{lab}.entry", "inv_entry", st, boolify(self.ev(inv, st, spec=True)), s)
        paths = assigned_paths(s.body)
        mod = set(paths) | ({nx} if nx else set())
        if tgt:
            mod.add(tgt)
        h = st.copy()
        stored = self.stored_arrays(s.body, h)
        for v in sorted(mod):
            if v in h.env:
                cur = h.env[v]
                lt_ = self.cx.c.local_types.get(v) if self.cx.depth == 0 else None
                if lt_ is not None and not isinstance(lt_, api.SeqT):
                    h.env[v] = api.mk(lt_, v, h.pc)
                    continue
                if cur is None:
                    raise AttachError(f"{self.cx.fn}: `{v}` is None before loop {no} and assigned inside it: declare its type in local_types")
                if isinstance(cur, CArr) and not self.rebinds(s.body, v):
                    continue        # pointer not re-assigned; contents (if stored to) are havocked below
                fields = paths.get(v)
                if fields is not None and isinstance(cur, ObjV):
                    nf = dict(cur.fields)
                    for f in fields:
                        if f not in cur.fields or isinstance(cur.fields[f], CArr):
                            continue        # C array field: its contents are havocked through havoc_arrays
                        nf[f] = fresh_like(cur.fields[f], f"{v}.{f}")
                        h.pc += shape_invariants(nf[f])
                    h.env[v] = ObjV(cur.cls, nf)
                    continue
                h.env[v] = fresh_like(cur, v)
                h.pc += shape_invariants(h.env[v])
        if stored:
            self.havoc_arrays(h, stored)
        if any(isinstance(x, (ast.Yield, ast.YieldFrom)) for b_s in s.body for x in ast.walk(b_s)):
            # a generator that yields inside a loop cut by an invariant: what it has yielded becomes opaque (the
            # obligations inside the body are still checked for an arbitrary iteration; no clause can speak about the
            # yielded sequence)
            h.env["__yielded__"] = ObjV("__yields__", {})
        for lab, inv in invs:
            h.pc.append(boolify(self.ev(inv, h, spec=True)))
        results = []
        outs = []
        if iterinfo is not None:
            g = guard(h.env)
        else:
            g = boolify(self.ev(s.test, h))
            outs += self.split_pending(h, s)
        ex_ = h.copy()
        ex_.decide(z3.Not(g))
        results.append(ex_)
        b_ = h.copy()
        b_.decide(g)
        if iterinfo is not None:
            bind(b_)
        self.cx.covers.append((f"loop{no}.body", list(b_.pc)))
        new_names = {}

        def shapes(v, depth=0):
            """lengths of the Python lists inside a value (a havocked list keeps its length: the body must keep it too)"""
            if isinstance(v, ListV):
                return ("L", len(v.items), tuple(shapes(x, depth + 1) for _, x in v.items))
            if isinstance(v, Opt):
                return shapes(v.val, depth + 1)
            if isinstance(v, ObjV) and depth < 4:
                return tuple((k_, shapes(x, depth + 1)) for k_, x in sorted(v.fields.items()) if isinstance(x, (ListV, ObjV, Opt)))
            return None
        head_shapes = {v_: shapes(h.env[v_]) for v_ in mod if v_ in h.env}
        for o in self.ex_block(s.body, b_):
            if o.kind in ("normal", "continue"):
                for v_, sh in head_shapes.items():
                    if sh is not None and v_ in o.st.env and shapes(o.st.env[v_]) != sh:
                        raise Unsupported(f"the loop body changes the length of a list inside `{v_}` (loop {no})")
                for k_, v_ in o.st.env.items():
                    if k_ not in h.env and not k_.startswith(("$", "__")) and k_ not in new_names:
                        new_names[k_] = v_
                s3 = o.st.copy()
                if nx:
                    s3.env[nx] = step(s3.env)
                for lab, inv in invs:
                    self.oblige(f"loop{no}.{lab}.preserved", "inv_preserved", s3, boolify(self.ev(inv, s3, spec=True)), s)
            elif o.kind == "break":
                results.append(o.st)
            else:
                outs.append(o)
        # names first assigned inside the loop body exist after the loop (if it ran): arbitrary values of that shape
        for k_, v_ in new_names.items():
            try:
                nv = fresh_like(v_, k_ + ".after_loop")
            except Unsupported:
                continue
            for r_ in results:
                if k_ not in r_.env:
                    r_.env[k_] = nv
        outs.append(Outcome("normal", self.merge_states(base, results)))
        return outs


_MISSING = object()
