"""Symbolic value domain of the pyvc executor.

Scalars are raw z3 terms (Int / Bool / Real).  Everything else is one of the small
immutable wrappers below.  All wrappers are *values*: objects are structs copied on
write (see DESIGN.md 2.3 for what that assumes about aliasing)."""
import itertools
import z3

I = z3.IntSort()
B = z3.BoolSort()
R = z3.RealSort()
AII = z3.ArraySort(I, I)

_fresh = itertools.count()


def fresh(name, sort=I):
    return z3.Const(f"{name}!{next(_fresh)}", sort)


class Unsupported(Exception):
    """Construct outside the interpreted subset -> exit status 3, never a violation."""


class SpecNoneDeref(Unsupported):
    """A specification reads an attribute of a value that is None on this path: the clause presumes a value there."""


class AttachError(Exception):
    """A contract could not be attached to the code (renamed local, moved anchor ...)."""


class PyConst:
    """A concrete Python constant that is not an int/bool (str, bytes, float literal ...)."""
    __slots__ = ("v",)

    def __init__(self, v):
        self.v = v

    def __repr__(self):
        return f"PyConst({self.v!r})"


class StrV:
    """str / bytes: array of character codes + length."""
    __slots__ = ("arr", "n")

    def __init__(self, arr, n):
        self.arr, self.n = arr, n

    def __repr__(self):
        return f"StrV({self.arr}, {self.n})"


class Opt:
    """Maybe-None value: `none` is a z3 Bool, `val` a non-None value."""
    __slots__ = ("none", "val")

    def __init__(self, none, val):
        self.none, self.val = none, val

    def __repr__(self):
        return f"Opt({self.none}, {self.val})"


class TupV:
    __slots__ = ("items",)

    def __init__(self, items):
        self.items = tuple(items)

    def __repr__(self):
        return f"TupV{self.items}"


class ListV:
    """Python list of statically known shape: a sequence of (guard, item)."""
    __slots__ = ("items",)

    def __init__(self, items=()):
        self.items = tuple(items)

    def __repr__(self):
        return f"ListV{self.items}"


class SeqV:
    """Sequence of symbolic length: z3 array Int -> elem plus length.  `wrap` turns an
    array element into a value (identity for ints)."""
    __slots__ = ("arr", "n", "elem")

    def __init__(self, arr, n, elem=None):
        self.arr, self.n, self.elem = arr, n, elem


class MapV:
    """dict / defaultdict with integer keys and values: total z3 array (absent = default)."""
    __slots__ = ("arr",)

    def __init__(self, arr):
        self.arr = arr


class DictIntV:
    """dict with integer keys: membership array (Int -> Bool) and value array (Int -> Int)."""
    __slots__ = ("has", "val")

    def __init__(self, has, val):
        self.has, self.val = has, val


class ObjV:
    """Object as a struct of fields (copied on write)."""
    __slots__ = ("cls", "fields")

    def __init__(self, cls, fields):
        self.cls, self.fields = cls, dict(fields)

    def with_field(self, k, v):
        f = dict(self.fields)
        f[k] = v
        return ObjV(self.cls, f)

    def __repr__(self):
        return f"ObjV({self.cls}, {sorted(self.fields)})"


class ClsV:
    """A class object used as a first-class value."""
    __slots__ = ("name",)

    def __init__(self, name):
        self.name = name

    def __repr__(self):
        return f"ClsV({self.name})"


class ChoiceV:
    """One of several non-mergeable values (functions, classes), selected by guards."""
    __slots__ = ("options",)

    def __init__(self, options):
        self.options = list(options)     # [(cond, value)]


class FuncV:
    """A bound or free function value (callable resolved by the executor)."""
    __slots__ = ("name", "self_val", "extra")

    def __init__(self, name, self_val=None, extra=None):
        self.name, self.self_val, self.extra = name, self_val, extra


def is_z3(v):
    return isinstance(v, z3.ExprRef)


def const_str(s):
    """Concrete str/bytes -> StrV with a concrete array."""
    if isinstance(s, bytes):
        codes = list(s)
    else:
        codes = [ord(ch) for ch in s]
    arr = z3.K(I, z3.IntVal(0))
    for i, ch in enumerate(codes):
        arr = z3.Store(arr, i, ch)
    return StrV(arr, z3.IntVal(len(codes)))


def as_str(v):
    if isinstance(v, StrV):
        return v
    if isinstance(v, PyConst) and isinstance(v.v, (str, bytes)):
        return const_str(v.v)
    raise Unsupported(f"expected a string value, got {v!r}")


def coerce_num(a, b):
    """Make two z3 numerals the same sort (Int -> Real when mixed)."""
    if z3.is_int(a) and z3.is_real(b):
        a = z3.ToReal(a)
    elif z3.is_real(a) and z3.is_int(b):
        b = z3.ToReal(b)
    return a, b


TRUTHY_HOOKS = {}     # class name -> function(ObjV) -> z3 Bool (classes defining __len__ / __bool__)


def boolify(v):
    """Python truthiness."""
    if isinstance(v, bool):
        return z3.BoolVal(v)
    if v is None:
        return z3.BoolVal(False)
    if isinstance(v, z3.BoolRef):
        return v
    if isinstance(v, z3.ArithRef):
        return v != 0
    if isinstance(v, StrV):
        return v.n > 0
    if isinstance(v, PyConst):
        return z3.BoolVal(bool(v.v))
    if isinstance(v, Opt):
        return z3.And(z3.Not(v.none), boolify(v.val))
    if isinstance(v, TupV):
        return z3.BoolVal(len(v.items) > 0)
    if isinstance(v, ListV):
        if not v.items:
            return z3.BoolVal(False)
        return z3.Or(*[g for g, _ in v.items])
    if isinstance(v, SeqV):
        return v.n > 0
    if isinstance(v, DictIntV):
        k = z3.Int("k!de")
        return z3.Not(z3.ForAll([k], z3.Not(v.has[k])))
    if isinstance(v, ObjV):
        for c_ in mro(v.cls):
            if c_ in TRUTHY_HOOKS:
                return TRUTHY_HOOKS[c_](v)
        return z3.BoolVal(True)
    if isinstance(v, (ClsV, FuncV, ChoiceV)):
        return z3.BoolVal(True)
    if type(v).__name__ == "CArr":
        return z3.BoolVal(True)         # non-NULL pointer (allocation failure is modelled by the raises clause)
    raise Unsupported(f"truthiness of {v!r}")


MERGE_COERCIONS = []      # contract modules may register (a, b) -> (a', b') | None to bring two kinds of value to one


def merge_val(c, a, b, name="m"):
    """Value that is `a` when c holds and `b` otherwise."""
    if a is b:
        return a
    for f_ in MERGE_COERCIONS:
        r_ = f_(a, b)
        if r_ is not None:
            a, b = r_
    if a is None and b is None:
        return None
    if isinstance(a, ObjV) and a.cls == "__yields__" or isinstance(b, ObjV) and b.cls == "__yields__":
        # what a generator has yielded: opaque on one side (loop cut by an invariant), a known list on the other
        def known(v, g):
            if isinstance(v, ListV):
                return g, v
            if isinstance(v, ObjV) and "when" in v.fields:
                return z3.And(g, v.fields["when"]), v.fields["items"]
            return None
        ka, kb = known(a, c), known(b, z3.Not(c))
        if ka is not None and kb is None:
            return ObjV("__yields__", {"when": ka[0], "items": ka[1]})
        if kb is not None and ka is None:
            return ObjV("__yields__", {"when": kb[0], "items": kb[1]})
        return ObjV("__yields__", {})
    if isinstance(a, bool):
        a = z3.BoolVal(a)
    if isinstance(b, bool):
        b = z3.BoolVal(b)
    if isinstance(a, int):
        a = z3.IntVal(a)
    if isinstance(b, int):
        b = z3.IntVal(b)
    if a is None:
        if isinstance(b, Opt):
            return Opt(z3.If(c, z3.BoolVal(True), b.none), b.val)
        return Opt(c, b)
    if b is None:
        if isinstance(a, Opt):
            return Opt(z3.If(c, a.none, z3.BoolVal(True)), a.val)
        return Opt(z3.Not(c), a)
    # Python `False` merged with a string (e.g. a mode that is "normal" / "combinatorial" / False): modelled as an
    # optional string; only truthiness and comparison with strings are meaningful on such a value
    if is_z3(a) and z3.is_false(a) and isinstance(b, (StrV, PyConst, Opt)) and not (isinstance(b, PyConst) and not isinstance(b.v, str)):
        a = None
    if is_z3(b) and z3.is_false(b) and isinstance(a, (StrV, PyConst, Opt)) and not (isinstance(a, PyConst) and not isinstance(a.v, str)):
        b = None
    if a is None and b is not None:
        if isinstance(b, Opt):
            return Opt(z3.If(c, z3.BoolVal(True), b.none), b.val)
        return Opt(c, b)
    if b is None and a is not None:
        if isinstance(a, Opt):
            return Opt(z3.If(c, a.none, z3.BoolVal(True)), a.val)
        return Opt(z3.Not(c), a)
    if isinstance(a, Opt) or isinstance(b, Opt):
        na, va = (a.none, a.val) if isinstance(a, Opt) else (z3.BoolVal(False), a)
        nb, vb = (b.none, b.val) if isinstance(b, Opt) else (z3.BoolVal(False), b)
        return Opt(z3.If(c, na, nb), merge_val(c, va, vb, name))
    if is_z3(a) and is_z3(b):
        if a.eq(b):
            return a
        if z3.is_bool(a) != z3.is_bool(b):
            # bool/int mix (Python allows it): lift the bool
            if z3.is_bool(a):
                a = z3.If(a, 1, 0)
            else:
                b = z3.If(b, 1, 0)
        if z3.is_arith(a) and z3.is_arith(b):
            a, b = coerce_num(a, b)
        return z3.If(c, a, b)
    if isinstance(a, PyConst) and isinstance(b, PyConst):
        if type(a.v) is type(b.v) and a.v == b.v:
            return a
    if isinstance(a, (StrV, PyConst)) and isinstance(b, (StrV, PyConst)):
        a, b = as_str(a), as_str(b)
        return StrV(z3.If(c, a.arr, b.arr), z3.If(c, a.n, b.n))
    if isinstance(a, TupV) and isinstance(b, TupV) and len(a.items) == len(b.items):
        return TupV(merge_val(c, x, y, name) for x, y in zip(a.items, b.items))
    if isinstance(a, ObjV) and isinstance(b, ObjV):
        cls = a.cls if a.cls == b.cls else common_base(a.cls, b.cls)
        fields = {}
        try:
            for k in set(a.fields) | set(b.fields):
                if k == "__origin__":
                    # marks the caller's object (frame obligations): kept only if both sides are that object
                    if k in a.fields and k in b.fields and getattr(a.fields[k], "v", 1) == getattr(b.fields[k], "v", 2):
                        fields[k] = a.fields[k]
                    continue
                if k in a.fields and k in b.fields:
                    fields[k] = merge_val(c, a.fields[k], b.fields[k], name + "." + k)
                elif a.cls == "__kwdict__":
                    # dict with string keys: a key set on one path only is an optional entry
                    fields[k] = merge_val(c, a.fields.get(k), b.fields.get(k), name + "." + k)
                else:
                    fields[k] = a.fields.get(k, b.fields.get(k))
            return ObjV(cls, fields)
        except Unsupported:
            if a.cls == b.cls:
                raise
            # objects of unrelated shapes: keep both alternatives (usable for storing/passing on, not for field access)
            return ChoiceV([(c, a), (z3.Not(c), b)])
    if isinstance(a, TupV) and isinstance(b, ListV):
        a = ListV((z3.BoolVal(True), i) for i in a.items)
    if isinstance(b, TupV) and isinstance(a, ListV):
        b = ListV((z3.BoolVal(True), i) for i in b.items)
    if isinstance(a, ListV) and isinstance(b, ListV):
        if len(a.items) == len(b.items) and all(z3.is_true(g) for g, _ in a.items + b.items):
            try:
                merged = ListV((z3.BoolVal(True), merge_val(c, x, y, name)) for (_, x), (_, y) in zip(a.items, b.items))
                if not any(isinstance(m_, ChoiceV) and not (isinstance(x, ChoiceV) or isinstance(y, ChoiceV))
                           for (_, m_), (_, x), (_, y) in zip(merged.items, a.items, b.items)):
                    return merged
            except Unsupported:
                pass        # elements of unrelated shapes: keep both lists, guarded
        out = []
        i = 0
        while i < len(a.items) and i < len(b.items) and a.items[i][1] is b.items[i][1] \
                and z3.eq(a.items[i][0], b.items[i][0]):
            out.append(a.items[i])
            i += 1
        for g, it in a.items[i:]:
            out.append((z3.And(c, g), it))
        for g, it in b.items[i:]:
            out.append((z3.And(z3.Not(c), g), it))
        return ListV(out)
    if isinstance(a, MapV) and isinstance(b, MapV):
        return MapV(z3.If(c, a.arr, b.arr))
    if isinstance(a, DictIntV) and isinstance(b, DictIntV):
        return DictIntV(z3.If(c, a.has, b.has), z3.If(c, a.val, b.val))
    if isinstance(a, SeqV) and isinstance(b, SeqV):
        return SeqV(z3.If(c, a.arr, b.arr), z3.If(c, a.n, b.n), a.elem)
    if isinstance(a, ClsV) and isinstance(b, ClsV) and a.name == b.name:
        return a
    if type(a).__name__ == "CArr" and isinstance(b, StrV):
        b = type(a)(b.arr, b.n, None, a.name)
    if type(b).__name__ == "CArr" and isinstance(a, StrV):
        a = type(b)(a.arr, a.n, None, b.name)
    if type(a).__name__ == "CArr" and type(b).__name__ == "CArr":
        if isinstance(a.arr, dict) != isinstance(b.arr, dict):
            raise Unsupported("cannot merge struct and scalar C arrays")
        if isinstance(a.arr, dict):
            arr = {f_: z3.If(c, a.arr[f_], b.arr[f_]) for f_ in a.arr}
        else:
            arr = a.arr if a.arr.eq(b.arr) else z3.If(c, a.arr, b.arr)
        return type(a)(arr, a.n if a.n.eq(b.n) else z3.If(c, a.n, b.n), a.off if a.off.eq(b.off) else z3.If(c, a.off, b.off), a.name)
    if isinstance(a, FuncV) and isinstance(b, FuncV) and a.name == b.name:
        return a
    if isinstance(a, (FuncV, ClsV, ChoiceV, ObjV)) and isinstance(b, (FuncV, ClsV, ChoiceV, ObjV)) and \
            (isinstance(a, ChoiceV) or isinstance(b, ChoiceV) or not (isinstance(a, ObjV) and isinstance(b, ObjV))):
        oa = a.options if isinstance(a, ChoiceV) else [(z3.BoolVal(True), a)]
        ob = b.options if isinstance(b, ChoiceV) else [(z3.BoolVal(True), b)]
        return ChoiceV([(z3.And(c, g), v) for g, v in oa] + [(z3.And(z3.Not(c), g), v) for g, v in ob])
    raise Unsupported(f"cannot merge {a!r} with {b!r} ({name})")


CLASS_BASES = {}     # class name -> list of base names (filled by the source index)


def mro(cls):
    out, todo = [], [cls]
    while todo:
        c = todo.pop(0)
        if c in out:
            continue
        out.append(c)
        todo.extend(CLASS_BASES.get(c, []))
    return out


def common_base(a, b):
    ma = mro(a)
    for c in mro(b):
        if c in ma:
            return c
    return "object"


def is_subclass(a, b):
    return b in mro(a)


def fresh_like(v, name):
    """A fresh symbolic value of the same shape (loop havoc)."""
    if v is None:
        return None
    if isinstance(v, bool):
        return fresh(name, B)
    if isinstance(v, int):
        return fresh(name, I)
    if is_z3(v):
        return fresh(name, v.sort())
    if isinstance(v, PyConst):
        if isinstance(v.v, (str, bytes)):
            return StrV(fresh(name + ".arr", AII), fresh(name + ".n", I))
        return v
    if isinstance(v, StrV):
        return StrV(fresh(name + ".arr", AII), fresh(name + ".n", I))
    if isinstance(v, Opt):
        return Opt(fresh(name + ".none", B), fresh_like(v.val, name))
    if isinstance(v, TupV):
        return TupV(fresh_like(x, f"{name}.{i}") for i, x in enumerate(v.items))
    if isinstance(v, ObjV):
        return ObjV(v.cls, {k: fresh_like(x, f"{name}.{k}") for k, x in v.fields.items()})
    if isinstance(v, MapV):
        return MapV(fresh(name + ".map", v.arr.sort()))
    if isinstance(v, DictIntV):
        return DictIntV(fresh(name + ".has", v.has.sort()), fresh(name + ".val", v.val.sort()))
    if isinstance(v, SeqV):
        return SeqV(fresh(name + ".arr", v.arr.sort()), fresh(name + ".n", I), v.elem)
    if isinstance(v, ListV):
        if all(z3.is_true(z3.simplify(g)) for g, _ in v.items):
            # a list of fixed shape: the elements change, the length does not (a loop that appends is still rejected:
            # its invariants could not speak about the new elements)
            return ListV((g, fresh_like(x, f"{name}[{i}]")) for i, (g, x) in enumerate(v.items))
        raise Unsupported(f"list {name} modified inside a loop that is cut by an invariant")
    if isinstance(v, (ClsV, FuncV, ChoiceV)):
        return v
    if type(v).__name__ == "CArr":
        # pointer: the offset changes; the pointed-to array is havocked separately when stored to
        return type(v)(v.arr, v.n, fresh(name + ".off", I), v.name)
    raise Unsupported(f"havoc of {v!r}")


def shape_invariants(v):
    """Type invariants that must be re-assumed after a havoc (lengths are non-negative)."""
    out = []
    if isinstance(v, StrV):
        out.append(v.n >= 0)
    elif isinstance(v, Opt):
        out += shape_invariants(v.val)
    elif isinstance(v, TupV):
        for x in v.items:
            out += shape_invariants(x)
    elif isinstance(v, ObjV):
        for x in v.fields.values():
            out += shape_invariants(x)
    elif isinstance(v, SeqV):
        out.append(v.n >= 0)
    return out
