"""Immutable objects stored in symbolic sequences: heap-by-field, one uninterpreted function
per (class, field path) from object id to the field value.  Used for lists of matches and
adapters, which are never mutated after they have been put into a list."""
import z3
from .values import *  # noqa
from . import api

_FN = {}


def field_fn(cls, path, sort):
    key = (cls, path, str(sort))
    if key not in _FN:
        _FN[key] = z3.Function(f"F.{cls}.{path}", I, sort)
    return _FN[key]


def resolve(t):
    """ObjT -> dict of field types (schema + overrides)."""
    fields = dict(api.SCHEMAS.get(t.cls, {}))
    fields.update(t.fields)
    return fields


def read(t, cls, path, oid):
    """Value of type t stored under `path` of object `oid` of root class cls."""
    if isinstance(t, api._Int):
        return field_fn(cls, path, I)(oid)
    if isinstance(t, api._Bool):
        return field_fn(cls, path, B)(oid)
    if isinstance(t, api._Real):
        return field_fn(cls, path, R)(oid)
    if isinstance(t, api._Str):
        return StrV(field_fn(cls, path + ".arr", AII)(oid), field_fn(cls, path + ".n", I)(oid))
    if isinstance(t, api.OptT):
        return Opt(field_fn(cls, path + ".none", B)(oid), read(t.t, cls, path, oid))
    if isinstance(t, api.ObjT):
        f = {k: read(ft, cls, f"{path}.{k}" if path else k, oid) for k, ft in resolve(t).items()}
        if "__id__" not in f:
            f["__id__"] = field_fn(cls, (path + "." if path else "") + "__id__", I)(oid) if path else oid
        return ObjV(t.cls, f)
    if isinstance(t, api.TupT):
        return TupV(read(x, cls, f"{path}.{i}", oid) for i, x in enumerate(t.ts))
    raise Unsupported(f"field type {t!r} cannot be stored in a symbolic sequence")


def facts(t, cls, path, oid, v, out):
    """Equalities tying the stored representation of object `oid` to the value v."""
    if isinstance(t, (api._Int, api._Bool, api._Real)):
        sort = I if isinstance(t, api._Int) else B if isinstance(t, api._Bool) else R
        if isinstance(v, bool):
            v = z3.BoolVal(v)
        if isinstance(v, int):
            v = z3.IntVal(v)
        out.append(field_fn(cls, path, sort)(oid) == v)
    elif isinstance(t, api._Str):
        s = as_str(v)
        out.append(field_fn(cls, path + ".arr", AII)(oid) == s.arr)
        out.append(field_fn(cls, path + ".n", I)(oid) == s.n)
    elif isinstance(t, api.OptT):
        fn = field_fn(cls, path + ".none", B)(oid)
        if v is None:
            out.append(fn)
        elif isinstance(v, Opt):
            out.append(fn == v.none)
            sub = []
            facts(t.t, cls, path, oid, v.val, sub)
            out += [z3.Implies(z3.Not(v.none), f) for f in sub]
        else:
            out.append(z3.Not(fn))
            facts(t.t, cls, path, oid, v, out)
    elif isinstance(t, api.ObjT):
        if not isinstance(v, ObjV):
            raise Unsupported(f"expected an object for {cls}.{path}, got {v!r}")
        for k, ft in resolve(t).items():
            if k in v.fields:
                facts(ft, cls, f"{path}.{k}" if path else k, oid, v.fields[k], out)
        if path and "__id__" in v.fields:
            out.append(field_fn(cls, path + ".__id__", I)(oid) == v.fields["__id__"])
    elif isinstance(t, api.TupT):
        for i, x in enumerate(t.ts):
            facts(x, cls, f"{path}.{i}", oid, v.items[i], out)
    else:
        raise Unsupported(f"field type {t!r} cannot be stored in a symbolic sequence")


def seq_append(seq, v, st):
    """seq.append(v): returns the new SeqV and adds the heap facts for v to the path condition."""
    if isinstance(seq.elem, api.ObjT):
        if isinstance(v, Opt):
            raise Unsupported("append of an optional object")
        oid = v.fields.get("__id__")
        if oid is None:
            oid = fresh("id." + v.cls, I)
        out = []
        facts(seq.elem, seq.elem.cls, "", oid, v, out)
        st.pc += out
        return SeqV(z3.Store(seq.arr, seq.n, oid), seq.n + 1, seq.elem)
    return SeqV(z3.Store(seq.arr, seq.n, v), seq.n + 1, seq.elem)


def seq_elem(seq, term):
    if callable(seq.elem) and not isinstance(seq.elem, api.T):
        return seq.elem(term)           # a view (e.g. the items of a dict: key -> (key, value))
    if isinstance(seq.elem, api.ObjT):
        return read(seq.elem, seq.elem.cls, "", term)
    if isinstance(seq.elem, api.TupT):
        return read(seq.elem, "Tuple%d" % len(seq.elem.ts), "t", term)
    return term


def seq_from_list(lst, elem, st):
    """List of statically known shape (possibly with guarded items) -> symbolic sequence."""
    s = SeqV(z3.K(I, z3.IntVal(0)), z3.IntVal(0), elem)
    for g, it in lst.items:
        g = z3.simplify(g)
        if z3.is_true(g) and not isinstance(it, Opt):
            s = seq_append(s, it, st)
            continue
        if isinstance(it, Opt):
            it = it.val
        if isinstance(elem, api.ObjT):
            oid = it.fields.get("__id__")
            if oid is None:
                oid = fresh("id." + it.cls, I)
            out = []
            facts(elem, elem.cls, "", oid, it, out)
            st.pc += [z3.Implies(g, f) for f in out]
            v = oid
        else:
            v = it
        s = SeqV(z3.If(g, z3.Store(s.arr, s.n, v), s.arr), z3.If(g, s.n + 1, s.n), elem)
    return s


def seq_concat(a, b):
    k = z3.Int("k!sc")
    return SeqV(z3.Lambda([k], z3.If(k < a.n, a.arr[k], b.arr[k - a.n])), a.n + b.n, a.elem)


def named_array(cx, arr):
    """A constant standing for an arbitrary array term (patterns may not contain ite/store/lambda)."""
    if z3.is_const(arr) and arr.decl().kind() == z3.Z3_OP_UNINTERPRETED:
        return arr
    cache = cx.__dict__.setdefault("_named_arrays", {})
    if arr.get_id() not in cache:
        c = fresh("arr", arr.sort())
        cx.axioms.append(c == arr)
        cache[arr.get_id()] = c
    return cache[arr.get_id()]


def coerce(v, t, st):
    """Bring a value to the representation of the declared type (lists -> symbolic sequences)."""
    if isinstance(t, api.SeqT) and isinstance(v, ListV):
        return seq_from_list(v, t.elem, st)
    if isinstance(t, api.SeqT) and isinstance(v, TupV):
        return seq_from_list(ListV((z3.BoolVal(True), i) for i in v.items), t.elem, st)
    if isinstance(t, api.TupT) and isinstance(v, TupV) and len(v.items) == len(t.ts):
        return TupV(coerce(x, tt, st) for x, tt in zip(v.items, t.ts))
    if isinstance(t, api.TupT) and isinstance(v, ListV) and len(v.items) == len(t.ts) and all(z3.is_true(z3.simplify(g)) for g, _ in v.items):
        return TupV(coerce(x, tt, st) for (_, x), tt in zip(v.items, t.ts))
    if isinstance(t, api.OptT) and v is not None and not isinstance(v, Opt):
        return coerce(v, t.t, st)
    return v
