"""Contract DSL.  Contracts are sidecar Python files under /verif/contracts; each names the
real function (file + qualified name) whose text is re-read from /repo on every run."""
import z3
from .values import (I, B, R, AII, StrV, Opt, TupV, ObjV, SeqV, MapV, ListV, fresh)

REGISTRY = {}          # (file, qualname) -> Contract
BY_NAME = {}           # call name ("quality_trim_index", "Cls.method") -> Contract
LEMMAS = {}            # name -> Lemma
SCHEMAS = {}           # class name -> {field: type}


# ----------------------------------------------------------------------------- types

class T:
    pass


class _Int(T):
    def __repr__(self): return "Int"


class _Bool(T):
    def __repr__(self): return "Bool"


class _Real(T):
    def __repr__(self): return "Real"


class _Str(T):
    def __init__(self, lo=0, hi=127): self.lo, self.hi = lo, hi
    def __repr__(self): return "Str"


Int, Bool, Real, Str = _Int(), _Bool(), _Real(), _Str()
Bytes = _Str(0, 255)


class OptT(T):
    def __init__(self, t): self.t = t
    def __repr__(self): return f"Opt[{self.t}]"


class TupT(T):
    def __init__(self, *ts): self.ts = ts


class ObjT(T):
    """Object with the given fields (defaults to the registered schema of the class)."""
    def __init__(self, cls, **fields):
        self.cls, self.fields = cls, fields

    def __repr__(self): return f"Obj[{self.cls}]"


class KwDictT(T):
    """dict with string keys from a known set; every key is optional (absent or present with a value of its type)."""
    def __init__(self, **fields): self.fields = fields


class SeqT(T):
    def __init__(self, elem=Int, inv=None): self.elem, self.inv = elem, inv


class MapT(T):
    def __init__(self, val=Int): self.val = val


class DictIntT(T):
    """dict with integer keys and values (object ids)."""


class GListT(T):
    """Python list with at most `maxlen` elements (a guarded list: slot k is present iff the length exceeds k)."""
    def __init__(self, elem=Int, maxlen=3):
        self.elem, self.maxlen = elem, maxlen


class FixedListT(T):
    """Python list of a fixed, known length (e.g. the per-read-end pairs [x, y] of the statistics)."""
    def __init__(self, elem=Int, n=2):
        self.elem, self.n = elem, n


class CArrT(T):
    """C array / pointer: element arrays (one per struct field when `fields` is given), symbolic buffer length."""
    def __init__(self, name, fields=None, byte=False):
        self.name, self.fields, self.byte = name, fields, byte


class ConstT(T):
    """A parameter fixed to a concrete Python value (e.g. a class object)."""
    def __init__(self, v): self.v = v


def schema(cls, **fields):
    SCHEMAS[cls] = fields


def mk(t, name, inv):
    """Fresh symbolic value of type t; type invariants are appended to inv."""
    if isinstance(t, _Int):
        return fresh(name, I)
    if isinstance(t, _Bool):
        return fresh(name, B)
    if isinstance(t, _Real):
        return fresh(name, R)
    if isinstance(t, _Str):
        s = StrV(fresh(name + ".arr", AII), fresh(name + ".n", I))
        k = z3.Int(f"k!{name}")
        inv.append(s.n >= 0)
        inv.append(z3.ForAll([k], z3.And(t.lo <= s.arr[k], s.arr[k] <= t.hi)))
        return s
    if isinstance(t, OptT):
        return Opt(fresh(name + ".none", B), mk(t.t, name, inv))
    if isinstance(t, TupT):
        return TupV(mk(x, f"{name}.{i}", inv) for i, x in enumerate(t.ts))
    if isinstance(t, ObjT):
        fields = dict(SCHEMAS.get(t.cls, {}))
        fields.update(t.fields)
        o = ObjV(t.cls, {k: mk(ft, f"{name}.{k}", inv) for k, ft in fields.items()})
        if "__id__" not in o.fields:
            o.fields["__id__"] = fresh(name + ".__id__", I)
        return o
    if isinstance(t, KwDictT):
        return ObjV("__kwdict__", {k: Opt(fresh(f"{name}[{k}].absent", B), mk(ft, f"{name}[{k}]", inv)) for k, ft in t.fields.items()})
    if isinstance(t, SeqT):
        s = SeqV(fresh(name + ".arr", AII), fresh(name + ".n", I), t.elem)
        inv.append(s.n >= 0)
        if t.inv is not None:
            from . import heap
            k = z3.Int(f"k!{name}")
            inv.append(z3.ForAll([k], z3.Implies(z3.And(0 <= k, k < s.n), t.inv(heap.seq_elem(s, s.arr[k]))), patterns=[s.arr[k]]))
        return s
    if isinstance(t, MapT):
        if isinstance(t.val, MapT):
            return MapV(fresh(name + ".map2", z3.ArraySort(I, AII)))
        return MapV(fresh(name + ".map", AII))
    if isinstance(t, DictIntT):
        from .values import DictIntV
        return DictIntV(fresh(name + ".has", z3.ArraySort(I, B)), fresh(name + ".val", AII))
    if isinstance(t, FixedListT):
        return ListV((z3.BoolVal(True), mk(t.elem, f"{name}[{k}]", inv)) for k in range(t.n))
    if isinstance(t, GListT):
        n = fresh(name + ".len", I)
        inv.append(z3.And(0 <= n, n <= t.maxlen))
        return ListV((n > k, mk(t.elem, f"{name}[{k}]", inv)) for k in range(t.maxlen))
    if isinstance(t, CArrT):
        from .state import CArr
        n = fresh(name + ".buflen", I)
        inv.append(n >= 0)
        if t.fields:
            arr = {f_: fresh(f"{name}.{f_}", AII) for f_ in t.fields}
        else:
            arr = fresh(name + ".arr", AII)
            if t.byte:
                k = z3.Int(f"k!{name}")
                inv.append(z3.ForAll([k], z3.And(0 <= arr[k], arr[k] <= 255)))
        return CArr(arr, n, None, t.name)
    if isinstance(t, ConstT):
        return t.v
    raise TypeError(f"unknown contract type {t!r}")


# ----------------------------------------------------------------------------- contracts

class Contract:
    def __init__(self, file, qualname, props=(), name=None):
        self.file, self.qualname, self.props = file, qualname, tuple(props)
        self.name = name or qualname
        self.params = {}            # name -> type (ordered)
        self.defaults = {}
        self.ret = None             # return type (for callers)
        self._requires = []         # (label, expr)
        self._ensures = []          # (label, expr)
        self._raises = []           # (exc, when-expr or None)
        self.loops = {}             # ordinal -> dict(head=..., inv=[(label, expr)])
        self.ghosts = []            # dict(where, anchor, occurrence, code)
        self.specs = []             # callables: setup(ctx) registering spec functions / axioms
        self.modifies = []          # parameter names whose object may change
        self.witnesses = []
        self.mutants = []
        self.trusted = []           # free-text trusted items (externals, axioms)
        self.inline = set()         # callee names executed by inlining their real body
        self.notes = []
        self.env = {}               # extra names visible to the body (module constants)
        self.ctypes_extra = {}
        self.c_int_bits = None      # no-overflow obligations for C ints when set
        self.pure = False
        self.unroll = {}
        self.consts = {}
        self.ghost_results = []
        self.local_types = {}
        self.runtime = None

    # -- declaration helpers
    def types(_c, **kw):
        _c.params.update(kw)
        return _c

    def returns(self, t):
        self.ret = t
        return self

    def requires(_c, *exprs, **labelled):
        self = _c
        for e in exprs:
            self._requires.append((f"pre{len(self._requires)}", e))
        for k, e in labelled.items():
            self._requires.append((k, e))
        return self

    def ensures(_c, **labelled):
        self = _c
        for k, e in labelled.items():
            self._ensures.append((k, e))
        return self

    def raises(self, exc, when=None):
        self._raises.append((exc, when))
        return self

    def loop(self, ordinal, head=None, inv=(), **labelled):
        invs = [(f"inv{i}", e) for i, e in enumerate(inv)]
        invs += list(labelled.items())
        self.loops[ordinal] = {"head": head, "inv": invs}
        return self

    def ghost(self, code, before=None, after=None, occurrence=None, at_start=False):
        self.ghosts.append({"code": code, "before": before, "after": after,
                            "occurrence": occurrence, "at_start": at_start})
        return self

    def spec(self, setup):
        self.specs.append(setup)
        return self

    def witness(self, **kw):
        self.witnesses.append(kw)
        return self

    def mutant(self, old, new, occurrence=1, expect=None):
        self.mutants.append({"old": old, "new": new, "occurrence": occurrence, "expect": expect})
        return self

    def trust(self, text):
        self.trusted.append(text)
        return self


def contract(file, qualname, props=(), name=None):
    def deco(f):
        c = Contract(file, qualname, props, name)
        c.module = getattr(f, "__module__", None)
        f(c)
        REGISTRY[(file, qualname, c.name)] = c
        BY_NAME.setdefault(c.name, c)
        return c
    return deco


class LemmaCtx:
    """Looks like a FnCtx to the discharge / evidence code."""
    is_lemma = True

    def __init__(self, name):
        from .state import Obl
        self.fn = "lemma:" + name
        self.obls, self.axioms = [], []
        self.ex = None
        self.nreturns = 1
        self.trusted, self.inlined, self.used_contracts, self.used_lemmas = [], set(), set(), set()
        self._Obl = Obl

    def vc(self, label, hyps, goal):
        o = self._Obl(self.fn, label, "lemma", hyps, goal)
        self.obls.append(o)
        return o


class Lemma:
    """A named fact over spec functions.  `prove(lx)` adds the VCs that establish it (base and
    step of an induction, written out by the author); `statement(*args)` is the formula a ghost
    `__lemma__(name, args...)` may assume once those VCs are discharged."""
    def __init__(self, name, props=()):
        self.name, self.props = name, tuple(props)
        self.prove = None
        self.statement = None
        self.axioms = lambda: []

    def build(self):
        lx = LemmaCtx(self.name)
        lx.axioms = list(self.axioms())
        self.prove(lx)
        return lx

    def instance(self, cx, *args):
        for a in self.axioms():
            if not any(a.eq(b) for b in cx.axioms):
                cx.axioms.append(a)
        import inspect
        if 'cx' in inspect.signature(self.statement).parameters:
            return self.statement(*args, cx=cx)
        return self.statement(*args)


def lemma(name, props=()):
    def deco(f):
        lem = Lemma(name, props)
        f(lem)
        LEMMAS[name] = lem
        return lem
    return deco
