"""Front ends: re-read the real source under /repo on every run and lower one function
to a Python `ast.FunctionDef` (+ C type table, + list of dropped constructs).

 .py  -> ast.parse, function selected by qualified name (nothing dropped)
 .pyx -> Cython's own parser, lowered to plain Python source (see Lower.DROPPED)
 .h   -> clang -ast-dump=json, lowered to plain Python source
"""
import ast
import hashlib
import json
import os
import subprocess
from functools import lru_cache

from .values import Unsupported

REPO = os.environ.get("VERIF_REPO", "/repo")
SRC = os.path.join(REPO, "src", "cutadapt")


class Extracted:
    def __init__(self, file, qualname, fn, ctypes, dropped, text, module_tree=None):
        self.file, self.qualname, self.fn = file, qualname, fn
        self.ctypes, self.dropped, self.text = ctypes, dropped, text
        self.sha256 = hashlib.sha256(text.encode()).hexdigest()
        self.module_tree = module_tree


@lru_cache(maxsize=None)
def _read(path):
    with open(path) as f:
        return f.read()


@lru_cache(maxsize=None)
def py_module(file):
    src = _read(os.path.join(SRC, file))
    return src, ast.parse(src)


def find_py(tree, qualname):
    node = tree
    parts = qualname.split(".")
    for i, p in enumerate(parts):
        found = None
        for st in node.body:
            if isinstance(st, (ast.FunctionDef, ast.ClassDef)) and st.name == p:
                found = st          # last definition wins, as in Python
        if found is None:
            return None
        node = found
    return node


def extract_py(file, qualname):
    src, tree = py_module(file)
    fn = find_py(tree, qualname)
    if fn is None or not isinstance(fn, ast.FunctionDef):
        raise Unsupported(f"function {qualname} not found in {file}")
    text = ast.get_source_segment(src, fn) or ast.unparse(fn)
    return Extracted(file, qualname, fn, {}, [], text, tree)


# ----------------------------------------------------------------------------- Cython

class Lower:
    DROPPED = ("cimport / cdef extern lines; cdef declarations (types kept in the C type table, "
               "initialisers kept as assignments); with nogil/gil (flattened); sizeof; f-string "
               "contents of error messages; docstrings")

    def __init__(self):
        self.types = {}
        self.dropped = []
        self.func = None
        self.linemap = []

    def e(self, n):
        k = type(n).__name__
        m = getattr(self, "e_" + k, None)
        if m is None:
            raise Unsupported(f"Cython expression {k} at line {n.pos[1]}")
        return m(n)

    def e_NameNode(self, n): return str(n.name)
    def e_IntNode(self, n): return str(n.value).rstrip("ULul") or "0"
    def e_FloatNode(self, n): return str(n.value)
    def e_BoolNode(self, n): return "True" if n.value else "False"
    def e_NoneNode(self, n): return "None"
    def e_NullNode(self, n): return "__NULL__"
    def e_UnicodeNode(self, n): return repr(str(n.value))
    def e_StringNode(self, n): return repr(str(n.value))

    def e_BytesNode(self, n):
        v = n.value
        return repr(bytes(v, "latin-1") if isinstance(v, str) else bytes(v))

    def e_CharNode(self, n): return str(ord(str(n.value))) if len(str(n.value)) == 1 else repr(n.value)
    def e_IdentifierStringNode(self, n): return repr(str(n.value))
    def e_AttributeNode(self, n): return f"{self.e(n.obj)}.{n.attribute}"
    def e_IndexNode(self, n): return f"{self.e(n.base)}[{self.e(n.index)}]"

    def e_SliceIndexNode(self, n):
        a = self.e(n.start) if n.start is not None else ""
        b = self.e(n.stop) if n.stop is not None else ""
        return f"{self.e(n.base)}[{a}:{b}]"

    def e_SliceNode(self, n):
        f = lambda x: "" if type(x).__name__ == "NoneNode" else self.e(x)
        return f"{f(n.start)}:{f(n.stop)}:{f(n.step)}"

    def e_TupleNode(self, n):
        return "(" + ", ".join(self.e(a) for a in n.args) + (",)" if len(n.args) == 1 else ")")

    def e_ListNode(self, n): return "[" + ", ".join(self.e(a) for a in n.args) + "]"

    def e_SimpleCallNode(self, n):
        return f"{self.e(n.function)}(" + ", ".join(self.e(a) for a in n.args) + ")"

    def e_GeneralCallNode(self, n):
        pos = [self.e(a) for a in n.positional_args.args]
        kw = []
        if n.keyword_args is not None:
            for item in n.keyword_args.key_value_pairs:
                kw.append(f"{item.key.value}={self.e(item.value)}")
        return f"{self.e(n.function)}(" + ", ".join(pos + kw) + ")"

    def e_TypecastNode(self, n):
        t, _ = self.ctype(n.base_type, n.declarator)
        return f"__cast__({t!r}, {self.e(n.operand)})"

    def e_NotNode(self, n): return f"(not {self.e(n.operand)})"
    def e_UnaryMinusNode(self, n): return f"(-{self.e(n.operand)})"
    def e_TildeNode(self, n): return f"(~{self.e(n.operand)})"
    def e_AmpersandNode(self, n): return f"__addr__({self.e(n.operand)})"
    def e_BoolBinopNode(self, n): return f"({self.e(n.operand1)} {n.operator} {self.e(n.operand2)})"

    def e_CondExprNode(self, n):
        test = getattr(n, "test", None) or getattr(n, "condition", None)
        return f"({self.e(n.true_val)} if {self.e(test)} else {self.e(n.false_val)})"

    def e_PrimaryCmpNode(self, n):
        s = f"{self.e(n.operand1)} {self.op(n.operator)} {self.e(n.operand2)}"
        c = n.cascade
        while c is not None:
            s += f" {self.op(c.operator)} {self.e(c.operand2)}"
            c = c.cascade
        return f"({s})"

    def op(self, o): return {"not_in": "not in", "is_not": "is not"}.get(o, o)
    def binop(self, n): return f"({self.e(n.operand1)} {n.operator} {self.e(n.operand2)})"
    e_AddNode = e_SubNode = e_MulNode = e_DivNode = e_IntBinopNode = e_ModNode = binop
    e_PowNode = binop
    def e_SizeofTypeNode(self, n): return "__sizeof__()"
    def e_SizeofVarNode(self, n): return "__sizeof__()"
    def e_JoinedStrNode(self, n): return "__fstring__()"
    def e_FormattedValueNode(self, n): return "__fstring__()"

    def ctype(self, base, decl):
        b = getattr(base, "name", None)
        if b is None and hasattr(base, "base_type"):
            b = "const " + str(getattr(base.base_type, "name", "?"))
        if getattr(base, "signed", 1) == 0:
            b = "unsigned " + str(b)
        d = decl
        stars = ""
        while type(d).__name__ == "CPtrDeclaratorNode":
            stars += "*"
            d = d.base
        return f"{b}{stars}", getattr(d, "name", None)

    def emit(self, out, line, n):
        out.append(line)
        self.linemap.append(n.pos[1] if n is not None and getattr(n, "pos", None) else 0)

    def s(self, n, ind, out):
        k = type(n).__name__
        m = getattr(self, "s_" + k, None)
        if m is None:
            raise Unsupported(f"Cython statement {k} at line {n.pos[1]}")
        m(n, ind, out)

    def s_StatListNode(self, n, ind, out):
        before = len(out)
        for st in n.stats:
            self.s(st, ind, out)
        if len(out) == before:
            self.emit(out, ind + "pass", n)

    def s_PassStatNode(self, n, ind, out): self.emit(out, ind + "pass", n)

    def s_CVarDefNode(self, n, ind, out):
        for d in n.declarators:
            t, name = self.ctype(n.base_type, d)
            self.types[(self.func, str(name))] = t
            dd = d
            while type(dd).__name__ == "CPtrDeclaratorNode":
                dd = dd.base
            if getattr(dd, "default", None) is not None:
                self.emit(out, f"{ind}{name} = {self.e(dd.default)}", n)
        self.dropped.append((n.pos[1], "cdef declaration (type kept in table)"))

    def s_SingleAssignmentNode(self, n, ind, out):
        self.emit(out, f"{ind}{self.e(n.lhs)} = {self.e(n.rhs)}", n)

    def s_CascadedAssignmentNode(self, n, ind, out):
        lhs = " = ".join(self.e(l) for l in n.lhs_list)
        self.emit(out, f"{ind}{lhs} = {self.e(n.rhs)}", n)

    def s_ParallelAssignmentNode(self, n, ind, out):
        for st in n.stats:
            self.s(st, ind, out)

    def s_InPlaceAssignmentNode(self, n, ind, out):
        self.emit(out, f"{ind}{self.e(n.lhs)} {n.operator}= {self.e(n.rhs)}", n)

    def s_ExprStatNode(self, n, ind, out):
        if type(n.expr).__name__ in ("UnicodeNode", "StringNode", "BytesNode"):
            self.dropped.append((n.pos[1], "docstring"))
            return
        self.emit(out, ind + self.e(n.expr), n)

    def s_ReturnStatNode(self, n, ind, out):
        self.emit(out, ind + "return" + (" " + self.e(n.value) if n.value is not None else ""), n)

    def s_BreakStatNode(self, n, ind, out): self.emit(out, ind + "break", n)
    def s_ContinueStatNode(self, n, ind, out): self.emit(out, ind + "continue", n)

    def s_RaiseStatNode(self, n, ind, out):
        exc = n.exc_type
        if exc is None:
            self.emit(out, f"{ind}raise", n)
            return
        name = self.e(exc.function) if type(exc).__name__ in ("SimpleCallNode", "GeneralCallNode") else self.e(exc)
        self.emit(out, f"{ind}raise {name}()", n)

    def s_AssertStatNode(self, n, ind, out):
        cond = getattr(n, "condition", None) or n.cond
        self.emit(out, f"{ind}assert {self.e(cond)}", n)

    def s_IfStatNode(self, n, ind, out):
        for i, c in enumerate(n.if_clauses):
            self.emit(out, f"{ind}{'if' if i == 0 else 'elif'} {self.e(c.condition)}:", c)
            self.s(c.body, ind + "    ", out)
        if n.else_clause is not None:
            self.emit(out, ind + "else:", n)
            self.s(n.else_clause, ind + "    ", out)

    def s_ForInStatNode(self, n, ind, out):
        it = n.iterator.sequence
        self.emit(out, f"{ind}for {self.e(n.target)} in {self.e(it)}:", n)
        self.s(n.body, ind + "    ", out)
        if n.else_clause is not None:
            raise Unsupported(f"for-else at line {n.pos[1]}")

    def s_WhileStatNode(self, n, ind, out):
        self.emit(out, f"{ind}while {self.e(n.condition)}:", n)
        self.s(n.body, ind + "    ", out)

    def s_GILStatNode(self, n, ind, out):
        self.dropped.append((n.pos[1], f"with {n.state}: block flattened"))
        self.s(n.body, ind, out)

    def s_DefNode(self, n, ind, out):
        prev = self.func
        self.func = (prev + "." if prev else "") + str(n.name)
        args = []
        for a in n.args:
            t, name = self.ctype(a.base_type, a.declarator)
            if name is None or name == "":
                name = t
                t = "object"
            self.types[(self.func, str(name))] = t
            args.append(str(name) + (f"={self.e(a.default)}" if a.default is not None else ""))
        if n.star_arg is not None or n.starstar_arg is not None:
            raise Unsupported(f"*args/**kwargs in {n.name}")
        self.emit(out, f"{ind}def {n.name}({', '.join(args)}):", n)
        self.s(n.body, ind + "    ", out)
        self.func = prev

    s_CFuncDefNode = None


def _lower_cfunc(L, n, ind, out):
    """cdef function: name and args live in the declarator."""
    d = n.declarator
    while type(d).__name__ != "CFuncDeclaratorNode":
        d = d.base
    name = d.base.name
    prev = L.func
    L.func = (prev + "." if prev else "") + str(name)
    args = []
    for a in d.args:
        t, an = L.ctype(a.base_type, a.declarator)
        if an is None or an == "":
            an = t
            t = "object"
        L.types[(L.func, str(an))] = t
        args.append(str(an))
    L.emit(out, f"{ind}def {name}({', '.join(args)}):", n)
    L.s(n.body, ind + "    ", out)
    L.func = prev


Lower.s_CFuncDefNode = lambda self, n, ind, out: _lower_cfunc(self, n, ind, out)


@lru_cache(maxsize=None)
def pyx_tree(file):
    from Cython.Compiler.TreeFragment import parse_from_strings
    src = _read(os.path.join(SRC, file))
    return src, parse_from_strings("m", src)


def _cfunc_name(n):
    d = n.declarator
    while type(d).__name__ != "CFuncDeclaratorNode":
        d = d.base
    return d.base.name


def extract_pyx(file, qualname):
    src, tree = pyx_tree(file)
    L = Lower()

    def find(node, parts, prefix):
        stats = getattr(node, "stats", None)
        if stats is None:
            stats = [node]
        for st in stats:
            k = type(st).__name__
            if k == "DefNode" and st.name == parts[0] and len(parts) == 1:
                return st, prefix
            if k == "CFuncDefNode" and _cfunc_name(st) == parts[0] and len(parts) == 1:
                return st, prefix
            if k == "CClassDefNode" and st.class_name == parts[0]:
                return find(st.body, parts[1:], prefix + st.class_name + ".")
            if k == "PyClassDefNode" and st.name == parts[0]:
                return find(st.body, parts[1:], prefix + st.name + ".")
        return None, None

    fn, prefix = find(tree.body, qualname.split("."), "")
    if fn is None:
        raise Unsupported(f"function {qualname} not found in {file}")
    out = []
    L.func = prefix.rstrip(".") or None
    L.s(fn, "", out)
    text = "\n".join(out)
    mod = ast.parse(text)
    f = mod.body[0]
    for node in ast.walk(f):
        if hasattr(node, "lineno"):
            ln = node.lineno
            if 1 <= ln <= len(L.linemap) and L.linemap[ln - 1]:
                node.lineno = L.linemap[ln - 1]
    # struct definitions (cdef struct) are needed for struct arrays
    structs = {}
    for st in tree.body.stats:
        if type(st).__name__ == "CStructOrUnionDefNode":
            structs[st.name] = [d.name for a in st.attributes for d in a.declarators]
        if type(st).__name__ == "CTypeDefNode":
            pass
    ex = Extracted(file, qualname, f, dict(L.types), L.dropped, text)
    ex.structs = structs
    return ex


# ----------------------------------------------------------------------------- C header

class CLower:
    DROPPED = "#include lines, `static inline`, declarations without initialiser"

    def __init__(self):
        self.types = {}

    def ty(self, n):
        return n.get("type", {}).get("qualType", "")

    def E(self, n):
        k = n["kind"]
        inner = n.get("inner", [])
        if k in ("ImplicitCastExpr", "ParenExpr"):
            e = self.E(inner[0])
            t = self.ty(n)
            if n.get("castKind") == "IntegralCast" and t in ("uint8_t", "unsigned char"):
                return f"__u8__({e})"
            return e
        if k == "CStyleCastExpr":
            return self.E(inner[0])
        if k == "DeclRefExpr":
            return n["referencedDecl"]["name"]
        if k == "IntegerLiteral":
            return n["value"]
        if k == "FloatingLiteral":
            return n["value"]
        if k == "BinaryOperator":
            op = n["opcode"]
            l, r = self.E(inner[0]), self.E(inner[1])
            if op == "||":
                return f"({l} or {r})"
            if op == "&&":
                return f"({l} and {r})"
            if op == "=":
                raise Unsupported("C assignment expression")
            return f"({l} {op} {r})"
        if k == "UnaryOperator":
            op = n["opcode"]
            e = self.E(inner[0])
            if op == "*":
                return f"__index__({e}, 0)"
            if op == "-":
                return f"(-{e})"
            if op == "!":
                return f"(not {e})"
            raise Unsupported(f"C unary operator {op}")
        if k == "ArraySubscriptExpr":
            return f"__index__({self.E(inner[0])}, {self.E(inner[1])})"
        raise Unsupported(f"C expression kind {k}")

    def S(self, n, ind, out):
        k = n["kind"]
        inner = n.get("inner", [])
        if k == "CompoundStmt":
            if not inner:
                out.append(ind + "pass")
            for c in inner:
                self.S(c, ind, out)
        elif k == "DeclStmt":
            for v in inner:
                self.types[v["name"]] = self.ty(v)
                if v.get("inner"):
                    out.append(f"{ind}{v['name']} = {self.E(v['inner'][0])}")
        elif k == "WhileStmt":
            out.append(f"{ind}while {self.E(inner[0])}:")
            self.S(inner[1], ind + "    ", out)
        elif k == "IfStmt":
            out.append(f"{ind}if {self.E(inner[0])}:")
            self.S(inner[1], ind + "    ", out)
            if len(inner) > 2:
                out.append(ind + "else:")
                self.S(inner[2], ind + "    ", out)
        elif k == "ReturnStmt":
            out.append(f"{ind}return {self.E(inner[0])}")
        elif k == "CompoundAssignOperator":
            out.append(f"{ind}{self.E(inner[0])} {n['opcode']} {self.E(inner[1])}")
        elif k == "BinaryOperator" and n.get("opcode") == "=":
            out.append(f"{ind}{self.E(inner[0])} = {self.E(inner[1])}")
        else:
            raise Unsupported(f"C statement kind {k}")


@lru_cache(maxsize=None)
def c_ast(file):
    path = os.path.join(SRC, file)
    r = subprocess.run(["clang", "-Xclang", "-ast-dump=json", "-fsyntax-only", "-x", "c", path],
                       capture_output=True, text=True)
    if not r.stdout:
        raise Unsupported(f"clang could not parse {file}: {r.stderr[:300]}")
    return json.loads(r.stdout)


def extract_c(file, qualname):
    d = c_ast(file)

    def find(n):
        if n.get("kind") == "FunctionDecl" and n.get("name") == qualname and any(
                c.get("kind") == "CompoundStmt" for c in n.get("inner", [])):
            return n
        for c in n.get("inner", []):
            r = find(c)
            if r:
                return r
        return None

    f = find(d)
    if f is None:
        raise Unsupported(f"C function {qualname} not found in {file}")
    L = CLower()
    params = []
    for c in f["inner"]:
        if c["kind"] == "ParmVarDecl":
            params.append(c["name"])
            L.types[c["name"]] = L.ty(c)
    out = [f"def {qualname}({', '.join(params)}):"]
    L.S([c for c in f["inner"] if c["kind"] == "CompoundStmt"][0], "    ", out)
    text = "\n".join(out)
    fn = ast.parse(text).body[0]
    ex = Extracted(file, qualname, fn, {(qualname, k): v for k, v in L.types.items()}, [(0, CLower.DROPPED)], text)
    return ex


def c_global_array(file, name):
    """Initialiser list of a global array (the expected-error table), as Python floats' source text."""
    d = c_ast(file)

    def find(n):
        if n.get("kind") == "VarDecl" and n.get("name") == name:
            return n
        for c in n.get("inner", []):
            r = find(c)
            if r:
                return r
        return None

    v = find(d)
    if v is None:
        raise Unsupported(f"C global {name} not found")
    vals = []

    def walk(n):
        if n.get("kind") == "FloatingLiteral":
            vals.append(n["value"])
        for c in n.get("inner", []):
            walk(c)

    walk(v)
    return vals


def extract(file, qualname):
    if file.endswith(".pyx"):
        return extract_pyx(file, qualname)
    if file.endswith(".h"):
        return extract_c(file, qualname)
    return extract_py(file, qualname)


# ----------------------------------------------------------------------------- class index

def build_class_index():
    """Class hierarchy and method table of all .py modules (for dispatch and inlining)."""
    classes = {}
    for fn in sorted(os.listdir(SRC)):
        if not fn.endswith(".py"):
            continue
        try:
            _, tree = py_module(fn)
        except SyntaxError:
            continue
        for st in tree.body:
            if isinstance(st, ast.ClassDef):
                bases = []
                for b in st.bases:
                    if isinstance(b, ast.Name):
                        bases.append(b.id)
                    elif isinstance(b, ast.Attribute):
                        bases.append(b.attr)
                methods = {m.name: m for m in st.body if isinstance(m, ast.FunctionDef)}
                classes[st.name] = {"file": fn, "bases": bases, "methods": methods, "node": st}
    # cdef classes of the .pyx modules: names, bases and method names only (their methods are reached through contracts)
    for fn in sorted(os.listdir(SRC)):
        if not fn.endswith(".pyx"):
            continue
        try:
            _, tree = pyx_tree(fn)
        except Exception:
            continue
        for st in (getattr(tree.body, "stats", None) or [tree.body]):
            if type(st).__name__ == "CClassDefNode":
                bases = [str(getattr(b, "name", "")) for b in (st.bases.args if getattr(st, "bases", None) is not None else [])]
                methods = {}
                for m in getattr(st.body, "stats", []):
                    if type(m).__name__ == "DefNode":
                        methods[str(m.name)] = None
                classes.setdefault(str(st.class_name), {"file": fn, "bases": [b for b in bases if b], "methods": methods,
                                                        "node": ast.ClassDef(name=str(st.class_name), bases=[], keywords=[], body=[], decorator_list=[])})
    return classes
