"""State, obligations and per-function verification context."""
import z3
from .values import *  # noqa


class CArr:
    """C pointer: (array or dict of field arrays for struct arrays, length, offset)."""
    __slots__ = ("arr", "n", "off", "name")

    def __init__(self, arr, n, off=None, name="ptr"):
        self.arr, self.n, self.off, self.name = arr, n, (z3.IntVal(0) if off is None else off), name


class St:
    """env: variable -> value; pc: all facts of the path; dec: the branch decisions among them
    (merge guards are built from decisions only, facts become guarded implications)."""
    __slots__ = ("env", "pc", "dec")

    def __init__(self, env, pc, dec=()):
        self.env, self.pc, self.dec = dict(env), list(pc), list(dec)

    def copy(self):
        return St(self.env, self.pc, self.dec)

    def decide(self, cond):
        self.pc.append(cond)
        self.dec.append(cond)

    def mark(self):
        return (len(self.pc), len(self.dec))


class Obl:
    def __init__(self, fn, label, kind, hyps, goal, line=0, guards=()):
        self.fn, self.label, self.kind = fn, label, kind
        self.hyps, self.goal, self.line = list(hyps) + list(guards), goal, line
        self.path = 0
        self.status = None
        self.solver = None
        self.time = 0.0
        self.reason = ""
        self.model = None

    @property
    def kind_id(self):
        return f"{self.fn}:{self.label}"

    @property
    def oid(self):
        return f"{self.fn}:{self.label}#{self.path}"


class FnCtx:
    """Everything that belongs to the verification of one function."""

    def __init__(self, contract, ex):
        self.c, self.ex = contract, ex
        self.fn = contract.name
        self.obls = []
        self.spec = {}              # name -> python callable over values
        self.axioms = []            # z3 formulas (definitions of spec functions, trusted axioms)
        self.axiom_labels = []
        self.entry = None           # entry state (for old())
        self.loop_ids = {}
        self.pending = []           # (cond, exc name) raised by calls inside the current statement
        self.guards = []            # short-circuit guards during expression evaluation
        self.specs_done = set()
        self.inlined = set()
        self.used_contracts = set()
        self.trusted = list(contract.trusted)
        self.depth = 0
        self.covers = []            # (label, pc) reachability queries
        self.ghost_count = 0

    def oblige(self, label, kind, st, goal, line=0):
        if isinstance(goal, bool):
            goal = z3.BoolVal(goal)
        o = Obl(self.fn, label, kind, st.pc, goal, line, self.guards)
        o.path = sum(1 for x in self.obls if x.label == label)
        self.obls.append(o)
        return o
