"""Driver: contract + real source -> obligations."""
import ast
import copy
import z3

from .values import *  # noqa
from .state import St, FnCtx, CArr, Obl
from . import api, frontends
from .stmts import ExecS, Outcome
from .calls import _call_method
from .world import World, char_axioms

ExecS.call_method = lambda self, base, attr, args, kwargs, st, node, spec, after=None: \
    _call_method(self, base, attr, args, kwargs, st, node, spec, after)


def _first_line(s):
    return ast.unparse(s).splitlines()[0].strip()


def loops_of(fnode):
    loops = [x for x in ast.walk(fnode) if isinstance(x, (ast.For, ast.While))]
    loops.sort(key=lambda x: (x.lineno, x.col_offset))
    return loops


def insert_ghosts(fnode, ghosts, fnname):
    """Insert ghost statements before/after the statement whose first source line equals the anchor."""
    for g in ghosts:
        code = ast.parse(g["code"]).body
        for st in code:
            for x in ast.walk(st):
                x._ghost = False
            st._ghost = True
        if g.get("at_start"):
            for st in code:
                ast.copy_location(st, fnode.body[0])
                for x in ast.walk(st):
                    if not hasattr(x, "lineno"):
                        ast.copy_location(x, fnode.body[0])
            fnode.body[0:0] = code
            continue
        anchor = (g["before"] or g["after"]).strip()
        matches = []
        if anchor.startswith("loop:"):
            k = int(anchor.split(":")[1])
            ls = [x for x in loops_of(fnode) if not getattr(x, "_ghost", False)]
            if k > len(ls):
                raise AttachError(f"{fnname}: ghost anchor {anchor}: only {len(ls)} loops")
            target = ls[k - 1]
            for parent in ast.walk(fnode):
                for field in ("body", "orelse", "finalbody"):
                    lst = getattr(parent, field, None)
                    if isinstance(lst, list) and any(x is target for x in lst):
                        matches.append((target.lineno, target.col_offset, lst, target))
        for parent in ast.walk(fnode):
            for field in ("body", "orelse", "finalbody"):
                lst = getattr(parent, field, None)
                if isinstance(lst, list):
                    for i, st in enumerate(lst if not anchor.startswith("loop:") else []):
                        if isinstance(st, ast.stmt) and not getattr(st, "_ghost", False) and _first_line(st).rstrip(":") == anchor.rstrip(":"):
                            matches.append((st.lineno, st.col_offset, lst, st))
        matches.sort(key=lambda m: (m[0], m[1]))
        occ = g.get("occurrence")
        if not matches:
            raise AttachError(f"{fnname}: ghost anchor `{anchor}` not found")
        if occ is None:
            if len(matches) > 1:
                raise AttachError(f"{fnname}: ghost anchor `{anchor}` is ambiguous ({len(matches)} matches)")
            sel = [matches[0]]
        elif occ == "all":
            sel = matches
        else:
            if occ > len(matches):
                raise AttachError(f"{fnname}: ghost anchor `{anchor}` occurrence {occ} not found")
            sel = [matches[occ - 1]]
        for _, _, lst, st in sel:
            new = [copy.deepcopy(c) for c in code]
            for c in new:
                c._ghost = True
                for x in ast.walk(c):
                    ast.copy_location(x, st)
            i = lst.index(st)
            if g["before"]:
                lst[i:i] = new
            else:
                lst[i + 1:i + 1] = new


class VerifyCtx(FnCtx):
    def __init__(self, contract, ex):
        super().__init__(contract, ex)
        self.inline_cls = []
        self.cur_fn = contract.name
        self.used_lemmas = set()
        self.need_char_axioms = False
        self._count_fn = None
        self._loop_tables = {}

    def assert_ordinal(self, node):
        tab = self.__dict__.setdefault("_assert_tab", {})
        if id(node) not in tab:
            tab[id(node)] = f"{self.cur_fn}#{getattr(node, '_ordinal', 0)}" if self.depth else f"#{getattr(node, '_ordinal', 0)}"
        return tab[id(node)]

    def loop_table(self, name, fnode):
        if name not in self._loop_tables:
            tab = {}
            for k, node in enumerate(loops_of(fnode), 1):
                tab[id(node)] = f"{name}#{k}"
            self._loop_tables[name] = tab
        return self._loop_tables[name]

    def get_count_fn(self):
        """COUNT(arr, n, ch): number of positions < n holding ch (recurrence instantiated per array in use)."""
        if self._count_fn is None:
            from .world import COUNT
            seen = set()
            n = z3.Int("n!cnt")

            def f(a, k, c):
                key = (a.get_id(), c.get_id())
                if key not in seen:
                    seen.add(key)
                    self.axioms.append(COUNT(a, 0, c) == 0)
                    self.axioms.append(z3.ForAll([n], z3.Implies(n > 0, COUNT(a, n, c) == COUNT(a, n - 1, c) + z3.If(a[n - 1] == c, 1, 0)),
                                                 patterns=[COUNT(a, n, c)]))
                return COUNT(a, k, c)
            self._count_fn = f
            self.spec.setdefault("COUNT", f)
        return self._count_fn


_world = None


def world():
    global _world
    if _world is None:
        _world = World()
        from . import kwdict
        kwdict.install(_world)
    return _world


def frame_goal(a, b):
    """`b` (value of a parameter at a return) equals `a` (its value on entry); None if the shapes cannot be compared
    (the parameter was rebound to something else: not a mutation of the caller's object)."""
    from .engine import str_eq
    if a is b:
        return z3.BoolVal(True)
    if isinstance(a, Opt) and isinstance(b, Opt):
        inner = frame_goal(a.val, b.val)
        return None if inner is None else z3.And(a.none == b.none, z3.Implies(z3.Not(a.none), inner))
    if isinstance(a, Opt) and not isinstance(b, Opt) and b is not None:
        inner = frame_goal(a.val, b)      # narrowed by a None test
        return None if inner is None else z3.Implies(z3.Not(a.none), inner)
    if isinstance(a, ObjV) and isinstance(b, ObjV) and a.cls == b.cls:
        if "__id__" in a.fields and "__id__" in b.fields and a.fields["__id__"] is not b.fields["__id__"]:
            return None                   # a different object was bound to the name
        if "__origin__" in a.fields and getattr(b.fields.get("__origin__"), "v", None) != a.fields["__origin__"].v:
            return None                   # the name was re-bound to another object (a slice, a copy, a new record)
        cs = []
        for k_ in a.fields:
            if k_ == "__origin__":
                continue
            if k_ not in b.fields:
                return None
            g = frame_goal(a.fields[k_], b.fields[k_])
            if g is None:
                return None
            cs.append(g)
        return z3.And(*cs) if cs else z3.BoolVal(True)
    if isinstance(a, StrV) and isinstance(b, StrV):
        return str_eq(a, b)
    if isinstance(a, SeqV) and isinstance(b, SeqV):
        if a.arr is b.arr or a.arr.eq(b.arr):
            return a.n == b.n
        k = z3.Int("k!frame")
        return z3.And(a.n == b.n, z3.ForAll([k], z3.Implies(z3.And(0 <= k, k < a.n), a.arr[k] == b.arr[k])))
    if isinstance(a, MapV) and isinstance(b, MapV):
        return a.arr == b.arr
    if isinstance(a, DictIntV) and isinstance(b, DictIntV):
        return z3.And(a.has == b.has, a.val == b.val)
    if isinstance(a, (ListV, TupV)) and isinstance(b, (ListV, TupV)) and len(a.items) == len(b.items):
        cs = []
        for x, y in zip(a.items, b.items):
            if isinstance(a, ListV):
                (gx, x), (gy, y) = x, (y if isinstance(b, ListV) else (z3.BoolVal(True), y))
                cs.append(gx == gy)
            g = frame_goal(x, y)
            if g is None:
                return None
            cs.append(g)
        return z3.And(*cs) if cs else z3.BoolVal(True)
    if isinstance(a, PyConst) and isinstance(b, PyConst):
        return z3.BoolVal(a.v == b.v)
    if is_z3(a) and is_z3(b) and a.sort() == b.sort():
        return a == b
    if a is None and b is None:
        return z3.BoolVal(True)
    return None


def verify_function(c, mutate=None, canary=False):
    """Generate the obligations of one contract.  `mutate` rewrites the AST of the extracted
    function (mutation self-test); `canary` adds `ensures False` on every return."""
    w = world()
    ex_src = frontends.extract(c.file, c.qualname)
    fnode = copy.deepcopy(ex_src.fn)
    if mutate is not None:
        fnode = mutate(fnode)
    seg_from, seg_until = getattr(c, "body_from", None), getattr(c, "body_until", None)
    if seg_from or seg_until:
        # verify a segment of the function body (statements between two anchors); the variables live at its
        # start are parameters of the contract
        body = fnode.body
        lo, hi = 0, len(body)
        firsts = [_first_line(st_).rstrip(":") for st_ in body]
        if seg_from:
            if firsts.count(seg_from.rstrip(":")) != 1:
                raise AttachError(f"{c.name}: segment start `{seg_from}` not found exactly once at top level")
            lo = firsts.index(seg_from.rstrip(":"))
        if seg_until:
            if firsts.count(seg_until.rstrip(":")) != 1:
                raise AttachError(f"{c.name}: segment end `{seg_until}` not found exactly once at top level")
            hi = firsts.index(seg_until.rstrip(":"))
        fnode.body = body[lo:hi]
        fnode.args = ast.arguments(posonlyargs=[], args=[], kwonlyargs=[], kw_defaults=[], defaults=[])
    cx = VerifyCtx(c, ex_src)
    asserts = sorted([x for x in ast.walk(fnode) if isinstance(x, ast.Assert)], key=lambda x: (x.lineno, x.col_offset))
    for k_, a_ in enumerate(asserts, 1):
        a_._ordinal = k_
    insert_ghosts(fnode, c.ghosts, c.name)
    tab = {}
    for k, node in enumerate(loops_of(fnode), 1):
        tab[id(node)] = k
    cx.loop_ids = tab
    cx._loop_tables[c.name] = tab
    for k in c.loops:
        if isinstance(k, int) and k > len(tab):
            raise AttachError(f"{c.name}: contract has an invariant for loop {k}, code has {len(tab)} loops")
    X = ExecS(cx, w)
    w.ensure_specs(cx, c)
    # parameters
    inv = []
    env = {}
    a = fnode.args
    pnames = [x.arg for x in a.posonlyargs + a.args + a.kwonlyargs]
    if a.vararg:
        pnames.append(a.vararg.arg)
    if a.kwarg:
        pnames.append(a.kwarg.arg)
    init_self = getattr(c, "init_self", None)
    for p in pnames:
        if p == "self" and init_self is not None:
            continue
        if p not in c.params:
            raise AttachError(f"{c.name}: parameter {p} has no type in the contract")
        env[p] = api.mk(c.params[p], p, inv)
    for p, t in c.params.items():
        if p not in env:
            env[p] = api.mk(t, p, inv)       # ghost parameters
    for g_ in ("nwrites", "nfiltered", "nstat", "rc_total", "nprinted", "ncalls", "nconsumed"):
        env["$" + g_] = fresh("ghost." + g_, I)
        inv.append(env["$" + g_] >= 0)
    for g_ in ("w_writer", "w_rec1", "w_rec2", "tally", "tally_key"):
        env["$" + g_] = SeqV(fresh("ghost." + g_, AII), env["$nwrites"] if g_.startswith("w_") else fresh("ghost." + g_ + ".n", I), None)
    for g_ in getattr(c, "ghost_seqs", ()):
        # call log of the per-read driver loops: one entry per call, all of length $ncalls
        env["$" + g_] = SeqV(fresh("ghost." + g_, AII), env["$ncalls"], None)
    inv.append(env["$tally"].n >= 0)
    env["$tally_key"] = SeqV(env["$tally_key"].arr, env["$tally"].n, None)
    if any(isinstance(x, (ast.Yield, ast.YieldFrom)) for x in ast.walk(fnode)):
        env["__yielded__"] = ListV()
    # C locals: structs exist from the start; scalars are indeterminate until assigned (arbitrary values)
    structs = getattr(ex_src, "structs", {}) or {}
    for (fq, var), ct in (ex_src.ctypes or {}).items():
        if fq != ex_src.qualname or var in env:
            continue
        if ct in structs:
            env[var] = ObjV("__struct__", {f_: fresh(f"{var}.{f_}", I) for f_ in structs[ct]})
        elif ct in ("int", "Py_ssize_t", "ssize_t", "size_t", "long", "unsigned size_t"):
            env[var] = fresh(var + ".uninit", I)
    st = St(env, inv)
    if init_self is not None:
        from .calls import construct
        cls, argtypes = init_self
        kw = {k: api.mk(t, "init." + k, st.pc) for k, t in argtypes.items()}
        for k, v in kw.items():
            st.env["init_" + k] = v
        st.env["self"] = construct(X, cls, [], kw, st, fnode, False, real_init=True)
        if cx.pending:
            for cond, exc in cx.pending:
                st.pc.append(z3.Not(cond))
            cx.pending = []
    for lab, e in c._requires:
        st.pc.append(boolify(X.ev(e, st, True)))
    for p_ in c.params:
        v_ = st.env.get(p_)
        if isinstance(v_, ObjV) and v_.cls not in ("__kwdict__", "__kwargs__"):
            st.env[p_] = v_.with_field("__origin__", PyConst(("origin", p_)))
        elif isinstance(v_, Opt) and isinstance(v_.val, ObjV) and v_.val.cls not in ("__kwdict__", "__kwargs__"):
            st.env[p_] = Opt(v_.none, v_.val.with_field("__origin__", PyConst(("origin", p_))))
    cx.entry = st.copy()
    cx.covers.append(("entry", list(st.pc)))
    outs = X.ex_block(fnode.body, st)
    nret = 0
    for o in outs:
        if o.kind in ("normal", "return"):
            rst = o.st.copy()
            rst.env["result"] = o.val if o.kind == "return" else None
            if c.ret is not None and rst.env["result"] is not None:
                from . import heap
                rst.env["result"] = heap.coerce(rst.env["result"], c.ret, rst)
            elif isinstance(c.ret, api.OptT) and rst.env["result"] is None:
                # definitely None: give `val(result)` a (never used) value so that guarded clauses can be stated
                rst.env["result"] = Opt(z3.BoolVal(True), api.mk(c.ret.t, "result.unused", []))
            if "__yielded__" in rst.env and any(isinstance(x, (ast.Yield, ast.YieldFrom)) for x in ast.walk(fnode)):
                rst.env["result"] = rst.env["__yielded__"]
            cx.covers.append((f"return{nret}", list(rst.pc)))
            # in a postcondition a parameter of immutable type (number, string, optional of these) denotes the value
            # passed in, also when the body re-binds the name; objects denote their final state
            pst = rst.copy()
            for p_ in c.params:
                ev_ = cx.entry.env.get(p_)
                inner_ = ev_.val if isinstance(ev_, Opt) else ev_
                if p_ in pst.env and (is_z3(inner_) or isinstance(inner_, (StrV, PyConst))) and pst.env[p_] is not ev_:
                    pst.env[p_] = ev_
            for lab, e in c._ensures:
                try:
                    g = boolify(X.ev(e, pst, True))
                except (AttributeError, TypeError, Unsupported) as err:
                    e_ast = ast.parse(e, mode="eval") if isinstance(e, str) else e
                    mentions_result = any(isinstance(x, ast.Name) and x.id == "result" for x in ast.walk(e_ast))
                    if isinstance(err, SpecNoneDeref):
                        # the clause reads a field of a value that is None on this path: it cannot hold here
                        g = z3.BoolVal(False)
                    elif mentions_result and (rst.env["result"] is None or isinstance(rst.env["result"], Opt)):
                        # the contract speaks about a value, this path returns None: must be unreachable
                        g = z3.BoolVal(False)
                    else:
                        raise
                cx.oblige(f"post.{lab}", "post", rst, g, getattr(fnode, "lineno", 0))
            for exc, when in c._raises:
                if when is not None:
                    g = z3.Not(boolify(X.ev(when, cx.entry, True)))
                    cx.oblige(f"raises.{exc}.not_on_return", "raises", rst, g)
            # frame: an object passed in and not listed under `modifies` is the same afterwards
            for p_ in c.params:
                if p_ in c.modifies or p_ not in cx.entry.env or p_ not in rst.env:
                    continue
                old_v, new_v = cx.entry.env[p_], rst.env[p_]
                for m_ in c.modifies:
                    # `param.field` under modifies: that field is exempt, the rest of the object is framed
                    if m_.startswith(p_ + ".") and isinstance(old_v, ObjV) and isinstance(new_v, ObjV):
                        f_ = m_.split(".", 1)[1]
                        if f_ in new_v.fields:
                            old_v = old_v.with_field(f_, new_v.fields[f_])
                if not isinstance(old_v.val if isinstance(old_v, Opt) else old_v, (ObjV, SeqV, ListV, MapV, DictIntV)):
                    continue
                fg = frame_goal(old_v, new_v)
                if fg is not None:
                    cx.oblige(f"frame.{p_}", "frame", rst, fg, getattr(fnode, "lineno", 0))
            if canary:
                cx.oblige("canary.false_at_return", "canary", rst, z3.BoolVal(False))
            nret += 1
        elif o.kind == "raise":
            allowed = [(e, wh) for e, wh in c._raises if w.exc_matches(o.val, e)]
            if not allowed:
                cx.oblige(f"no_raise.{o.val}", "raise", o.st, z3.BoolVal(False))
            else:
                whens = [boolify(X.ev(wh, cx.entry, True)) for _, wh in allowed if wh is not None]
                if whens and len(whens) == len(allowed):
                    cx.oblige(f"raises.{o.val}.only_when", "raises", o.st, z3.Or(*whens))
        else:
            raise Unsupported(f"{o.kind} escaping {c.name}")
    if cx.need_char_axioms:
        cx.axioms += char_axioms()
    cx.nreturns = nret
    return cx
