"""Call handling: spec-level functions, contracts (modular), inlining, builtins."""
import ast
import z3

from .values import *  # noqa
from .state import St, CArr
from . import api
from .engine import zint, str_slice, str_concat, str_eq, slice_bounds


def _bind_args(fn_args, args, kwargs, defaults_eval, skip_self=False):
    """Bind positional/keyword values to the parameter names of an ast.arguments."""
    names = [a.arg for a in fn_args.posonlyargs + fn_args.args]
    if skip_self:
        names = names[1:]
    bound = {}
    if len(args) > len(names) and fn_args.vararg is None:
        raise Unsupported("too many positional arguments")
    for nme, v in zip(names, args):
        bound[nme] = v
    if fn_args.vararg is not None:
        bound[fn_args.vararg.arg] = TupV(args[len(names):])
    kwonly = [a.arg for a in fn_args.kwonlyargs]
    extra = {}
    for k, v in kwargs.items():
        if k in names or k in kwonly:
            bound[k] = v
        elif fn_args.kwarg is not None:
            extra[k] = v
        else:
            raise Unsupported(f"unexpected keyword argument {k}")
    if fn_args.kwarg is not None:
        bound[fn_args.kwarg.arg] = ObjV("__kwargs__", extra)
    # defaults
    pos_defaults = fn_args.defaults
    all_pos = [a.arg for a in fn_args.posonlyargs + fn_args.args]
    for nme, d in zip(all_pos[len(all_pos) - len(pos_defaults):], pos_defaults):
        if nme not in bound and not (skip_self and nme == all_pos[0]):
            bound[nme] = defaults_eval(d)
    for a, d in zip(fn_args.kwonlyargs, fn_args.kw_defaults):
        if a.arg not in bound and d is not None:
            bound[a.arg] = defaults_eval(d)
    missing = [nme for nme in names + kwonly if nme not in bound]
    if missing:
        raise Unsupported(f"missing arguments {missing}")
    return bound


def ev_call(ex, n, st, spec, b):
    f = n.func
    E = lambda x: ex.ev(x, st, spec, b)
    # ---- specification-level forms
    if isinstance(f, ast.Name):
        name = f.id
        if name == "forall" or name == "exists":
            v = z3.Int(f"{n.args[0].id}!q{next(_qc)}")
            lo, hi = zint(E(n.args[1])), zint(E(n.args[2]))
            body = boolify(ex.ev(n.args[3], st, True, {**b, n.args[0].id: v}))
            pats = []
            if len(n.args) > 4:
                pats = [ex.ev(n.args[4], st, True, {**b, n.args[0].id: v})]
            if name == "forall":
                return z3.ForAll([v], z3.Implies(z3.And(lo <= v, v < hi), body), patterns=pats)
            return z3.Exists([v], z3.And(lo <= v, v < hi, body))
        if name == "forallp":
            # forallp(v1, lo1, hi1, v2, lo2, hi2, ..., body, trigger)
            nv = (len(n.args) - 2) // 3
            names = [n.args[3 * k].id for k in range(nv)]
            vs = [z3.Int(f"{nm}!q{next(_qc)}") for nm in names]
            bb = dict(b)
            rng = []
            for k, (nm, v) in enumerate(zip(names, vs)):
                lo = zint(ex.ev(n.args[3 * k + 1], st, True, bb))
                hi = zint(ex.ev(n.args[3 * k + 2], st, True, bb))
                bb[nm] = v
                rng += [lo <= v, v < hi]
            body = boolify(ex.ev(n.args[-2], st, True, bb))
            trig = ex.ev(n.args[-1], st, True, bb)
            trigs = list(trig.items) if isinstance(trig, TupV) else [trig]
            pat = z3.MultiPattern(*trigs) if len(trigs) > 1 else trigs[0]
            return z3.ForAll(vs, z3.Implies(z3.And(*rng), body), patterns=[pat])
        if name == "implies":
            a_ = boolify(E(n.args[0]))
            if z3.is_false(z3.simplify(a_)):
                return z3.BoolVal(True)
            try:
                return z3.Implies(a_, boolify(_guarded(ex, n.args[1], st, spec, b, a_)))
            except SpecNoneDeref:
                # the consequent speaks about a field of something that is None on this path: it cannot hold there
                return z3.Not(a_)
        if name == "ite":
            return merge_val(boolify(E(n.args[0])), E(n.args[1]), E(n.args[2]))
        if name == "old":
            return ex.ev(n.args[0], ex.cx.entry if not st.env.get("__old_env__") else st.env["__old_env__"], True, b)
        if name in ("upper_code", "lower_code"):
            from .world import UPPER, LOWER
            ex.cx.need_char_axioms = True
            return (UPPER if name == "upper_code" else LOWER)(zint(E(n.args[0])))
        if name == "field":
            a_ = E(n.args[0])
            return a_.arr[n.args[1].value][a_.off + zint(E(n.args[2]))]
        if name == "off":
            return E(n.args[0]).off
        if name == "seq_eq":
            return str_eq(as_str(E(n.args[0])), as_str(E(n.args[1])))
        if name in ("tally_len", "tally_id", "tally_key", "rc_total"):
            t_ = st.env.get("$tally")
            if name == "rc_total":
                return st.env.get("$rc_total", z3.IntVal(0))
            if t_ is None:
                t_ = SeqV(z3.K(I, z3.IntVal(0)), z3.IntVal(0), None)
            if name == "tally_len":
                return t_.n
            k_ = st.env.get("$tally_key", t_)
            return (t_ if name == "tally_id" else k_).arr[zint(E(n.args[0]))]
        if name == "gcount":
            return st.env.get("$" + n.args[0].value, z3.IntVal(0))
        if name == "gs_len":
            g_ = st.env.get("$" + n.args[0].value)
            return g_.n if g_ is not None else z3.IntVal(0)
        if name == "gs_at":
            g_ = st.env.get("$" + n.args[0].value)
            if g_ is None:
                g_ = SeqV(z3.K(I, z3.IntVal(0)), z3.IntVal(0), None)
            return g_.arr[zint(E(n.args[1]))]
        if name == "nprinted":
            return st.env.get("$nprinted", z3.IntVal(0))
        if name == "cg":
            return st.env[f"{n.args[0].value}::{n.args[1].value}"]
        if name == "code":
            v_ = E(n.args[0])
            if isinstance(v_, CArr):
                return v_.arr[v_.off + zint(E(n.args[1]))]
            return as_str(v_).arr[zint(E(n.args[1]))]
        if name == "is_none":
            v = E(n.args[0])
            return z3.BoolVal(True) if v is None else (v.none if isinstance(v, Opt) else z3.BoolVal(False))
        if name == "val":
            v = E(n.args[0])
            return v.val if isinstance(v, Opt) else v
        if name == "__cast__":
            return ex.world.cast(ex, n.args[0].value if isinstance(n.args[0], ast.Constant) else n.args[0], E(n.args[1]), st, n, spec)
        if name in b and isinstance(b[name], FuncV):
            return call_value(ex, b[name], [E(a) for a in n.args], {k.arg: E(k.value) for k in n.keywords}, st, n, spec)
        sf = ex.cx.spec.get("__stateful__")
        if sf and name in sf:
            return sf[name](st, *[E(a) for a in n.args])
        if name in ex.cx.spec:
            return ex.cx.spec[name](*[E(a) for a in n.args])
        if name in st.env:
            fv = st.env[name]
            kws = {}
            for k in n.keywords:
                if k.arg is None:
                    v = E(k.value)
                    if isinstance(v, ObjV) and v.cls in ("__kwargs__", "__kwdict__"):
                        kws.update(v.fields)
                    else:
                        raise Unsupported("** argument")
                else:
                    kws[k.arg] = E(k.value)
            pos = []
            for a in n.args:
                if isinstance(a, ast.Starred):
                    v = E(a.value)
                    if isinstance(v, Opt):
                        v = v.val if spec else ex.need_not_none(v, st, n, "star-argument")
                    if isinstance(v, TupV):
                        pos += list(v.items)
                    elif isinstance(v, ListV) and all(z3.is_true(g) for g, _ in v.items):
                        pos += [i for _, i in v.items]
                    else:
                        raise Unsupported("star-argument of symbolic shape")
                else:
                    pos.append(E(a))
            return call_value(ex, fv, pos, kws, st, n, spec)
    if isinstance(f, ast.Name) and f.id == "sum" and n.args and isinstance(n.args[0], (ast.GeneratorExp, ast.ListComp)):
        n.args[0]._sum_context = True
    args = []
    for a in n.args:
        if isinstance(a, ast.Starred):
            v = E(a.value)
            if isinstance(v, Opt):
                v = v.val if spec else ex.need_not_none(v, st, n, "star-argument")
            if isinstance(v, TupV):
                args += list(v.items)
            elif isinstance(v, ListV) and all(z3.is_true(g) for g, _ in v.items):
                args += [i for _, i in v.items]
            elif isinstance(v, ListV):
                # guarded list: only abstract handlers can take it (kept as one opaque argument)
                args.append(ObjV("__starargs__", {"items": v}))
            else:
                raise Unsupported("star-argument of symbolic shape")
        else:
            args.append(E(a))
    kwargs = {}
    for k in n.keywords:
        if k.arg is None:
            v = E(k.value)
            if isinstance(v, ObjV) and v.cls in ("__kwargs__", "__kwdict__"):
                kwargs.update(v.fields)
            else:
                raise Unsupported("** argument")
        else:
            kwargs[k.arg] = E(k.value)
    if isinstance(f, ast.Name):
        return call_named(ex, f.id, args, kwargs, st, n, spec)
    if isinstance(f, ast.Attribute):
        # module-qualified function (re.compile, copy.copy ...)
        if isinstance(f.value, ast.Name) and f.value.id not in b and f.value.id not in st.env \
                and ex.world.lookup_global(f.value.id, ex.cx) is None:
            return call_named(ex, f.value.id + "." + f.attr, args, kwargs, st, n, spec)
        # super().method(...)
        if isinstance(f.value, ast.Call) and isinstance(f.value.func, ast.Name) and f.value.func.id == "super":
            selfv = st.env["self"]
            cur_cls = ex.cx.inline_cls[-1] if ex.cx.inline_cls else ex.cx.c.qualname.split(".")[0]
            res, new_self = ex.call_method(selfv, f.attr, args, kwargs, st, n, spec, after=cur_cls)
            if new_self is not None:
                st.env["self"] = new_self
            return res
        base = E(f.value)
        res, new_base = ex.call_method(base, f.attr, args, kwargs, st, n, spec)
        if new_base is not None and not spec:
            try:
                ex.assign(f.value, new_base, st, n)
            except Unsupported:
                if not isinstance(f.value, (ast.Name, ast.Attribute, ast.Subscript)):
                    pass   # temporary object: mutation is unobservable
                else:
                    raise
        return res
    fv = E(f)
    return call_value(ex, fv, args, kwargs, st, n, spec)


import itertools
_qc = itertools.count()


def _guarded(ex, node, st, spec, b, g):
    ex.cx.guards.append(g)
    try:
        return ex.ev(node, st, spec, b)
    finally:
        ex.cx.guards.pop()


def call_value(ex, fv, args, kwargs, st, node, spec, rebind_self=None):
    if isinstance(fv, ObjV):
        return _call_method(ex, fv, "__call__", args, kwargs, st, node, spec)[0]
    if isinstance(fv, ChoiceV):
        opts = [(g, v) for g, v in fv.options if ex.feasible(st, g)]
        if not opts:
            st.pc.append(z3.BoolVal(False))
            return None
        results = []
        for g, v in opts:
            sub = st.copy()
            sub.decide(g)
            r = call_value(ex, v, args, kwargs, sub, node, spec, rebind_self)
            results.append((g, r, sub))
        res = results[-1][1]
        for g, r, sub in reversed(results[:-1]):
            res = merge_val(g, r, res)
        merged = ex.merge_states(st.mark(), [sub for _, _, sub in results])
        st.env, st.pc, st.dec = merged.env, merged.pc, merged.dec
        return res
    if isinstance(fv, FuncV) and rebind_self is not None and fv.self_val is not None:
        res, _ = ex.call_method(rebind_self, fv.name, args, kwargs, st, node, spec)
        return res
    if isinstance(fv, ClsV):
        return construct(ex, fv.name, args, kwargs, st, node, spec)
    if isinstance(fv, FuncV):
        if fv.self_val is not None:
            res, _ = ex.call_method(fv.self_val, fv.name, args, kwargs, st, node, spec)
            return res
        if fv.extra is not None:
            fnode, binds = fv.extra
            if isinstance(fnode, ast.Lambda):
                bound = _bind_args(fnode.args, args, kwargs, lambda d: ex.ev(d, st, spec))
                return ex.ev(fnode.body, st, spec, {**(binds or {}), **bound})
            return inline_function(ex, fnode, None, args, kwargs, st, node, spec, name=fv.name, closure=st.env)[0]
        return call_named(ex, fv.name, args, kwargs, st, node, spec)
    if isinstance(fv, Opt):
        return call_value(ex, ex.need_not_none(fv, st, node), args, kwargs, st, node, spec)
    h = ex.world.call_handler(fv)
    if h is not None:
        return h(ex, st, fv, args, kwargs, node, spec)
    raise Unsupported(f"call of {fv!r} at line {getattr(node, 'lineno', '?')}")


def call_named(ex, name, args, kwargs, st, node, spec):
    w = ex.world
    c = w.contract_for(name, ex.cx)
    if c is not None:
        return apply_contract(ex, c, None, args, kwargs, st, node, spec)[0]
    if name in w.builtins:
        return w.builtins[name](ex, st, args, kwargs, node, spec)
    if name in w.classes:
        return construct(ex, name, args, kwargs, st, node, spec)
    fnode = w.find_function(name, ex.cx)
    if fnode is not None:
        return inline_function(ex, fnode, None, args, kwargs, st, node, spec, name=name)[0]
    raise Unsupported(f"call of unknown function {name!r} at line {getattr(node, 'lineno', '?')} in {ex.cx.fn}")


def construct(ex, cls, args, kwargs, st, node, spec, real_init=False):
    w = ex.world
    c = w.contract_for(cls + ".__init__", ex.cx) or w.contract_for(cls, ex.cx)
    if c is not None and c.qualname.endswith("__init__") is False and c.name == cls:
        return apply_contract(ex, c, None, args, kwargs, st, node, spec)[0]
    h = w.ctor_handler(cls)
    if h is not None and not real_init:
        return h(ex, st, args, kwargs, node, spec)
    obj = ObjV(cls, {"__cls__": z3.IntVal(w.cls_tag(cls)), "__id__": fresh(f"id.{cls}", I)})
    m = w.find_method(cls, "__init__")
    if c is not None:
        _, new_self = apply_contract(ex, c, obj, args, kwargs, st, node, spec)
        return new_self if new_self is not None else obj
    if m is None:
        if args or kwargs:
            raise Unsupported(f"constructor of {cls} without __init__")
        return obj
    mcls, fnode = m
    _, new_self = inline_function(ex, fnode, obj, args, kwargs, st, node, spec, name=f"{mcls}.__init__", cls=mcls)
    return new_self


def _call_method(ex, base, attr, args, kwargs, st, node, spec, after=None):
    """Returns (result, new_base or None)."""
    w = ex.world
    if isinstance(base, Opt):
        base = base.val if spec else ex.need_not_none(base, st, node, f".{attr}()")
    if base is None:
        ex.need_not_none(base, st, node, f".{attr}()")
    if isinstance(base, (StrV, PyConst)) and (isinstance(base, StrV) or isinstance(base.v, (str, bytes))):
        h = w.str_methods.get(attr)
        if h is None:
            raise Unsupported(f"str.{attr} at line {getattr(node, 'lineno', '?')}")
        if not spec:
            # an optional value passed where a string is needed: it must not be None here (obligation under the guards in
            # force, e.g. `if self._suffix and name.endswith(self._suffix)`)
            args = [ex.need_not_none(a, st, node, f"argument of str.{attr}") if isinstance(a, Opt) else a for a in args]
        return h(ex, st, as_str(base), args, kwargs, node, spec), None
    if isinstance(base, ListV):
        return w.list_method(ex, st, base, attr, args, kwargs, node, spec)
    if isinstance(base, (MapV, SeqV, TupV)):
        return w.container_method(ex, st, base, attr, args, kwargs, node, spec)
    if isinstance(base, ClsV):
        # classmethod / staticmethod / unbound call
        m = w.find_method(base.name, attr)
        if m is None:
            raise Unsupported(f"{base.name}.{attr}")
        mcls, fnode = m
        decos = [d.id for d in fnode.decorator_list if isinstance(d, ast.Name)]
        c = w.contract_for(f"{mcls}.{attr}", ex.cx)
        if "staticmethod" in decos:
            if c is not None:
                return apply_contract(ex, c, None, args, kwargs, st, node, spec)[0], None
            return inline_function(ex, fnode, None, args, kwargs, st, node, spec, name=f"{mcls}.{attr}", cls=mcls)[0], None
        if "classmethod" in decos:
            if c is not None:
                return apply_contract(ex, c, None, args, kwargs, st, node, spec)[0], None
            return inline_function(ex, fnode, base, args, kwargs, st, node, spec, name=f"{mcls}.{attr}", cls=mcls)[0], None
        # unbound: first argument is self
        res, ns = _call_method(ex, args[0], attr, args[1:], kwargs, st, node, spec)
        return res, None
    if isinstance(base, ObjV):
        # field holding a callable (instance-level rebinding)
        if attr in base.fields and isinstance(base.fields[attr], (ObjV, Opt)) and w.find_method(base.cls, attr) is None:
            # callable object stored in a field: obj.f(args) == obj.f.__call__(args)
            inner = base.fields[attr]
            if isinstance(inner, Opt):
                inner = ex.need_not_none(inner, st, node, f".{attr}()")
            res, new_inner = _call_method(ex, inner, "__call__", args, kwargs, st, node, spec)
            return res, (base.with_field(attr, new_inner) if new_inner is not None else None)
        if attr in base.fields and isinstance(base.fields[attr], (FuncV, ClsV, ChoiceV)):
            fv = base.fields[attr]
            if isinstance(fv, FuncV) and fv.extra is None and w.find_method(base.cls, fv.name):
                # instance-level rebinding (self.f = self.g): call g on the *current* object
                return _call_method(ex, base, fv.name, args, kwargs, st, node, spec)
            return call_value(ex, fv, args, kwargs, st, node, spec, rebind_self=base), None
        c0 = w.contract_for(f"{base.cls}.{attr}", ex.cx)
        if c0 is not None and getattr(c0, "covers_subclasses", False) and after is None:
            return apply_contract(ex, c0, base, args, kwargs, st, node, spec)
        h = w.method_handler(base.cls, attr)
        if h is not None and after is None:
            r = h(ex, st, base, args, kwargs, node, spec)
            return (r.value, r.new_base) if isinstance(r, Mut) else (r, None)
        # dynamic dispatch over the class tag
        tag = base.fields.get("__cls__")
        static = base.cls
        if tag is not None and z3.is_int_value(z3.simplify(tag)):
            static = w.cls_by_tag(z3.simplify(tag).as_long())
        elif tag is not None and after is None:
            alts = w.dispatch_targets(base.cls, attr)
            concrete_all = [c_ for c_ in w.subclasses(base.cls) if not w.is_abstract(c_)]
            covered = {c_ for _, cs in alts for c_ in cs}
            if len(alts) > 1 or (alts and any(c_ not in covered for c_ in concrete_all)):
                return dispatch_split(ex, base, tag, alts, attr, args, kwargs, st, node, spec)
        m = w.find_method(static, attr, after=after)
        if m is None:
            raise Unsupported(f"method {static}.{attr} at line {getattr(node, 'lineno', '?')} in {ex.cx.fn}")
        mcls, fnode = m
        c = w.contract_for(f"{mcls}.{attr}", ex.cx)
        is_static = fnode is not None and any(isinstance(d, ast.Name) and d.id == "staticmethod" for d in fnode.decorator_list)
        if is_static:
            if c is not None:
                return apply_contract(ex, c, None, args, kwargs, st, node, spec)[0], None
            return inline_function(ex, fnode, None, args, kwargs, st, node, spec, name=f"{mcls}.{attr}", cls=mcls)[0], None
        if c is not None:
            return apply_contract(ex, c, base, args, kwargs, st, node, spec)
        if fnode is None:
            raise Unsupported(f"{mcls}.{attr} is a Cython method without a contract")
        return inline_function(ex, fnode, base, args, kwargs, st, node, spec, name=f"{mcls}.{attr}", cls=mcls)
    raise Unsupported(f"method call .{attr} on {base!r} at line {getattr(node, 'lineno', '?')}")


class Mut:
    """Result of a method handler that also replaces the receiver."""
    def __init__(self, value, new_base):
        self.value, self.new_base = value, new_base


def dispatch_split(ex, base, tag, alts, attr, args, kwargs, st, node, spec):
    """alts: list of (defining class, [concrete class names])."""
    w = ex.world
    results = []
    if not spec:
        ex.oblige(f"has_method.{attr}", "dispatch", st,
                  z3.Or(*[tag == w.cls_tag(cn) for _, cs in alts for cn in cs]), node)
    for mcls, concrete in alts:
        cond = z3.Or(*[tag == w.cls_tag(cn) for cn in concrete])
        if not ex.feasible(st, cond):
            continue
        sub = st.copy()
        sub.decide(cond)
        b2 = ObjV(concrete[0] if len(concrete) == 1 else mcls, base.fields)
        m = w.find_method(mcls, attr)
        c = w.contract_for(f"{mcls}.{attr}", ex.cx)
        if c is not None:
            r, nb = apply_contract(ex, c, b2, args, kwargs, sub, node, spec)
        else:
            r, nb = inline_function(ex, m[1], b2, args, kwargs, sub, node, spec, name=f"{mcls}.{attr}", cls=mcls)
        results.append((cond, r, nb, sub))
    if not results:
        st.pc.append(z3.BoolVal(False))
        return None, None
    # merge
    res = results[-1][1]
    any_mod = any(r[2] is not None for r in results)
    nb = results[-1][2] or base
    extra = []
    for i, (cond, r, n2, sub) in enumerate(results):
        suf = [f_ for f_ in sub.pc[len(st.pc):] if not f_.eq(cond)]
        extra += [z3.Implies(cond, f_) for f_ in suf]
    for cond, r, n2, sub in reversed(results[:-1]):
        res = merge_val(cond, r, res)
        nb = merge_val(cond, n2 or base, nb)
    st.pc.append(z3.Or(*[c for c, _, _, _ in results]))
    st.pc += extra
    return res, (nb if any_mod else None)


def inline_function(ex, fnode, selfv, args, kwargs, st, node, spec, name="?", cls=None, closure=None):
    """Execute the callee's real body in place.  Returns (result, new_self)."""
    cx = ex.cx
    if cx.depth > 12:
        raise Unsupported(f"inlining depth exceeded at {name}")
    is_method = selfv is not None
    decos = [d.id for d in fnode.decorator_list if isinstance(d, ast.Name)]
    bound = _bind_args(fnode.args, args, kwargs, lambda d: ex.ev(d, st), skip_self=is_method)
    if any(isinstance(x, (ast.Yield, ast.YieldFrom)) for x in ast.walk(fnode)):
        bound["__yielded__"] = ListV()
        gen = True
    else:
        gen = False
    if closure is not None:
        bound = {**{k_: v_ for k_, v_ in closure.items() if not k_.startswith("__")}, **bound}
    sub = St(bound, st.pc, st.dec)
    for g_ in [k_ for k_ in st.env if k_.startswith("$")]:
        sub.env[g_] = st.env[g_]
    if is_method:
        sub.env[fnode.args.args[0].arg] = selfv
    cx.inlined.add(name)
    cx.depth += 1
    cx.inline_cls.append(cls)
    saved_loops = cx.loop_ids
    saved_fnname = cx.cur_fn
    cx.cur_fn = name
    cx.loop_ids = cx.loop_table(name, fnode)
    try:
        outs = ex.ex_block(fnode.body, sub)
    finally:
        cx.depth -= 1
        cx.inline_cls.pop()
        cx.loop_ids = saved_loops
        cx.cur_fn = saved_fnname
    finals = []
    mpc, mdec = st.mark()
    for o in outs:
        if o.kind in ("normal", "return"):
            val = o.val if o.kind == "return" else None
            if gen:
                val = o.st.env["__yielded__"]
            finals.append((o.st, val))
        elif o.kind == "raise":
            ds = o.st.dec[mdec:]
            cond = z3.And(*ds) if ds else z3.BoolVal(True)
            cx.pending.append((cond, o.val))
        else:
            raise Unsupported(f"{o.kind} escaping function {name}")
    if not finals:
        # always raises
        st.pc.append(z3.BoolVal(False))
        return None, None
    guards = []
    facts = []
    for s_, _ in finals:
        ds = s_.dec[mdec:]
        g = z3.And(*ds) if len(ds) > 1 else (ds[0] if ds else z3.BoolVal(True))
        guards.append(g)
        dids = {d.get_id() for d in ds}
        for f_ in s_.pc[mpc:]:
            if f_.get_id() not in dids:
                facts.append(f_ if not ds else z3.Implies(g, f_))
    res = finals[-1][1]
    sname = fnode.args.args[0].arg if is_method else None
    new_self = finals[-1][0].env.get(sname) if is_method else None
    for g, (s_, v) in zip(reversed(guards[:-1]), reversed(finals[:-1])):
        res = merge_val(g, v, res, name + ".result")
        if is_method:
            new_self = merge_val(g, s_.env.get(sname), new_self, name + ".self")
    # ghost state ($...) changed inside the callee flows back to the caller
    for gk in [k_ for k_ in finals[-1][0].env if k_.startswith("$")]:
        gv = finals[-1][0].env[gk]
        for g, (s_, v) in zip(reversed(guards[:-1]), reversed(finals[:-1])):
            gv = merge_val(g, s_.env.get(gk, gv), gv, gk)
        st.env[gk] = gv
    if len(finals) == 1:
        st.pc[:] = finals[0][0].pc
        st.dec[:] = finals[0][0].dec
    else:
        st.pc.append(z3.Or(*guards))
        st.pc += facts
    return res, new_self


def apply_contract(ex, c, selfv, args, kwargs, st, node, spec):
    """Modular call: assert pre, havoc, assume post.  Returns (result, new_self or None)."""
    cx = ex.cx
    w = ex.world
    cx.used_contracts.add(c.name)
    w.ensure_specs(cx, c)
    pnames = list(c.params)
    is_method = selfv is not None
    bound = {}
    if is_method:
        sname = pnames[0] if pnames and pnames[0] == "self" else "self"
        bound[sname] = selfv
        pnames = [p for p in pnames if p != sname]
    if len(args) > len(pnames):
        raise Unsupported(f"too many arguments for contract {c.name}")
    for p, v in zip(pnames, args):
        bound[p] = v
    for k, v in kwargs.items():
        if k not in pnames:
            raise Unsupported(f"unexpected keyword {k} for contract {c.name}")
        bound[k] = v
    for p in pnames:
        if p not in bound:
            if p in c.defaults:
                bound[p] = w.lift(c.defaults[p])
            else:
                raise Unsupported(f"missing argument {p} for contract {c.name}")
    for p_, v_ in list(bound.items()):
        t_ = c.params.get(p_)
        if isinstance(v_, ListV) and isinstance(t_, api.SeqT):
            from . import heap
            bound[p_] = heap.seq_from_list(v_, t_.elem, st)
            continue
        if isinstance(v_, Opt) and t_ is not None and not isinstance(t_, api.OptT) and not spec:
            bound[p_] = ex.need_not_none(v_, st, node, f"argument {p_} of {c.name}")
    pre = St(bound, st.pc, st.dec)
    sub_ex = ex
    saved_entry = cx.entry
    if not spec:
        for lab, e in c._requires:
            g = boolify(sub_ex.ev(e, pre, True))
            cx.oblige(f"call.{c.name}.{lab}", "call_pre", st, g, getattr(node, "lineno", 0))
    # raises (conditions in the pre-state)
    for exc, when in c._raises:
        cond = boolify(sub_ex.ev(when, pre, True)) if when is not None else fresh(f"raises.{c.name}.{exc}", B)
        if not spec:
            cx.pending.append((cond, exc))
            st.pc.append(z3.Not(cond))
    post = St(bound, st.pc, st.dec)
    inv = []
    for p in c.modifies:
        if p in post.env:
            post.env[p] = fresh_like(post.env[p], f"{c.name}.{p}.post")
            inv += shape_invariants(post.env[p])
        elif "." in p:
            # `param.field`: only that field of the object may change
            p0, f_ = p.split(".", 1)
            o_ = post.env.get(p0)
            if isinstance(o_, ObjV) and f_ in o_.fields:
                nv = fresh_like(o_.fields[f_], f"{c.name}.{p}.post")
                inv += shape_invariants(nv)
                post.env[p0] = o_.with_field(f_, nv)
    result = None
    if c.ret is not None:
        result = api.mk(c.ret, f"{c.name}.result", inv)
    post.env["result"] = result
    post.env["__old_env__"] = pre
    gres = getattr(c, "ghost_results", ())
    for gname in gres:
        sort = {"bool": B, "array": AII, "int": I}[gres[gname]] if isinstance(gres, dict) else I
        gv = fresh(f"{c.name}::{gname}", sort)
        post.env[gname] = gv
        st.env[f"{c.name}::{gname}"] = gv
    st.pc += inv
    for lab, e in c._ensures:
        st.pc.append(boolify(sub_ex.ev(e, post, True)))
    new_self = None
    mod_roots = {p.split(".", 1)[0] for p in c.modifies}
    if is_method and sname in mod_roots:
        new_self = post.env[sname]
    # write back modified non-self parameters
    wb = {}
    for p in sorted(mod_roots):
        if not (is_method and p == sname) and p in post.env:
            wb[p] = post.env[p]
    if wb and not spec:
        argnodes = list(getattr(node, "args", []))
        kwnodes = {k.arg: k.value for k in getattr(node, "keywords", [])}
        for p, v in wb.items():
            an = None
            if p in kwnodes:
                an = kwnodes[p]
            else:
                i = pnames.index(p)
                if i < len(argnodes):
                    an = argnodes[i]
            if an is None or not isinstance(an, (ast.Name, ast.Attribute, ast.Subscript)):
                continue
            ex.assign(an, v, st, node)
    return result, new_self


def ev_comprehension(ex, n, st, spec, b):
    if len(n.generators) != 1:
        raise Unsupported("nested comprehension")
    g = n.generators[0]
    kind, seq = ex.classify_iter(g.iter, st) if not b else _classify_with_binds(ex, g.iter, st, spec, b)
    h0 = ex.cx.spec.get("__comprehension_first__")
    if h0 is not None:
        r0 = h0(ex, n, st, spec, b, kind, seq)
        if r0 is not None:
            return r0
    if kind == "seq" and seq[0] == "plain" and not g.ifs and getattr(n, "_sum_context", False):
        return ("__gsum__", n, g, seq[1], dict(b))
    if kind == "seq" and seq[0] == "plain":
        # list built from a symbolic sequence: an opaque sequence of the same length (fewer with a filter);
        # its elements are unconstrained (over-approximation)
        n_ = seq[1].n
        if g.ifs:
            n2 = fresh("comp.n", I)
            st.pc.append(z3.And(0 <= n2, n2 <= n_))
            n_ = n2
        return SeqV(fresh("comp.arr", AII), n_, None)
    if kind == "range" and not g.ifs and isinstance(g.target, ast.Name) and not seq[2]:
        # [f(e) for e in range(lo, hi)] with symbolic bounds and a scalar element: the sequence of length max(hi - lo, 0)
        # whose t-th element is f(lo + t)
        lo, hi = seq[0], seq[1]
        e0 = fresh("comp." + g.target.id, I)
        bb = dict(b)
        bb[g.target.id] = e0
        sub = St(st.env, st.pc + [lo <= e0, e0 < hi], st.dec)
        mark = len(ex.cx.pending)
        v = ex.ev(n.elt, sub, spec, bb)
        if is_z3(v) and len(ex.cx.pending) == mark:
            t_ = z3.Int("t!rc")
            return SeqV(z3.Lambda([t_], lo + t_), z3.If(hi > lo, hi - lo, 0), lambda x, _v=v, _e=e0: z3.substitute(_v, (_e, x)))
        del ex.cx.pending[mark:]
    if kind != "items":
        h = ex.cx.spec.get("__comprehension__")
        if h is not None:
            r = h(ex, n, st, spec, b, kind, seq)
            if r is not None:
                return r
        raise Unsupported(f"comprehension over a symbolic sequence at line {getattr(n, 'lineno', '?')}")
    out = []
    for guard, item in seq:
        bb = dict(b)
        _bind_target(g.target, item, bb)
        cond = guard
        for c in g.ifs:
            cond = z3.And(cond, boolify(_guarded(ex, c, st, spec, bb, cond)))
        v = _guarded(ex, n.elt, st, spec, bb, cond)
        out.append((z3.simplify(cond), v))
    return ListV(out)


def _classify_with_binds(ex, it, st, spec, b):
    sub = St({**st.env, **b}, st.pc, st.dec)
    return ex.classify_iter(it, sub)


def _bind_target(t, v, bb):
    if isinstance(t, ast.Name):
        bb[t.id] = v
    elif isinstance(t, (ast.Tuple, ast.List)) and isinstance(v, TupV):
        for x, y in zip(t.elts, v.items):
            _bind_target(x, y, bb)
    else:
        raise Unsupported("comprehension target")
