import argparse
import json
import os
import sys
import traceback

from . import runner, native

PROPS = {}   # filled from contracts/props.py


def main():
    ap = argparse.ArgumentParser()
    ap.add_argument("pid")
    ap.add_argument("--tier", default=os.environ.get("VERIF_TIER", "quick"))
    ap.add_argument("--relock", action="store_true")
    ap.add_argument("--only", default=None)
    a = ap.parse_args()
    seed = int(os.environ.get("VERIF_SEED", "0") or 0)
    sys.path.insert(0, runner.VERIF)
    from contracts import props
    meta = props.PROPS[a.pid]
    only = a.only.split(",") if a.only else None
    try:
        res, kinds = runner.run_property(a.pid, a.tier, seed, relock=a.relock, only=only)
    except Exception:
        traceback.print_exc()
        print(f"CHECKER-ERROR[crash]: {a.pid}")
        sys.exit(3)
    if a.relock:
        path = os.path.join(runner.VERIF, "contracts", "LOCK.json")
        lock = json.load(open(path)) if os.path.exists(path) else {}
        bad = [o for cx in res.cxs for o in cx.obls if o.kind != "canary" and o.status != "unsat"]
        ks = {}
        for k, os_ in kinds.items():
            if all(o.status == "unsat" for o in os_):
                ks[k] = round(max(o.time for o in os_), 2)
        lock[a.pid] = {"kinds": ks}
        json.dump(lock, open(path, "w"), indent=0, sort_keys=True)
        print(f"locked {len(ks)} obligation kinds for {a.pid}; not discharged (not locked): {[o.oid for o in bad]}")
        for k, t in res.errors:
            print("ERROR", k, t)
        sys.exit(0)
    code = runner.finish(a.pid, a.tier, seed, res, kinds, meta["level"], meta.get("assumptions", []))
    sys.exit(code)


if __name__ == "__main__":
    main()
