"""dict with string keys from a statically known key set (`__kwdict__`): an ObjV whose fields are the keys; an
optional entry is an Opt whose `none` means "key absent".  Values stored in such dicts are never None themselves."""
import z3
from .values import *  # noqa


def _entry(d, key):
    """(absent, value or None)"""
    v = d.fields.get(key)
    if v is None:
        return z3.BoolVal(True), None
    if isinstance(v, Opt):
        return v.none, v.val
    return z3.BoolVal(False), v


def _key(ex, a):
    if isinstance(a, PyConst) and isinstance(a.v, str):
        return a.v
    raise Unsupported("dict key that is not a string constant")


def _pick(absent, val, default, name):
    absent = z3.simplify(absent)
    if val is None or z3.is_true(absent):
        return default
    if z3.is_false(absent):
        return val
    return merge_val(absent, default, val, name)


def install(world):
    from .calls import Mut

    def kd_copy(ex, st, d, args, kwargs, node, spec):
        return ObjV("__kwdict__", dict(d.fields))

    def kd_update(ex, st, d, args, kwargs, node, spec):
        o = args[0]
        if isinstance(o, Opt):
            o = ex.need_not_none(o, st, node, "dict.update")
        if not (isinstance(o, ObjV) and o.cls in ("__kwdict__", "__kwargs__")):
            raise Unsupported("dict.update with a non-dict")
        f = dict(d.fields)
        for k, v in o.fields.items():
            ab_o, val_o = _entry(o, k)
            ab_s, val_s = _entry(d, k)
            if val_s is None:
                f[k] = v
            elif z3.is_false(z3.simplify(ab_o)):
                f[k] = val_o
            else:
                f[k] = Opt(z3.And(ab_o, ab_s), merge_val(ab_o, val_s, val_o, "update." + k))
        return Mut(None, ObjV("__kwdict__", f))

    def kd_pop(ex, st, d, args, kwargs, node, spec):
        k = _key(ex, args[0])
        absent, val = _entry(d, k)
        if len(args) < 2:
            if not spec:
                ex.cx.pending.append((absent, "KeyError"))
            res = val
        else:
            res = _pick(absent, val, args[1], "pop." + k)
        f = dict(d.fields)
        f.pop(k, None)
        return Mut(res, ObjV("__kwdict__", f))

    def kd_get(ex, st, d, args, kwargs, node, spec):
        k = _key(ex, args[0])
        absent, val = _entry(d, k)
        default = args[1] if len(args) > 1 else None
        if default is None and val is not None and not z3.is_false(z3.simplify(absent)):
            return Opt(absent, val)
        return _pick(absent, val, default, "get." + k)

    def kd_getitem(ex, st, d, idx, node, spec):
        k = _key(ex, idx)
        absent, val = _entry(d, k)
        if not spec:
            ex.cx.pending.append((absent, "KeyError"))
        if val is None:
            raise Unsupported(f"dict has no key {k}")
        return val

    def kd_set(ex, st, d, idx, v, node):
        return ObjV("__kwdict__", {**d.fields, _key(ex, idx): v})

    for name, h in (("copy", kd_copy), ("update", kd_update), ("pop", kd_pop), ("get", kd_get), ("__getitem__", kd_getitem)):
        world.handlers[("__kwdict__", name)] = h
    world.handlers[("__kwdict__", "__setitem__")] = kd_set
