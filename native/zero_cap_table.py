"""Finite check: ZeroCapper(quality_base).zero_cap_trans maps every character below the base to the base and no other."""
import json
from cutadapt.modifiers import ZeroCapper

fails, cases = [], 0
for qb in range(0, 128):
    t = ZeroCapper(quality_base=qb).zero_cap_trans
    for c in range(128):
        cases += 1
        got = t.get(c, c)
        want = qb if c < qb else c
        if got != want:
            fails.append({"input": {"quality_base": qb, "char": c}, "failed": [f"table maps {c} to {got}, expected {want}"]})
print(json.dumps({"cases": cases, "failures": fails[:10]}))
