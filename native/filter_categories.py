"""Finite check (C04): every category in which a step can count a read is a category the report prints (report.FILTERS),
so that input = output + sum of reported categories can hold: all Predicate subclasses and the demultiplexers."""
import inspect
import json

import cutadapt.predicates as P
import cutadapt.steps as S
from cutadapt.report import FILTERS

fails, cases = [], 0
for name, cls in inspect.getmembers(P, inspect.isclass):
    if not issubclass(cls, P.Predicate) or cls is P.Predicate:
        continue
    cases += 1
    ident = cls.descriptive_identifier()
    if ident not in FILTERS:
        fails.append({"input": {"predicate": name}, "failed": [f"category {ident!r} of {name} is not printed by the report (report.FILTERS)"]})
for name, cls in inspect.getmembers(S, inspect.isclass):
    if issubclass(cls, S.HasFilterStatistics) and "Demultiplexer" in name:
        cases += 1
        try:
            ident = cls.descriptive_identifier(cls.__new__(cls))
        except Exception as e:   # noqa
            fails.append({"input": {"step": name}, "failed": [f"descriptive_identifier failed: {e!r}"]})
            continue
        if ident not in FILTERS:
            fails.append({"input": {"step": name}, "failed": [f"category {ident!r} of {name} is not printed by the report (report.FILTERS)"]})
print(json.dumps({"cases": cases, "failures": fails}))
