"""Bounded stand-in (C17, pipeline level): run the real command line with --info-file and compare every
row with the property.  Oracle for 'the middle field is the stretch that was aligned': the match is
recomputed through the API on the read as it reached adapter trimming.
stdin: {"seed", "count"}; stdout: JSON."""
import io
import json
import os
import random
import sys
import tempfile
import contextlib


def rc(s):
    return s[::-1].translate(str.maketrans("ACGTN", "TGCAN"))


def run(args):
    from cutadapt.cli import main
    with contextlib.redirect_stdout(io.StringIO()), contextlib.redirect_stderr(io.StringIO()):
        main(args)


def main():
    req = json.load(sys.stdin)
    rng = random.Random(req.get("seed", 0))
    n = req.get("count", 60)
    failures, cases, distinct, samples = [], 0, set(), []
    adapter = "ACGTACGTAC"
    for it in range(n):
        pre = rng.choice([[], ["-u", "3"], ["-u", "-3"], ["-q", "20"], ["-q", "20,20"], ["--nextseq-trim", "20"], ["-u", "5", "-u", "-2"]])
        extra = rng.choice([[], ["-n", "2"], ["--revcomp"], []])
        typ = rng.choice(["-a", "-g", "-b"])
        reads = []
        for k in range(6):
            body = "".join(rng.choice("ACGT") for _ in range(rng.randint(12, 30)))
            ad = adapter if rng.random() < 0.8 else ""
            if rng.random() < 0.3 and ad:
                i = rng.randrange(len(ad))
                ad = ad[:i] + rng.choice("ACGT") + ad[i + 1:]
            pos = rng.randint(0, len(body))
            seq = body[:pos] + ad + body[pos:]
            if rng.random() < 0.3:
                seq = rc(seq)
            qual = "".join(chr(33 + (rng.choice([2, 30, 35, 40]))) for _ in seq)
            reads.append((f"r{k}", seq, qual))
        with tempfile.TemporaryDirectory() as d:
            inp, out, info = os.path.join(d, "in.fq"), os.path.join(d, "out.fq"), os.path.join(d, "info.tsv")
            with open(inp, "w") as f:
                for nme, s, q in reads:
                    f.write(f"@{nme}\n{s}\n+\n{q}\n")
            args = pre + extra + [typ, adapter, "-o", out, "--info-file", info, inp]
            try:
                run(args)
            except SystemExit as e:
                if e.code not in (0, None):
                    continue
            rows = [l.rstrip("\n").split("\t") for l in open(info)]
        cases += 1
        key = " ".join(pre + extra + [typ])
        distinct.add(key)
        by = {}
        for r in rows:
            by.setdefault(r[0].split(" ")[0], []).append(r)
        bad = None
        bad_rc = False
        for nme, s, q in reads:
            rs = by.get(nme, [])
            if not rs:
                bad = f"{nme}: no row"
                break
            first = rs[0]
            if first[1] == "-1":
                continue
            is_rc = first[-1] == "1"
            whole = first[4] + first[5] + first[6]
            src = rc(s) if is_rc else s
            if whole != src:
                bad = f"{nme}: fields concatenate to {whole!r}, input read is {src!r}"
                break
            # the stretch that was aligned: recompute on the read as it reached the adapter stage
            from cutadapt.adapters import BackAdapter, FrontAdapter, AnywhereAdapter
            from cutadapt.modifiers import UnconditionalCutter, QualityTrimmer, NextseqQualityTrimmer
            from cutadapt.info import ModificationInfo
            from dnaio import SequenceRecord
            rec = SequenceRecord(nme, s, q)
            inf = ModificationInfo(rec)
            i = 0
            while i < len(pre):
                if pre[i] == "-u":
                    rec = UnconditionalCutter(int(pre[i + 1]))(rec, inf)
                elif pre[i] == "-q":
                    c = [int(x) for x in pre[i + 1].split(",")]
                    c = [0, c[0]] if len(c) == 1 else c
                    rec = QualityTrimmer(c[0], c[1])(rec, inf)
                elif pre[i] == "--nextseq-trim":
                    rec = NextseqQualityTrimmer(int(pre[i + 1]))(rec, inf)
                i += 2
            stage = rc(rec.sequence) if is_rc else rec.sequence
            cls = {"-a": BackAdapter, "-g": FrontAdapter, "-b": AnywhereAdapter}[typ]
            m = cls(adapter, max_errors=0.1, min_overlap=3).match_to(stage)
            if m is None:
                bad = f"{nme}: info file reports a match, recomputation on the stage read finds none"
                break
            aligned = stage[m.rstart:m.rstop]
            if first[5] != aligned or int(first[2]) != m.rstart or int(first[3]) != m.rstop:
                bad_rc = is_rc
                bad = (f"{nme}: middle field {first[5]!r} at [{first[2]},{first[3]}) is not the aligned stretch "
                       f"{aligned!r} at [{m.rstart},{m.rstop}) of the read that reached adapter trimming")
                break
        if len(samples) < 3:
            samples.append({"args": args[:-5], "rows": rows[:2]})
        if bad:
            failures.append({"input": {"options": pre + extra + [typ, adapter], "reads": reads}, "failed": [bad],
                             "five_prime_removal_before_adapters": any(
                                 (pre[j] == "-u" and int(pre[j + 1]) > 0) or (pre[j] == "-q" and "," in pre[j + 1])
                                 for j in range(0, len(pre), 2)) or (bad_rc and any(
                                 (pre[j] == "-u" and int(pre[j + 1]) < 0) or pre[j] in ("-q", "--nextseq-trim")
                                 for j in range(0, len(pre), 2)))})
    print(json.dumps({"cases": cases, "distinct_nontrivial": len(distinct), "failures": failures[:20], "samples": samples,
                      "bounds": "random command lines: one pre-adapter modification from {-u 3, -u -3, -q 20, -q 20,20, --nextseq-trim 20, -u 5 -u -2} x "
                                "{-, -n 2, --revcomp} x {-a,-g,-b} on 6 random reads of length 12..40"}))


if __name__ == "__main__":
    main()
