"""Bounded stand-in at the command-line level (never counted as proved): random command lines are run
in-process against the rebuilt real code and compared with oracles transcribed from the property
statements.  stdin: {"seed", "count", "props": [...]}.  Every failure is tagged with its property."""
import contextlib
import gzip
import io
import json
import os
import random
import sys
import tempfile


def run(args):
    from cutadapt.cli import main
    out, err = io.StringIO(), io.StringIO()
    code = 0
    with contextlib.redirect_stdout(out), contextlib.redirect_stderr(err):
        try:
            main([str(a) for a in args])
        except SystemExit as e:
            code = e.code or 0
        except BaseException as e:   # noqa
            code = f"{type(e).__name__}: {e}"
    return code, out.getvalue(), err.getvalue()


def read_records(path):
    if not os.path.exists(path):
        return None
    op = gzip.open if path.endswith(".gz") else open
    with op(path, "rt") as f:
        lines = f.read().split("\n")
    recs = []
    i = 0
    while i < len(lines):
        if lines[i].startswith("@") and i + 3 < len(lines) + 1:
            recs.append((lines[i][1:], lines[i + 1], lines[i + 3] if i + 3 < len(lines) else ""))
            i += 4
        elif lines[i].startswith(">"):
            recs.append((lines[i][1:], lines[i + 1] if i + 1 < len(lines) else "", None))
            i += 2
        else:
            i += 1
    return recs


A1, A2, A3 = "ACGTACGTAC", "TTGGCCAATT", "GATCGATCAA"


def make_reads(rng, n, tag):
    recs = []
    for i in range(n):
        L = rng.choice([0, 3, 8, 14, 20, 30])
        r = "".join(rng.choice("ACGT" if rng.random() < 0.7 else "ACGTN") for _ in range(L))
        if rng.random() < 0.6:
            pos = rng.randint(0, len(r))
            ad = rng.choice([A1, A2, A3])
            r = r[:pos] + ad[:rng.randint(4, 10)] + r[pos:]
        if rng.random() < 0.2:
            r = r + "A" * rng.randint(3, 9)
        q = "".join(rng.choice("#+5?I") for _ in r)
        recs.append((f"r{i} {tag}:{'Y' if rng.random() < 0.2 else 'N'}:0:1", r, q))
    return recs


def write_fastq(path, recs):
    op = gzip.open if path.endswith(".gz") else open
    with op(path, "wt") as f:
        for n_, s, q in recs:
            f.write(f"@{n_}\n{s}\n+\n{q}\n")


def ident(name):
    return name.split()[0]


class Case:
    def __init__(self, rng, d, paired):
        self.rng, self.d, self.paired = rng, d, paired
        self.r1 = make_reads(rng, 24, "1")
        self.r2 = make_reads(rng, 24, "2")
        write_fastq(os.path.join(d, "r1.fq"), self.r1)
        write_fastq(os.path.join(d, "r2.fq"), self.r2)

    def inputs(self):
        return [os.path.join(self.d, "r1.fq")] + ([os.path.join(self.d, "r2.fq")] if self.paired else [])


def modifier_opts(rng, paired):
    o = []
    if rng.random() < 0.8:
        o += ["-a", f"x={A1}"]
    if rng.random() < 0.4:
        o += ["-g", f"y={A2}"]
    if paired and rng.random() < 0.6:
        o += ["-A", f"u={A2}"]
    if rng.random() < 0.2:
        o += ["-b", f"w={A3}"]
    if rng.random() < 0.3:
        o += ["-u", str(rng.choice([2, -2, 5]))]
    if paired and rng.random() < 0.3:
        o += ["-U", str(rng.choice([1, -3]))]
    if rng.random() < 0.3:
        o += ["-q", rng.choice(["15", "10,20"])]
    if rng.random() < 0.15:
        o += ["--nextseq-trim", "20"]
    if rng.random() < 0.2:
        o += ["--poly-a"]
    if rng.random() < 0.2:
        o += ["-l", str(rng.choice([5, 12, -6]))]
    if rng.random() < 0.2:
        o += ["--trim-n"]
    if rng.random() < 0.15:
        o += ["-n", "2"]
    if rng.random() < 0.15:
        o += ["--action", rng.choice(["mask", "lowercase", "none", "retain", "trim"])]
    if rng.random() < 0.1 and "-n" not in o:
        o += ["--revcomp"]
    return o


def filter_opts(rng, paired, d):
    o = []
    if rng.random() < 0.45:
        o += ["-m", str(rng.randint(0, 15))]
    if rng.random() < 0.3:
        o += ["-M", str(rng.randint(10, 35))]
    if rng.random() < 0.3:
        o += ["--max-n", rng.choice(["0", "1", "0.2"])]
    if rng.random() < 0.3:
        o += ["--max-ee", rng.choice(["0.5", "2"])]
    if rng.random() < 0.3:
        o += ["--max-aer", rng.choice(["0.05", "0.2"])]
    if rng.random() < 0.2:
        o += ["--discard-casava"]
    if paired and rng.random() < 0.4:
        o += ["--pair-filter", rng.choice(["any", "both", "first"])]
    third = rng.choice([None, None, "--discard-trimmed", "--discard-untrimmed", "untrimmed-output"])
    if third == "untrimmed-output":
        o += ["--untrimmed-output", os.path.join(d, "u1.fq")] + (["--untrimmed-paired-output", os.path.join(d, "u2.fq")] if paired else [])
    elif third:
        o += [third]
    if "-m" in o and rng.random() < 0.4:
        o += ["--too-short-output", os.path.join(d, "s1.fq")] + (["--too-short-paired-output", os.path.join(d, "s2.fq")] if paired else [])
    if "-M" in o and rng.random() < 0.4:
        o += ["--too-long-output", os.path.join(d, "l1.fq")] + (["--too-long-paired-output", os.path.join(d, "l2.fq")] if paired else [])
    return o


def check_counts(case, opts, fails):
    """C04 / C05: report arithmetic, file contents, pair synchronisation."""
    d, paired = case.d, case.paired
    rep = os.path.join(d, "rep.json")
    outs = ["-o", os.path.join(d, "o1.fq")] + (["-p", os.path.join(d, "o2.fq")] if paired else [])
    args = opts + ["--json", rep] + outs + case.inputs()
    code, _, err = run(args)
    if code == 2:
        return False
    if code != 0:
        fails.append(("C04", args, f"exit status {code}: {err.strip().splitlines()[-1] if err.strip() else ''}"))
        return True
    rc = json.load(open(rep))["read_counts"]
    bp = json.load(open(rep))["basepair_counts"]
    filt = sum(v for v in rc["filtered"].values() if v)
    if rc["input"] != rc["output"] + filt:
        fails.append(("C04", args, f"input {rc['input']} != output {rc['output']} + reported filter categories {rc['filtered']}"))
    main1 = read_records(os.path.join(d, "o1.fq"))
    if rc["output"] != len(main1):
        fails.append(("C04", args, f"reported output {rc['output']} != records in the main output {len(main1)}"))
    if bp["output_read1"] != sum(len(r[1]) for r in main1):
        fails.append(("C04", args, "reported output_read1 bp differ from the file"))
    if rc["input"] != len(case.r1):
        fails.append(("C04", args, "reported input differs from the number of input reads"))
    # every read: exactly one file, or counted
    seen = {}
    for fn in ("o1.fq", "u1.fq", "s1.fq", "l1.fq"):
        for r in read_records(os.path.join(d, fn)) or []:
            seen[ident(r[0])] = seen.get(ident(r[0]), 0) + 1
    if any(v > 1 for v in seen.values()):
        fails.append(("C04", args, "a read was written to more than one file / twice"))
    redirected = sum(len(read_records(os.path.join(d, fn)) or []) for fn in ("u1.fq", "s1.fq", "l1.fq"))
    if len(seen) + (filt - redirected) != rc["input"]:
        fails.append(("C04", args, f"written {len(seen)} + discarded {filt - redirected} != input {rc['input']}"))
    if paired:
        for a, b in (("o1.fq", "o2.fq"), ("u1.fq", "u2.fq"), ("s1.fq", "s2.fq"), ("l1.fq", "l2.fq")):
            ra, rb = read_records(os.path.join(d, a)), read_records(os.path.join(d, b))
            if ra is None and rb is None:
                continue
            if ra is None or rb is None or [ident(x[0]) for x in ra] != [ident(x[0]) for x in rb]:
                fails.append(("C05", args, f"{a} and {b} are not synchronised"))
    return True


def check_demux(case, opts, fails):
    """C15 (+C04): files per adapter name, routing by last match, multiset equals the main output."""
    d, paired, rng = case.d, case.paired, case.rng
    names = ["x", "y"]
    ad = ["-g", f"x={A1}", "-g", f"y={A2}"]
    n2 = []
    if paired and rng.random() < 0.5:
        # one to three adapters for R2, so that the numbers of R1 and R2 adapters also differ
        n2 = rng.choice([["p"], ["p", "q"], ["p", "q"], ["p", "q", "s"]])
        for nm, sq in zip(n2, (A3, A2, "CCGGAATTCC")):
            ad += ["-A", f"{nm}={sq}"]
        combinatorial = rng.random() < 0.6
    else:
        combinatorial = False
    third = rng.choice([None, None, "--discard-untrimmed"])
    extra = [third] if third else []
    rep = os.path.join(d, "rep.json")
    if combinatorial:
        outs = ["-o", os.path.join(d, "dm_{name1}_{name2}.1.fq"), "-p", os.path.join(d, "dm_{name1}_{name2}.2.fq")]
    else:
        outs = ["-o", os.path.join(d, "dm_{name}.1.fq")] + (["-p", os.path.join(d, "dm_{name}.2.fq")] if paired else [])
    args = ad + opts + extra + ["--json", rep] + outs + case.inputs()
    code, _, err = run(args)
    if code == 2:
        return False
    if code != 0:
        fails.append(("C15" if "Assertion" not in str(code) else "C04", args, f"exit status {code}: {err.strip().splitlines()[-1] if err.strip() else ''}"))
        return True
    rc = json.load(open(rep))["read_counts"]
    filt = sum(v for v in rc["filtered"].values() if v)
    files = sorted(f for f in os.listdir(d) if f.startswith("dm_") and f.endswith(".1.fq"))
    if combinatorial:
        expect = {f"dm_{a}_{b}.1.fq" for a in names for b in n2}
        if not third:
            expect |= {"dm_unknown_unknown.1.fq"} | {f"dm_unknown_{b}.1.fq" for b in n2} | {f"dm_{a}_unknown.1.fq" for a in names}
    else:
        expect = {f"dm_{a}.1.fq" for a in names} | (set() if third else {"dm_unknown.1.fq"})
    if set(files) != expect:
        fails.append(("C15", args, f"created files {files} != expected {sorted(expect)}"))
    total = 0
    allrecs = []
    for f in files:
        rs = read_records(os.path.join(d, f))
        total += len(rs)
        allrecs += rs
        if paired:
            rs2 = read_records(os.path.join(d, f.replace(".1.fq", ".2.fq")))
            if rs2 is None or [ident(x[0]) for x in rs] != [ident(x[0]) for x in rs2]:
                fails.append(("C05", args, f"demultiplexed pair files {f} not synchronised"))
    if rc["output"] != total:
        fails.append(("C04", args, f"reported output {rc['output']} != records in demultiplexed files {total}"))
    if rc["input"] != rc["output"] + filt:
        fails.append(("C04", args, f"input {rc['input']} != output {rc['output']} + reported filter categories {rc['filtered']}"))
    # routing by the last match: compare with {adapter_name} renaming in a plain run
    plain = os.path.join(d, "plain.1.fq")
    args2 = ad + opts + ["--rename", "{id} {adapter_name}", "-o", plain] + (["-p", os.path.join(d, "plain.2.fq")] if paired else []) + case.inputs()
    code2, _, _ = run(args2)
    if code2 == 0 and not combinatorial:
        want = {}
        for r in read_records(plain):
            want[ident(r[0])] = r[0].split()[1]
        for f in files:
            nm = f[len("dm_"):-len(".1.fq")]
            for r in read_records(os.path.join(d, f)):
                w = want.get(ident(r[0]))
                w = "unknown" if w == "no_adapter" else w
                if w != nm:
                    fails.append(("C15", args, f"read {ident(r[0])} with last match {w} is in file {f}"))
                    break
        if not third:
            a = sorted((ident(r[0]), r[1]) for r in allrecs)
            b = sorted((ident(r[0]), r[1]) for r in read_records(plain))
            if a != b:
                fails.append(("C15", args, "records over all demultiplexed files differ from the main output without demultiplexing"))
    return True


def check_cores(case, opts, fails):
    """C06 / C19: -j N against -j 1: main output, every redirect file (too short / too long / untrimmed) and the info, rest
    and wildcard files byte-identical, JSON report identical apart from the core count; output name suffixes."""
    d, paired, rng = case.d, case.paired, case.rng
    suffix = rng.choice([".fq", ".fastq", ".fasta", ".fa", ".fq.gz", ".fasta.gz"])
    side_names = ["s1.fq", "s2.fq", "l1.fq", "l2.fq", "u1.fq", "u2.fq", "info.txt", "rest.txt", "wild.txt"]
    extra = []
    if rng.random() < 0.4:
        extra += ["--info-file", os.path.join(d, "info.txt")]
    if rng.random() < 0.2:
        extra += ["--rest-file", os.path.join(d, "rest.txt")]
    if rng.random() < 0.2:
        extra += ["--wildcard-file", os.path.join(d, "wild.txt")]
    res = {}
    for cores in (1, rng.choice([2, 3])):
        o1 = os.path.join(d, f"c{cores}.1{suffix}")
        outs = ["-o", o1] + (["-p", os.path.join(d, f"c{cores}.2{suffix}")] if paired else [])
        rep = os.path.join(d, f"rep{cores}.json")
        # a small buffer makes several chunks of the 24 reads, so that the merge of per-chunk results is exercised
        args = ["-j", cores, "--buffer-size", rng.choice([700, 1500, 4000000])] + opts + extra + ["--json", rep] + outs + case.inputs()
        code, _, err = run(args)
        if code == 2:
            return False
        if code != 0:
            fails.append(("C06", args, f"exit status {code}: {err.strip().splitlines()[-1] if err.strip() else ''}"))
            return True
        js = json.load(open(rep))
        for k in ("cores", "command_line_arguments", "cutadapt_version", "python_version", "wall_time_seconds"):
            js.pop(k, None)
        raw = (gzip.open(o1, "rb") if o1.endswith(".gz") else open(o1, "rb")).read()
        raw2 = b""
        if paired:
            o2 = os.path.join(d, f"c{cores}.2{suffix}")
            raw2 = (gzip.open(o2, "rb") if o2.endswith(".gz") else open(o2, "rb")).read()
        side = {}
        for nme in side_names:
            pth = os.path.join(d, nme)
            if os.path.exists(pth):
                side[nme] = open(pth, "rb").read()
                os.unlink(pth)
        res[cores] = (raw, js, args, raw2, side)
        fmt = "fasta" if suffix in (".fasta", ".fa", ".fasta.gz", ".fa.gz") else "fastq"
        first = raw[:1]
        if raw and ((fmt == "fasta") != (first == b">")):
            fails.append(("C19", args, f"output named *{suffix} was written as {'FASTA' if first == b'>' else 'FASTQ'}",
                          {"suffix": suffix, "cores": cores}))
    (c1, cN) = sorted(res)
    if res[c1][0] != res[cN][0] or res[c1][3] != res[cN][3]:
        fails.append(("C06", res[cN][2], f"output with -j {cN} differs from -j 1", {"suffix": suffix, "cores": cN}))
    if res[c1][1] != res[cN][1]:
        fails.append(("C06", res[cN][2], f"JSON report with -j {cN} differs from -j 1"))
    for nme in sorted(set(res[c1][4]) | set(res[cN][4])):
        if res[c1][4].get(nme) != res[cN][4].get(nme):
            fails.append(("C06", res[cN][2], f"file {nme} with -j {cN} differs from -j 1"))
            break
    return True


def check_layout(case, opts, fails):
    """C19: gzip input, interleaved input/output give the same records."""
    d, paired, rng = case.d, case.paired, case.rng
    base = os.path.join(d, "b1.fq")
    args = opts + ["-o", base] + (["-p", os.path.join(d, "b2.fq")] if paired else []) + case.inputs()
    code, _, _ = run(args)
    if code != 0:
        return False
    ref1 = read_records(base)
    ref2 = read_records(os.path.join(d, "b2.fq")) if paired else None
    # gzip input + gzip output
    write_fastq(os.path.join(d, "r1.fq.gz"), case.r1)
    write_fastq(os.path.join(d, "r2.fq.gz"), case.r2)
    ins = [os.path.join(d, "r1.fq.gz")] + ([os.path.join(d, "r2.fq.gz")] if paired else [])
    args2 = opts + ["-o", os.path.join(d, "z1.fq.gz")] + (["-p", os.path.join(d, "z2.fq.gz")] if paired else []) + ins
    code, _, err = run(args2)
    if code != 0 or read_records(os.path.join(d, "z1.fq.gz")) != ref1:
        fails.append(("C19", args2, "gzip input/output gives different records"))
    if paired:
        inter = os.path.join(d, "inter.fq")
        recs = []
        for a, b in zip(case.r1, case.r2):
            recs += [a, b]
        write_fastq(inter, recs)
        args3 = opts + ["--interleaved", "-o", os.path.join(d, "io.fq"), inter]
        code, _, err = run(args3)
        got = read_records(os.path.join(d, "io.fq")) if code == 0 else None
        want = []
        for a, b in zip(ref1, ref2):
            want += [a, b]
        if got != want:
            fails.append(("C19", args3, "interleaved input/output gives different records"))
    return True


def check_formats(case, opts, fails):
    """C19: with several output files in one run, the format of each is determined by its own name (or falls back to
    the input format), whatever the other outputs are called and in whatever order they are opened."""
    d, paired, rng = case.d, case.paired, case.rng
    sufs = [".fq", ".fastq", ".fasta", ".fa", ".fq.gz", ".fasta.gz", ".fa.gz", ".txt", ".out.gz"]
    fasta_in = rng.random() < 0.3
    if fasta_in:
        ins = []
        for k, recs in ((1, case.r1), (2, case.r2)):
            pth = os.path.join(d, f"in{k}.fasta")
            with open(pth, "w") as f:
                for name, seq, _ in recs:
                    f.write(f">{name}\n{seq}\n")
            ins.append(pth)
        ins = ins[:2 if paired else 1]
        opts = [o for o in opts if o not in ("-q", "15", "10,20", "--nextseq-trim", "20")]
    else:
        ins = case.inputs()
    outs = {}
    args = list(opts) + ["-m", "12", "-M", "30"]
    FAM = {"fasta": [".fasta", ".fa", ".fasta.gz", ".fa.gz"], "fastq": [".fq", ".fastq", ".fq.gz"], "none": [".txt", ".out.gz"]}
    fam_of = {}
    def out(opt, key):
        # the two files of one pair go through one writer with one format: their names agree in format (they may
        # differ in spelling and compression); mixed-format pairs are outside what the property describes
        pair = key[:-1]
        fam = fam_of.setdefault(pair, rng.choice(sorted(FAM)))
        pth = os.path.join(d, key + rng.choice(FAM[fam]))
        outs[key] = pth
        return [opt, pth]
    if rng.random() < 0.7:
        args += out("--too-short-output", "short1")
        if paired:
            args += out("--too-short-paired-output", "short2")
    if rng.random() < 0.5:
        args += out("--too-long-output", "long1")
        if paired:
            args += out("--too-long-paired-output", "long2")
    if rng.random() < 0.5:
        args += out("--untrimmed-output", "untr1")
        if paired:
            args += out("--untrimmed-paired-output", "untr2")
    args += out("-o", "main1")
    if paired:
        args += out("-p", "main2")
    if "-a" not in args:
        args = ["-a", f"x={A1}"] + args
    args = ["-j", rng.choice([1, 1, 2])] + args + ins
    code, _, err = run(args)
    if code != 0:
        return False
    for key, pth in outs.items():
        raw = (gzip.open(pth, "rb") if pth.endswith(".gz") else open(pth, "rb")).read()
        if not raw:
            continue
        stem = pth[:-3] if pth.endswith(".gz") else pth
        want = "fasta" if stem.endswith((".fasta", ".fa")) else "fastq" if stem.endswith((".fq", ".fastq")) else \
            ("fasta" if fasta_in else "fastq")
        got = "fasta" if raw[:1] == b">" else "fastq"
        if want != got:
            fails.append(("C19", args, f"output {os.path.basename(pth)} ({'FASTA' if fasta_in else 'FASTQ'} input) was written as {got.upper()}, "
                                       f"its own name asks for {want.upper()}", {"file": os.path.basename(pth)}))
    return True


COMP = str.maketrans("ACGTNacgtn", "TGCANtgcan")


def check_slices(case, opts, fails):
    """C03: every written read is a contiguous slice of the input read (of its reverse complement when ' rc' was appended,
    of the mate when paired --revcomp swapped the pair) with the same slice of the qualities; the only base changes are N
    (mask) and lower case, and sequence and qualities have equal length."""
    d, paired, rng = case.d, case.paired, case.rng
    o1 = os.path.join(d, "sl1.fq")
    outs = ["-o", o1] + (["-p", os.path.join(d, "sl2.fq")] if paired else [])
    args = [x for x in opts if x != "--zero-cap"] + outs + case.inputs()
    code, _, err = run(args)
    if code != 0:
        return False
    src = {}
    for recs in (case.r1, case.r2 if paired else []):
        for name, seq, qual in recs:
            src.setdefault(ident(name), []).append((seq, qual))
    for path in [o1] + ([os.path.join(d, "sl2.fq")] if paired else []):
        for name, seq, qual in read_records(path) or []:
            rid = ident(name)
            if len(seq) != len(qual):
                fails.append(("C03", args, f"read {rid}: sequence and qualities differ in length ({len(seq)} / {len(qual)})"))
                return True
            ok = False
            for s0, q0 in src.get(rid, []):
                for cand_s, cand_q in ((s0, q0), (s0.translate(COMP)[::-1], q0[::-1])):
                    for off in range(0, len(cand_s) - len(seq) + 1):
                        if cand_q[off:off + len(seq)] != qual:
                            continue
                        part = cand_s[off:off + len(seq)]
                        if all(a.upper() == b.upper() or a == "N" for a, b in zip(seq, part)):
                            ok = True
                            break
                    if ok:
                        break
                if ok:
                    break
            if not ok:
                fails.append(("C03", args, f"read {rid}: written sequence {seq!r} / qualities {qual!r} is not a slice of the input read "
                                           f"(nor of its reverse complement / its mate) with at most N-masking and lower-casing"))
                return True
    return True


def check_fasta_input(case, opts, fails):
    """C19: FASTA input gives the same names and sequences as FASTQ input when no quality-based option is used."""
    d, paired, rng = case.d, case.paired, case.rng
    quality_based = {"-q", "--nextseq-trim", "--max-ee", "--max-aer", "--zero-cap"}
    o = []
    skip = False
    for x in opts:
        if skip:
            skip = False
            continue
        if x in quality_based:
            skip = x != "--zero-cap"
            continue
        o.append(x)
    fa = []
    for k, recs in ((1, case.r1), (2, case.r2)):
        pth = os.path.join(d, f"fa{k}.fasta")
        with open(pth, "w") as f:
            for name, seq, _ in recs:
                f.write(f">{name}\n{seq}\n")
        fa.append(pth)
    res = []
    for tag, ins in (("q", case.inputs()), ("a", fa[:2 if paired else 1])):
        o1 = os.path.join(d, f"fi_{tag}.1.fasta")
        outs = ["-o", o1] + (["-p", os.path.join(d, f"fi_{tag}.2.fasta")] if paired else [])
        code, _, err = run(o + outs + ins)
        if code != 0:
            return False
        res.append([[(r[0], r[1]) for r in read_records(pth)] for pth in ([o1] + ([os.path.join(d, f"fi_{tag}.2.fasta")] if paired else []))])
    if res[0] != res[1]:
        fails.append(("C19", o + ["<fastq vs fasta input>"], "names / sequences differ between FASTQ input and the same reads as FASTA input"))
    return True


def check_stdout(case, opts, fails):
    """C19: standard output has no name: FASTA exactly when --fasta is given, otherwise the input format (single-end and
    paired-end interleaved)."""
    paired, rng = case.paired, case.rng
    fasta = rng.random() < 0.6
    args = list(opts) + (["--fasta"] if fasta else []) + (["--interleaved"] if False else [])
    if paired:
        d = case.d
        inter = os.path.join(d, "stdin_inter.fq")
        recs = []
        for a, b in zip(case.r1, case.r2):
            recs += [a, b]
        write_fastq(inter, recs)
        args = [x for x in args] + ["--interleaved", inter]
    else:
        args = args + case.inputs()
    import subprocess
    r = subprocess.run([sys.executable, "-m", "cutadapt"] + [str(a) for a in args], capture_output=True, text=True, timeout=300)
    if r.returncode != 0:
        return False
    body = r.stdout.lstrip()
    if body and ((body[0] == ">") != fasta):
        fails.append(("C19", args, f"standard output is {'FASTA' if body[0] == '>' else 'FASTQ'} although --fasta was {'given' if fasta else 'not given'} (FASTQ input)"))
    return True


def check_order(case, fails):
    """C10: option order on the command line does not matter; steps compose in the documented order."""
    d, paired, rng = case.d, case.paired, case.rng
    groups = [["-u", "3"], ["-q", "15"], ["-a", A1], ["-l", "14"], ["--trim-n"], ["--poly-a"], ["--nextseq-trim", "18"],
              ["--length-tag", "len="], ["-y", " suff"], ["--zero-cap"]]
    if paired:
        groups += [["-U", "2"], ["-A", A2], ["-Q", "20"], ["-L", "11"]]
    chosen = [g for g in groups if rng.random() < 0.5]
    # name options: --strip-suffix (the generated headers end in ":0:1"), and --rename instead of -y (they exclude each other)
    if rng.random() < 0.5:
        chosen.append(["--strip-suffix", ":1"])
    if ["-y", " suff"] not in chosen and rng.random() < 0.6:
        chosen.append(["--rename", "{header} cp={cut_prefix} m={match_sequence}"])
    outs = []
    for k in range(2):
        order = chosen[:]
        if k:
            rng.shuffle(order)
        o1 = os.path.join(d, f"ord{k}.1.fq")
        args = [x for g in order for x in g] + ["-o", o1] + (["-p", os.path.join(d, f"ord{k}.2.fq")] if paired else []) + case.inputs()
        code, _, err = run(args)
        if code != 0:
            return False
        outs.append((read_records(o1), read_records(os.path.join(d, f"ord{k}.2.fq")) if paired else None, args))
    if outs[0][:2] != outs[1][:2]:
        fails.append(("C10", outs[1][2], "a different order of options gives a different result"))
    # composition through the API in the documented order (R1 only)
    from cutadapt.modifiers import (UnconditionalCutter, QualityTrimmer, NextseqQualityTrimmer, AdapterCutter, PolyATrimmer, Shortener, NEndTrimmer,
                                    LengthTagModifier, PrefixSuffixAdder)
    from cutadapt.adapters import BackAdapter
    from cutadapt.info import ModificationInfo
    from dnaio import SequenceRecord
    flat = [x for g in chosen for x in g]
    mods = []
    if "-u" in flat:
        mods.append(UnconditionalCutter(3))
    if "--nextseq-trim" in flat:
        mods.append(NextseqQualityTrimmer(18))
    if "-q" in flat:
        mods.append(QualityTrimmer(0, 15))
    if "-a" in flat:
        mods.append(AdapterCutter([BackAdapter(A1, max_errors=0.1, min_overlap=3, name="1")]))
    if "--poly-a" in flat:
        mods.append(PolyATrimmer())
    if "-l" in flat:
        mods.append(Shortener(14))
    if "--trim-n" in flat:
        mods.append(NEndTrimmer())
    if "--length-tag" in flat:
        mods.append(LengthTagModifier("len="))
    if "--strip-suffix" in flat:
        from cutadapt.modifiers import SuffixRemover
        mods.append(SuffixRemover(":1"))
    if "-y" in flat:
        mods.append(PrefixSuffixAdder("", " suff"))
    if "--rename" in flat:
        from cutadapt.modifiers import Renamer
        mods.append(Renamer("{header} cp={cut_prefix} m={match_sequence}"))
    for (name, s, q), got in zip(case.r1, outs[0][0]):
        rec = SequenceRecord(name, s, q)
        info = ModificationInfo(rec)
        for m in mods:
            rec = m(rec, info)
        gq = got[2]
        if "--zero-cap" in flat:
            pass
        if rec.sequence != got[1] or (("--zero-cap" not in flat) and rec.qualities != gq):
            fails.append(("C10", outs[0][2], f"read {ident(name)}: step-by-step composition in the documented order gives {rec.sequence!r}, command gives {got[1]!r}"))
            break
        if rec.name != got[0]:
            fails.append(("C10", outs[0][2], f"read {ident(name)}: step-by-step composition in the documented order gives the name {rec.name!r}, command gives {got[0]!r}"))
            break
    return True


def check_filters(case, mods, fails):
    """C11: criteria and order of the filters, predicted from the fully modified reads."""
    d, paired, rng = case.d, case.paired, case.rng
    if paired:
        return False
    from cutadapt.qualtrim import expected_errors
    base = os.path.join(d, "nf.fq")
    code, _, _ = run(mods + ["--rename", "{header} ||{adapter_name}", "-o", base] + case.inputs())
    if code != 0:
        return False
    modified = read_records(base)
    m = rng.choice([None, 0, 5, 12])
    M = rng.choice([None, 12, 25])
    maxn = rng.choice([None, "0", "1", "0.2"])
    maxee = rng.choice([None, "0.5", "2"])
    maxaer = rng.choice([None, "0.05", "0.2"])
    casava = rng.random() < 0.3
    third = rng.choice([None, "--discard-trimmed", "--discard-untrimmed", "untrimmed"])
    f = []
    if m is not None:
        f += ["-m", m, "--too-short-output", os.path.join(d, "fs.fq")]
    if M is not None:
        f += ["-M", M, "--too-long-output", os.path.join(d, "fl.fq")]
    if maxn is not None:
        f += ["--max-n", maxn]
    if maxee is not None:
        f += ["--max-ee", maxee]
    if maxaer is not None:
        f += ["--max-aer", maxaer]
    if casava:
        f += ["--discard-casava"]
    if third == "untrimmed":
        f += ["--untrimmed-output", os.path.join(d, "fu.fq")]
    elif third:
        f += [third]
    rng.shuffle(f) if False else None
    args = mods + f + ["-o", os.path.join(d, "fo.fq")] + case.inputs()
    code, _, err = run(args)
    if code != 0:
        return False
    dest = {}
    for fn, lab in (("fo.fq", "output"), ("fs.fq", "too_short"), ("fl.fq", "too_long"), ("fu.fq", "untrimmed")):
        for r in read_records(os.path.join(d, fn)) or []:
            dest[ident(r[0])] = lab
    for name, s, q in modified:
        rid = ident(name)
        header, adapter = name.rsplit(" ||", 1)
        trimmed = adapter != "no_adapter"
        ee = expected_errors(q) if q else 0.0
        nn = sum(1 for ch in s if ch in "Nn")
        exp = "output"
        if m is not None and len(s) < m:
            exp = "too_short"
        elif M is not None and len(s) > M:
            exp = "too_long"
        elif maxn is not None and ((float(maxn) < 1 and len(s) > 0 and nn / len(s) > float(maxn)) or (float(maxn) >= 1 and nn > float(maxn))):
            exp = None
        elif maxee is not None and ee > float(maxee):
            exp = None
        elif maxaer is not None and len(s) > 0 and ee / len(s) > float(maxaer):
            exp = None
        elif casava and header.partition(" ")[2][1:4] == ":Y:":
            exp = None
        elif third == "--discard-trimmed" and trimmed:
            exp = None
        elif third == "--discard-untrimmed" and not trimmed:
            exp = None
        elif third == "untrimmed" and not trimmed:
            exp = "untrimmed"
        if dest.get(rid) != exp:
            fails.append(("C11", args, f"read {rid} (len {len(s)}, N {nn}, ee {ee:.3f}, trimmed {trimmed}) expected in {exp}, found in {dest.get(rid)}"))
            break
    return True


def check_filters_paired(case, fails):
    """C11 / C05: the pair decision combines the per-read criteria as documented (any / both / first; a one-sided length
    bound looks at that side only; 'both' is forced for the untrimmed filter when adapters are given for one side only);
    criteria are recomputed on the fully modified reads of a run without filters."""
    d, rng = case.d, case.rng
    from cutadapt.qualtrim import expected_errors
    sides = rng.choice(["both", "r1only", "r2only"])
    mods = []
    if sides in ("both", "r1only"):
        mods += ["-a", f"x={A1}"]
    if sides in ("both", "r2only"):
        mods += ["-A", f"u={A2}"]
    if rng.random() < 0.3:
        mods += ["-q", "15"]
    b1, b2 = os.path.join(d, "pn1.fq"), os.path.join(d, "pn2.fq")
    code, _, _ = run(mods + ["--rename", "{header} ||{adapter_name}", "-o", b1, "-p", b2] + case.inputs())
    if code != 0:
        return False
    mod1, mod2 = read_records(b1), read_records(b2)
    mode = rng.choice([None, "any", "both", "first"])
    m = rng.choice([None, "8", "8:12", "8:", ":12"])
    M = rng.choice([None, "25", "25:20", "25:", ":20"])
    maxn = rng.choice([None, "0", "1"])
    maxee = rng.choice([None, "0.5", "2"])
    maxaer = rng.choice([None, "0.05", "0.2"])
    casava = rng.random() < 0.3
    third = rng.choice([None, "--discard-trimmed", "--discard-untrimmed"])
    f = []
    for opt, v in (("-m", m), ("-M", M), ("--max-n", maxn), ("--max-ee", maxee), ("--max-aer", maxaer)):
        if v is not None:
            f += [opt, v]
    if casava:
        f += ["--discard-casava"]
    if third:
        f += [third]
    if mode:
        f += ["--pair-filter", mode]
    o1, o2 = os.path.join(d, "po1.fq"), os.path.join(d, "po2.fq")
    args = mods + f + ["-o", o1, "-p", o2] + case.inputs()
    code, _, err = run(args)
    if code != 0:
        return False
    kept = {ident(r[0]) for r in read_records(o1)}
    eff = mode or "any"

    def combine(c1, c2, how=None):
        how = how or eff
        if c1 is None:          # one-sided bound: only the other side is looked at
            return c2
        if c2 is None:
            return c1
        return (c1 or c2) if how == "any" else (c1 and c2) if how == "both" else c1

    def bounds(v):
        if v is None:
            return None
        if ":" not in v:
            return int(v), int(v)
        a, b = v.split(":")
        return (int(a) if a else None), (int(b) if b else None)

    for (n1, s1, q1), (n2, s2, q2) in zip(mod1, mod2):
        rid = ident(n1)
        t1, t2 = not n1.endswith("||no_adapter"), not n2.endswith("||no_adapter")
        crit = []
        bm, bM = bounds(m), bounds(M)
        if bm:
            crit.append(("too short", None if bm[0] is None else len(s1) < bm[0], None if bm[1] is None else len(s2) < bm[1], None))
        if bM:
            crit.append(("too long", None if bM[0] is None else len(s1) > bM[0], None if bM[1] is None else len(s2) > bM[1], None))
        if maxn is not None:
            k = float(maxn)
            crit.append(("too many N", sum(ch in "Nn" for ch in s1) > k, sum(ch in "Nn" for ch in s2) > k, None))
        if maxee is not None:
            crit.append(("max-ee", expected_errors(q1) > float(maxee), expected_errors(q2) > float(maxee), None))
        if maxaer is not None:
            crit.append(("max-aer", len(s1) > 0 and expected_errors(q1) / len(s1) > float(maxaer),
                         len(s2) > 0 and expected_errors(q2) / len(s2) > float(maxaer), None))
        if casava:
            h1, h2 = n1.rsplit(" ||", 1)[0], n2.rsplit(" ||", 1)[0]
            crit.append(("casava", h1.partition(" ")[2][1:4] == ":Y:", h2.partition(" ")[2][1:4] == ":Y:", None))
        if third == "--discard-trimmed":
            crit.append(("discard-trimmed", t1, t2, None))
        if third == "--discard-untrimmed":
            crit.append(("discard-untrimmed", not t1, not t2, "both" if sides != "both" else None))
        expected_kept, why = True, ""
        for lab, c1, c2, how in crit:
            if combine(c1, c2, how):
                expected_kept, why = False, lab
                break
        if (rid in kept) != expected_kept:
            fails.append(("C11", args, f"pair {rid} (lengths {len(s1)}/{len(s2)}, trimmed {t1}/{t2}, pair-filter {eff}) expected "
                                       f"{'in the output' if expected_kept else 'filtered by ' + why}, but it is {'kept' if rid in kept else 'filtered'}"))
            fails.append(("C05", args, fails[-1][2]))
            break
    return True


def main():
    req = json.load(sys.stdin)
    rng = random.Random(req.get("seed", 0))
    n = req.get("count", 30)
    props = set(req.get("props") or ["C04", "C05", "C06", "C10", "C11", "C15", "C19"])
    fails, cases, distinct, samples = [], 0, set(), []
    for it in range(n):
        paired = rng.random() < 0.5
        with tempfile.TemporaryDirectory() as d:
            case = Case(rng, d, paired)
            mods = modifier_opts(rng, paired)
            filt = filter_opts(rng, paired, d)
            before = len(fails)
            did = False
            kind = rng.choice(sorted(props))
            if kind == "C05" and paired and rng.random() < 0.4:
                did = check_filters_paired(case, fails)
            elif kind in ("C04", "C05") and rng.random() < 0.3:
                did = check_demux(case, [], fails)      # its accounting / synchrony failures are tagged C04 / C05
            elif kind in ("C04", "C05"):
                did = check_counts(case, mods + filt, fails)
            elif kind == "C15":
                did = check_demux(case, [x for x in mods if x not in ("-a", "-g", "-A", f"x={A1}", f"y={A2}", f"u={A2}")] if False else [], fails)
            elif kind == "C03":
                did = check_slices(case, mods + ([f"--action={rng.choice(['mask', 'lowercase', 'retain', 'crop', 'trim'])}"] if "--action" not in mods and rng.random() < 0.5 else []), fails)
            elif kind == "C06":
                did = check_cores(case, mods + [x for x in filt], fails)
            elif kind == "C19":
                r_ = rng.random()
                did = check_cores(case, mods, fails) if r_ < 0.25 else check_layout(case, mods, fails) if r_ < 0.5 else \
                    check_formats(case, mods, fails) if r_ < 0.7 else check_stdout(case, mods, fails) if r_ < 0.85 else \
                    check_fasta_input(case, mods, fails)
            elif kind == "C10":
                did = check_order(case, fails)
            elif kind == "C11":
                did = check_filters_paired(case, fails) if paired else check_filters(case, [x for x in mods if x != "--revcomp"], fails)
            if did:
                cases += 1
                distinct.add((kind, paired, " ".join(str(x) for x in (mods + filt) if not str(x).startswith(d))))
                if len(samples) < 3:
                    samples.append({"kind": kind, "paired": paired, "options": [str(x) for x in mods + filt]})
    out = []
    for f in fails:
        prop, args, msg = f[0], f[1], f[2]
        meta = f[3] if len(f) > 3 else {}
        out.append({"property": prop, "input": {"args": [str(a) for a in args]}, "failed": [msg], "meta": meta})
    print(json.dumps({"cases": cases, "distinct_nontrivial": len(distinct), "failures": out[:30], "samples": samples,
                      "bounds": "random command lines (modifier and filter options from the documented set) on 24 random reads / pairs of "
                                "length <= 40 with planted adapters"}))


if __name__ == "__main__":
    main()
