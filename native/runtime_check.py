"""Runtime form of a contract, executed against the rebuilt real code (PYTHONPATH is set by
pyvc.native).  stdin: {"module", "name", "seed", "count", "model"?, "exhaustive"?}.
stdout (last line): {"cases": n, "failures": [{"input":..., "failed":[labels], "observed":...}], ...}"""
import importlib
import json
import random
import sys
import time


def main():
    req = json.load(sys.stdin)
    mod = importlib.import_module("contracts.runtime." + req["module"])
    spec = mod.RUNTIME[req["name"]]
    rng = random.Random(req.get("seed", 0))
    failures = []
    cases = 0
    distinct = set()
    t0 = time.time()
    budget = req.get("time_s", 120)
    samples = []

    def one(inp):
        nonlocal cases
        cases += 1
        if req.get("log_cases"):
            sys.stderr.write("CASE " + json.dumps(inp, default=str) + "\n")
            sys.stderr.flush()
        try:
            res = spec["call"](inp)
            err = None
        except Exception as e:   # noqa
            res, err = None, f"{type(e).__name__}: {e}"
        bad = spec["check"](inp, res, err)
        if req.get("prefix"):
            bad = [b for b in bad if b.startswith(req["prefix"])]
        key = json.dumps(inp, sort_keys=True, default=str)
        if key not in distinct and spec.get("nontrivial", lambda i, r: True)(inp, res):
            distinct.add(key)
        if len(samples) < 3:
            samples.append({"input": inp, "result": repr(res)[:200]})
        if bad:
            failures.append({"input": inp, "failed": bad, "observed": repr(res)[:300] if err is None else err})
        return bad

    if req.get("model") and spec.get("from_model"):
        try:
            inp = spec["from_model"](req["model"])
            if inp is not None:
                one(inp)
        except Exception:
            pass
    for inp in req.get("inputs") or []:
        one(inp)
    if req.get("exhaustive") and spec.get("enumerate"):
        for inp in spec["enumerate"](req.get("tier", "quick")):
            one(inp)
            if len(failures) >= req.get('max_failures', 5):
                break
    n = req.get("count", 1000)
    maxf = req.get('max_failures', 5)
    while cases < n and len(failures) < maxf and time.time() - t0 < budget:
        one(spec["gen"](rng))
    print(json.dumps({"cases": cases, "distinct_nontrivial": len(distinct), "failures": failures[:maxf],
                      "samples": samples, "bounds": spec.get("bounds", ""), "time_s": round(time.time() - t0, 2)},
                     default=str))


if __name__ == "__main__":
    main()
