"""Bounded exhaustive stand-in (C20): ErrorRanges(length, rate).lengths() against int(L * rate) for every L."""
import json
import sys


def main():
    req = json.load(sys.stdin)
    from cutadapt.report import ErrorRanges
    maxlen = req.get("maxlen", 40)
    rates = sorted(set([k / 100 for k in range(1, 100)] + [1 / 3, 0.15, 0.07, 0.125, 0.2, 0.25, 0.34]))
    failures, cases, samples = [], 0, []
    for length in range(1, maxlen + 1):
        for rate in rates:
            cases += 1
            ls = ErrorRanges(length, rate).lengths()
            bad = None
            if not ls or ls[-1] != length:
                bad = f"last entry {ls[-1] if ls else None} != length"
            else:
                for L in range(1, length + 1):
                    reported = sum(1 for x in ls if x < L)
                    if reported != int(rate * L):
                        bad = f"length {L}: report allows {reported} errors, int(L*rate) = {int(rate * L)}"
                        break
            if len(samples) < 3 and length > 10:
                samples.append({"length": length, "rate": rate, "lengths": ls})
            if bad:
                failures.append({"input": {"length": length, "error_rate": rate}, "failed": [bad], "observed": ls})
    print(json.dumps({"cases": cases, "distinct_nontrivial": cases, "failures": failures[:10], "nfailures": len(failures),
                      "samples": samples, "bounds": f"all lengths 1..{maxlen} x {len(rates)} rates (k/100 and 1/3, 0.125, ...)",
                      "exhaustive": True}))


if __name__ == "__main__":
    main()
