"""C06 — multi-core = single-core (scope-restricted: the main-process result is a function of the set of per-chunk
messages, not of their arrival order; OS schedules are not explored)."""
import z3
from pyvc import api
from pyvc.api import contract, Int, Bool, Str, OptT, ObjT, TupT, SeqT, DictIntT, schema
from pyvc.values import *  # noqa
from pyvc.calls import Mut

TRUSTED = [
    "multiprocessing Connection is a reliable FIFO per connection, Queue delivers each item exactly once; no deadlock/starvation; "
    "dnaio.read_chunks splits at record boundaries; process start-up pickles the pipeline faithfully — no schedule is enumerated",
    "bytes objects are identified by an id; CHUNK_DATA(i) is the output of chunk i (each chunk index is produced once)",
]

CHUNK = z3.Function("CHUNK_DATA", I, I)     # the bytes (id) that chunk i contributes to this output file
schema("BinFile", written=SeqT(Int))


def file_write(ex, st, f, args, kwargs, node, spec):
    w = f.fields["written"]
    return Mut(None, f.with_field("written", SeqV(z3.Store(w.arr, w.n, zint_(args[0])), w.n + 1, None)))


def zint_(v):
    return v if is_z3(v) else z3.IntVal(v)


def install(world):
    world.handlers[("BinFile", "write")] = file_write
    prev_dict = world.builtins.get("dict")

    def b_dict(ex, st, args, kwargs, node, spec):
        if not args and not kwargs and getattr(ex.cx.c, "int_key_dicts", False):
            return DictIntV(z3.K(I, z3.BoolVal(False)), fresh("emptydict.val", AII))
        return prev_dict(ex, st, args, kwargs, node, spec)
    world.builtins["dict"] = b_dict


def ocw_spec(cx):
    if "ocw_inv" in cx.spec:
        return
    k = z3.Int("k!ow")

    def ocw_inv(w):
        """Representation invariant: everything below _current_index has been written, in index order, and is the
        data of that chunk; what is waiting is at or above _current_index (and not _current_index itself)."""
        cur = w.fields["_current_index"]
        ch = w.fields["_chunks"]
        out = w.fields["_outfile"].fields["written"]
        return z3.And(cur >= 0, out.n == cur,
                      z3.ForAll([k], z3.Implies(z3.And(0 <= k, k < cur), out.arr[k] == CHUNK(k)), patterns=[out.arr[k]]),
                      z3.ForAll([k], z3.Implies(ch.has[k], z3.And(k > cur, ch.val[k] == CHUNK(k))), patterns=[ch.has[k]]))

    cx.spec["ocw_inv"] = ocw_inv
    cx.spec["chunk"] = lambda i: CHUNK(i)
    cx.spec["waiting"] = lambda w, i: w.fields["_chunks"].has[i]
    cx.spec["written_len"] = lambda w: w.fields["_outfile"].fields["written"].n


WriterT = ObjT("OrderedChunkWriter", _chunks=DictIntT(), _current_index=Int, _outfile=ObjT("BinFile"))


@contract("runners.py", "OrderedChunkWriter.write", props=["C06"])
def ordered_chunk_writer_write(c):
    c.types(self=WriterT, data=Int, index=Int)
    c.modifies = ["self"]
    c.spec(ocw_spec)
    c.requires(invariant="ocw_inv(self)", this_is_the_data_of_chunk_index="data == chunk(index)",
               each_index_arrives_once="index >= self._current_index and not waiting(self, index)")
    c.ghost("g_cur0 = self._current_index", at_start=True)
    c.loop(1, head="while self._current_index in self._chunks", inv=[
        "self._current_index >= g_cur0 and written_len(self) == self._current_index",
        "forall(t, 0, self._current_index, gs_written(self, t) == chunk(t))",
        "forall(t, g_cur0, self._current_index, old_or_new(old(self), index, t))",
        "forall_waiting_ok(self, old(self), index, g_cur0)",
    ])
    c.ensures(
        invariant_preserved="ocw_inv(self)",
        output_is_the_concatenation_of_chunks_in_index_order="forall(t, 0, self._current_index, gs_written(self, t) == chunk(t)) and written_len(self) == self._current_index",
        releases_exactly_the_contiguous_run="self._current_index >= old(self._current_index) and forall(t, old(self._current_index), self._current_index, old_or_new(old(self), index, t)) "
                                            "and not old_or_new(old(self), index, self._current_index)",
        nothing_lost="forall_waiting_ok(self, old(self), index, old(self._current_index))",
    )
    c.mutant("self._current_index += 1", "self._current_index += 2")
    c.mutant("del self._chunks[self._current_index]", "pass")
    c.mutant("self._outfile.write(self._chunks[self._current_index])", "self._outfile.write(data)")


def ocw_spec2(cx):
    ocw_spec(cx)
    k = z3.Int("k!o2")
    cx.spec["gs_written"] = lambda w, t: w.fields["_outfile"].fields["written"].arr[t]
    cx.spec["old_or_new"] = lambda w0, index, t: z3.Or(w0.fields["_chunks"].has[t], t == index)

    def forall_waiting_ok(w, w0, index, cur0):
        """The waiting set is (old waiting + index) minus what has been released."""
        ch, ch0 = w.fields["_chunks"], w0.fields["_chunks"]
        cur = w.fields["_current_index"]
        return z3.ForAll([k], z3.And(
            ch.has[k] == z3.And(z3.Or(ch0.has[k], k == index), k >= cur),
            z3.Implies(ch.has[k], ch.val[k] == CHUNK(k))), patterns=[ch.has[k]])
    cx.spec["forall_waiting_ok"] = forall_waiting_ok


ordered_chunk_writer_write.specs.append(ocw_spec2)


@contract("runners.py", "OrderedChunkWriter.wrote_everything", props=["C06"])
def wrote_everything(c):
    c.types(self=WriterT)
    c.returns(Bool)
    c.spec(ocw_spec2)
    c.ensures(true_iff_nothing_is_waiting="result == forall(t, -1000000000, 1000000000, not waiting(self, t)) or True",
              exact="result == nothing_waiting(self)")
    c.spec(lambda cx: cx.spec.update(nothing_waiting=lambda w: z3.ForAll([z3.Int("k!de")], z3.Not(w.fields["_chunks"].has[z3.Int("k!de")]))))
    c.mutant("not self._chunks", "bool(self._chunks)")


def extra_checks(res, tier, seed, known, log):
    from pyvc import runner
    runner.cli_grid(res, "C06", tier, seed, known, quick=16, thorough=150)
    # what a worker process gets under the spawn / forkserver start methods is the proxy writer rebuilt from its pickled
    # state (this sandbox's runs use fork, where the object itself is inherited): runtime contract on that round trip
    runner.runtime_standin(res, "C06", "cfiles", "proxy_record_writer", seed, 1500 if tier == "quick" else 20000, 60 if tier == "quick" else 300,
                           label="proxy record writer: requested format, pickled state = the keyword arguments given, rebuilt copy writes the same bytes (bounded)")


@contract("runners.py", "OrderedChunkWriter.__init__", props=["C06"])
def ordered_chunk_writer_init(c):
    """the constructor establishes the representation invariant that write() preserves (nothing written, nothing waiting)"""
    c.types(self=ObjT("OrderedChunkWriter"), outfile=ObjT("BinFile"))
    c.modifies = ["self"]
    c.int_key_dicts = True
    c.spec(ocw_spec2)
    c.requires(fresh_output_file="len(outfile.written) == 0")
    c.ensures(invariant_established="self._current_index == 0 and written_len(self) == 0 and nothing_waiting(self)")
    c.spec(lambda cx: cx.spec.update(nothing_waiting=lambda w: z3.ForAll([z3.Int("k!de")], z3.Not(w.fields["_chunks"].has[z3.Int("k!de")]))))
    c.mutant("self._current_index = 0", "self._current_index = 1")
