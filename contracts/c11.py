"""C11 — filters use the documented criteria, in order, one destination per read."""
import z3
import os
from pyvc import api
from pyvc.api import contract, Int, Bool, Real, Str, OptT, ObjT, TupT, SeqT
from pyvc.values import *  # noqa
from .common import Record
from .shapes import InfoT
from .c14 import ee_spec

TRUSTED = ["floats are treated as reals (thresholds compared exactly)"]


@contract("predicates.py", "TooShort.test", props=["C11"])
def too_short(c):
    c.types(self=ObjT("TooShort", minimum_length=Int), read=Record, info=InfoT)
    c.returns(Bool)
    c.ensures(shorter_than_m="result == (len(read.sequence) < self.minimum_length)")
    c.mutant("<", "<=")


@contract("predicates.py", "TooLong.test", props=["C11"])
def too_long(c):
    c.types(self=ObjT("TooLong", maximum_length=Int), read=Record, info=InfoT)
    c.returns(Bool)
    c.ensures(longer_than_M="result == (len(read.sequence) > self.maximum_length)")
    c.mutant(">", ">=")


QOK = dict(has_qualities="not is_none(read.qualities)",
           valid="forall(t, 0, len(val(read.qualities)), okq(val(read.qualities), 33, t))",
           same_length="len(val(read.qualities)) == len(read.sequence)")


@contract("predicates.py", "TooManyExpectedErrors.test", props=["C11"])
def too_many_ee(c):
    c.types(self=ObjT("TooManyExpectedErrors", max_errors=Real), read=Record, info=InfoT)
    c.returns(Bool)
    c.spec(ee_spec)
    c.requires(**QOK)
    c.ensures(expected_errors_above_threshold="result == (SUMT(val(read.qualities), 33, len(val(read.qualities))) > self.max_errors)")
    c.mutant("> self.max_errors", ">= self.max_errors")


@contract("predicates.py", "TooHighAverageErrorRate.test", props=["C11"])
def too_high_aer(c):
    c.types(self=ObjT("TooHighAverageErrorRate", max_error_rate=Real), read=Record, info=InfoT)
    c.returns(Bool)
    c.spec(ee_spec)
    c.requires(**QOK)
    c.ensures(
        expected_errors_per_base_above_threshold="implies(len(read.sequence) > 0, result == (SUMT(val(read.qualities), 33, len(val(read.qualities))) / len(read.sequence) > self.max_error_rate))",
        empty_read_passes="implies(len(read.sequence) == 0, result == False)",
    )
    c.mutant("> self.max_error_rate", ">= self.max_error_rate")
    c.mutant("read_length == 0", "read_length == 1")


@contract("predicates.py", "CasavaFiltered.test", props=["C11"])
def casava_filtered(c):
    c.types(self=ObjT("CasavaFiltered"), read=Record, info=InfoT)
    c.returns(Bool)
    c.spec(lambda cx: cx.spec.setdefault("first_space", lambda s: __import__("pyvc.world", fromlist=["x"]).first_index(cx, as_str(s), 32)))
    P = "first_space(read.name)"
    c.ensures(
        y_flag_in_the_casava_field=f"result == ({P} + 5 <= len(read.name) and code(read.name, {P} + 2) == 58 and code(read.name, {P} + 3) == 89 and code(read.name, {P} + 4) == 58)",
        no_comment_field_passes=f"implies({P} == len(read.name), result == False)",
    )
    c.mutant("right[1:4]", "right[0:3]")
    c.mutant("':Y:'", "':N:'")


@contract("predicates.py", "IsUntrimmed.test", props=["C11"])
def is_untrimmed(c):
    c.types(self=ObjT("IsUntrimmed"), read=Record, info=InfoT)
    c.returns(Bool)
    c.ensures(no_adapter_found="result == (len(info.matches) == 0)")
    c.mutant("not info.matches", "bool(info.matches)")


@contract("predicates.py", "IsTrimmed.test", props=["C11"])
def is_trimmed(c):
    c.types(self=ObjT("IsTrimmed"), read=Record, info=InfoT)
    c.returns(Bool)
    c.ensures(adapter_found="result == (len(info.matches) > 0)")
    c.mutant("bool(info.matches)", "not info.matches")


def extra_checks(res, tier, seed, known, log):
    from pyvc import runner
    runner.cli_grid(res, "C11", tier, seed, known, quick=40, thorough=400)


# ------------------------------------------------------------------------------ the step list built by the command line
from pyvc.api import GListT, SeqT as _SeqT   # noqa
from .c10 import abstract_ctor, _py, veq     # noqa

STEP_CLASSES = ["SingleEndFilter", "PairedEndFilter", "RestFileWriter", "InfoFileWriter", "WildcardFileWriter", "PairedSingleEndStep",
                "SingleEndSink", "PairedEndSink", "Demultiplexer", "PairedDemultiplexer", "CombinatorialDemultiplexer",
                "TooShort", "TooLong", "TooManyN", "TooManyExpectedErrors", "TooHighAverageErrorRate", "CasavaFiltered",
                "IsTrimmed", "IsUntrimmed"]
PRED_RANK = {"TooShort": 1, "TooLong": 2, "TooManyN": 3, "TooManyExpectedErrors": 4, "TooHighAverageErrorRate": 5,
             "CasavaFiltered": 6, "IsTrimmed": 7, "IsUntrimmed": 7}
SINKS = ("SingleEndSink", "PairedEndSink", "Demultiplexer", "PairedDemultiplexer", "CombinatorialDemultiplexer")
PARSE_LEN = [z3.Function(f"parse_lengths.{i}", AII, I, I) for i in range(2)]
PARSE_LEN_NONE = [z3.Function(f"parse_lengths.{i}.none", AII, I, B) for i in range(2)]
PARSE_LEN_TWO = z3.Function("parse_lengths.two", AII, I, B)


def _install_steps(world):
    for cls in STEP_CLASSES:
        world.ctor_handlers.setdefault(cls, abstract_ctor(cls))

    def open_any(kind):
        def h(ex, st, of, args, kwargs, node, spec):
            f = {"__id__": fresh("id.writer", I), "kind": PyConst(kind)}
            for i_, a_ in enumerate(args):
                f[f"a{i_}"] = a_
            for k_, v_ in kwargs.items():
                f["kw_" + k_] = v_
            return ObjV("Writer", f)
        return h
    world.handlers[("OutputFiles", "open_text")] = open_any("text")
    world.handlers[("OutputFiles", "open_record_writer")] = open_any("record")
    world.handlers[("OutputFiles", "open_stdout_record_writer")] = open_any("stdout")
    world.handlers[("FileFormatLike", "has_qualities")] = lambda ex, st, o, a, k, n, s: o.fields["qualities"]

    def parse_lengths(ex, st, args, kwargs, node, spec):
        v = args[0]
        if isinstance(v, Opt):
            v = ex.need_not_none(v, st, node, "parse_lengths")
        s = as_str(v)
        ex.cx.pending.append((fresh("parse_lengths.raises", B), "CommandLineError"))
        items = []
        for i_ in range(2):
            items.append((z3.BoolVal(True) if i_ == 0 else PARSE_LEN_TWO(s.arr, s.n),
                          Opt(PARSE_LEN_NONE[i_](s.arr, s.n), PARSE_LEN[i_](s.arr, s.n))))
        return ListV(items)
    world.builtins["parse_lengths"] = parse_lengths


_c11_install_prev = globals().get("install")


def install(world):
    if _c11_install_prev:
        _c11_install_prev(world)
    _install_steps(world)


def possible_classes(obj):
    """[(condition, class name)] an object merged from constructors of different classes can have."""
    from pyvc import verify
    w = verify.world()
    tag = obj.fields.get("__cls__")
    if tag is None:
        return [(z3.BoolVal(True), obj.cls)]
    tags = set()
    stack = [tag]
    while stack:
        t = stack.pop()
        if z3.is_int_value(t):
            tags.add(t.as_long())
        elif z3.is_app(t) and t.decl().kind() == z3.Z3_OP_ITE:
            stack += [t.arg(1), t.arg(2)]
    return [(tag == t, w.cls_by_tag(t)) for t in sorted(tags)]


def step_cls(item):
    it = item.val if isinstance(item, Opt) else item
    return [c_ for _, c_ in possible_classes(it)]


def _pred_of(it):
    for k_ in ("a0", "a1"):
        p = it.fields.get(k_)
        p = p.val if isinstance(p, Opt) else p
        if isinstance(p, ObjV):
            return p
    return None


def step_rank(item):
    it = item.val if isinstance(item, Opt) else item
    cs = set(step_cls(item))
    if cs <= {"RestFileWriter", "InfoFileWriter", "WildcardFileWriter", "PairedSingleEndStep"}:
        return 0
    if cs <= set(SINKS):
        return 8
    if cs <= {"SingleEndFilter", "PairedEndFilter"}:
        p = _pred_of(it)
        return PRED_RANK.get(p.cls) if p is not None else None
    return None


def expand(steps):
    """Items of the step list with alternatives (objects of different classes merged at a join) made explicit."""
    out = []
    for g, it in steps.items:
        if isinstance(it, ChoiceV):
            for c_, v_ in it.options:
                out.append((z3.And(g, c_), v_))
        else:
            out.append((g, it))
    return out


class _Expanded:
    def __init__(self, steps):
        self.items = expand(steps)


def steps_spec(cx):
    def steps_sorted(steps):
        steps = _Expanded(steps)
        its = list(steps.items)
        conds = []
        for i in range(len(its)):
            for j in range(i + 1, len(its)):
                ri, rj = step_rank(its[i][1]), step_rank(its[j][1])
                if ri is None or rj is None:
                    conds.append(z3.BoolVal(False))
                elif ri > rj or (ri == rj == 8):
                    conds.append(z3.Not(z3.And(its[i][0], its[j][0])))
        return z3.And(*conds) if conds else z3.BoolVal(True)

    def exactly_one_sink_last(steps):
        steps = _Expanded(steps)
        gs = [g for g, it in steps.items if step_rank(it) == 8]
        return z3.Sum(*[z3.If(g, 1, 0) for g in gs]) == 1 if gs else z3.BoolVal(False)

    def filters_of(steps, *pred_classes):
        pred_classes = [_py(p) for p in pred_classes]
        out = []
        for g, it in expand(steps):
            it_ = it.val if isinstance(it, Opt) else it
            if set(step_cls(it_)) <= {"SingleEndFilter", "PairedEndFilter"}:
                p = _pred_of(it_)
                if p is not None and p.cls in pred_classes:
                    out.append((g, it_))
        return out

    def present_filter(steps, *pred_classes):
        fs = filters_of(steps, *pred_classes)
        return z3.Or(*[g for g, _ in fs]) if fs else z3.BoolVal(False)

    def untrimmed_pair_mode_is(steps, mode):
        """Every (present) paired filter on IsUntrimmed uses the given pair filter mode."""
        from pyvc.engine import str_eq
        cs = []
        for g, it in filters_of(steps, "IsUntrimmed"):
            for cond, cn in possible_classes(it):
                if cn == "PairedEndFilter":
                    m_ = it.fields.get("kw_pair_filter_mode")
                    cs.append(z3.Implies(z3.And(g, cond), veq_str(m_, mode)))
        return z3.And(*cs) if cs else z3.BoolVal(True)

    def paired_filters_use_mode(steps, mode, *pred_classes):
        """Every (present) paired filter on the given criteria is built with the given pair-filter mode."""
        cs = []
        for g, it in filters_of(steps, *pred_classes):
            for cond, cn in possible_classes(it):
                if cn == "PairedEndFilter":
                    m_ = it.fields.get("kw_pair_filter_mode")
                    cs.append(z3.Implies(z3.And(g, cond), veq_str(m_, mode)))
        return z3.And(*cs) if cs else z3.BoolVal(True)

    cx.spec["paired_filters_use_mode"] = paired_filters_use_mode

    def stdout_sink_gets_fasta_flag(steps, output, fasta):
        """When the final output goes to standard output (no -o), the writer of the sink is opened with the --fasta flag."""
        no_output = output.none if isinstance(output, Opt) else z3.BoolVal(output is None)
        cs = []
        for g, it in expand(steps):
            it_ = it.val if isinstance(it, Opt) else it
            if not set(step_cls(it_)) <= {"SingleEndSink", "PairedEndSink"}:
                continue
            w_ = it_.fields.get("a0")
            w_ = w_.val if isinstance(w_, Opt) else w_
            ff = w_.fields.get("kw_force_fasta") if isinstance(w_, ObjV) else None
            passed = z3.BoolVal(False) if ff is None else (boolify(ff.val) if isinstance(ff, Opt) else boolify(ff))
            cs.append(z3.Implies(z3.And(g, no_output), passed == fasta))
        return z3.And(*cs) if cs else z3.BoolVal(True)

    cx.spec["stdout_sink_gets_fasta_flag"] = stdout_sink_gets_fasta_flag

    def alts(v):
        """[(condition, None | object)] for a value that may be None, an object, or one of several objects."""
        if v is None:
            return [(z3.BoolVal(True), None)]
        if isinstance(v, Opt):
            return [(v.none, None)] + [(z3.And(z3.Not(v.none), c_), o_) for c_, o_ in alts(v.val) if o_ is not None]
        if isinstance(v, ChoiceV):
            return [(z3.And(c_, c2), o_) for c_, v_ in v.options for c2, o_ in alts(v_)]
        if isinstance(v, ObjV):
            return [(c_, (cn, v)) for c_, cn in possible_classes(v)]
        return [(z3.BoolVal(True), ("?", v))]

    def length_predicates_from_own_option(steps, pred_class, option, paired):
        """Each predicate of the length filter is None exactly when its side has no bound and otherwise is of the
        filter's own class with the bound parsed from the filter's own option (LEN, LEN:LEN2, LEN: or :LEN2;
        a single LEN applies to both sides)."""
        pred_class = _py(pred_class)
        s_ = as_str(option.val if isinstance(option, Opt) else option)
        two = PARSE_LEN_TWO(s_.arr, s_.n)
        none0, val0 = PARSE_LEN_NONE[0](s_.arr, s_.n), PARSE_LEN[0](s_.arr, s_.n)
        none1 = z3.If(two, PARSE_LEN_NONE[1](s_.arr, s_.n), none0)
        val1 = z3.If(two, PARSE_LEN[1](s_.arr, s_.n), val0)
        cs = []
        for g, it in filters_of_any(steps, pred_class):
            for ccond, cn in possible_classes(it):
                sides = [("a0", none0, val0)] + ([("a1", none1, val1)] if cn == "PairedEndFilter" else [])
                for key, none_, val_ in sides:
                    if os.environ.get("VERIF_DEBUG"):
                        print("DEBUG", pred_class, cn, key, repr(it.fields.get(key))[:300], [(str(a)[:100], (b[0], str(b[1].fields.get("a0"))[:100]) if b else None) for a, b in alts(it.fields.get(key))])
                    for acond, o_ in alts(it.fields.get(key)):
                        h_ = z3.And(g, ccond, acond)
                        if o_ is None:
                            cs.append(z3.Implies(h_, none_))
                        else:
                            cn_, ov = o_
                            arg = ov.fields.get("a0") if isinstance(ov, ObjV) else None
                            if isinstance(arg, Opt):
                                arg_none, arg = arg.none, arg.val
                                cs.append(z3.Implies(h_, z3.Not(arg_none)))
                            ok = z3.BoolVal(False) if cn_ != pred_class or arg is None or not is_z3(arg) else \
                                z3.And(z3.Not(none_), arg == val_)
                            cs.append(z3.Implies(h_, ok))
        return z3.And(*cs) if cs else z3.BoolVal(True)

    def filters_of_any(steps, pred_class):
        """filters one of whose predicates (either side, any alternative) is of the given class"""
        out = []
        for g, it in expand(steps):
            it_ = it.val if isinstance(it, Opt) else it
            if set(step_cls(it_)) <= {"SingleEndFilter", "PairedEndFilter"}:
                p = _pred_of(it_)
                if p is not None and p.cls == pred_class:
                    out.append((g, it_))
        return out

    cx.spec["length_predicates_from_own_option"] = length_predicates_from_own_option

    def criterion_on_both_mates(steps, *pred_classes):
        """A paired filter on one of these criteria tests both mates with the same criterion (neither side is left out)."""
        pred_classes = [_py(p) for p in pred_classes]
        cs = []
        for pc in pred_classes:
            for g, it in filters_of_any(steps, pc):
                for ccond, cn in possible_classes(it):
                    if cn != "PairedEndFilter":
                        continue
                    for key in ("a0", "a1"):
                        for acond, o_ in alts(it.fields.get(key)):
                            ok = z3.BoolVal(o_ is not None and o_[0] == pc)
                            cs.append(z3.Implies(z3.And(g, ccond, acond), ok))
        return z3.And(*cs) if cs else z3.BoolVal(True)

    cx.spec["criterion_on_both_mates"] = criterion_on_both_mates

    def veq_str(a, b):
        from pyvc.engine import str_eq
        if a is None or b is None:
            return z3.BoolVal(a is None and b is None)
        na, va = (a.none, a.val) if isinstance(a, Opt) else (z3.BoolVal(False), a)
        nb, vb = (b.none, b.val) if isinstance(b, Opt) else (z3.BoolVal(False), b)
        return z3.Or(z3.And(na, nb), z3.And(z3.Not(na), z3.Not(nb), str_eq(va, vb)))

    def redirect_iff(steps, pred_class, cond):
        """The filter on pred_class has a redirect writer exactly when cond holds."""
        cs = []
        for g, it in filters_of(steps, pred_class):
            for ccond, cn in possible_classes(it):
                w_ = it.fields.get("a1") if cn == "SingleEndFilter" else it.fields.get("a2")
                has = z3.BoolVal(False) if w_ is None or not isinstance(w_, (Opt, ObjV)) else (z3.Not(w_.none) if isinstance(w_, Opt) else z3.BoolVal(True))
                cs.append(z3.Implies(z3.And(g, ccond), has == cond))
        return z3.And(*cs) if cs else z3.BoolVal(True)

    cx.spec.update(steps_sorted=steps_sorted, exactly_one_sink_last=exactly_one_sink_last, present_filter=present_filter,
                   untrimmed_pair_mode_is=untrimmed_pair_mode_is, redirect_iff=redirect_iff, truthy=lambda v: boolify(v))


StepArgsT = ObjT("Namespace", rest_file=OptT(Str), info_file=OptT(Str), wildcard_file=OptT(Str), minimum_length=OptT(Str),
                 maximum_length=OptT(Str), too_short_output=OptT(Str), too_short_paired_output=OptT(Str), too_long_output=OptT(Str),
                 too_long_paired_output=OptT(Str), max_n=OptT(Real), max_expected_errors=OptT(Real), max_average_error_rate=OptT(Real),
                 discard_casava=Bool, discard_trimmed=Bool, discard_untrimmed=Bool, untrimmed_output=OptT(Str),
                 untrimmed_paired_output=OptT(Str), output=OptT(Str), paired_output=OptT(Str), pair_adapters=Bool, interleaved=Bool,
                 fasta=Bool, pair_filter=OptT(Str), action=Str)


@contract("cli.py", "make_pipeline_from_args", props=["C11", "C05", "C04", "C19"], name="make_pipeline_from_args:steps")
def builder_steps(c):
    """The segment of make_pipeline_from_args that assembles the step list (from `def make_filter` to `modifiers = []`)."""
    c.replay_grid = ["C11", "C05", "C04", "C19"]
    c.body_from = "action = None if args.action == 'none' else args.action"
    c.body_until = "modifiers = []"
    c.types(args=StepArgsT, paired=Bool, outfiles=ObjT("OutputFiles"), input_file_format=ObjT("FileFormatLike", qualities=Bool),
            adapters=_SeqT(ObjT("Adapter")), adapters2=_SeqT(ObjT("Adapter")))
    c.inline.update({"determine_demultiplex_mode"})
    c.spec(steps_spec)
    c.requires(single_end_has_no_R2_options="implies(not paired, len(adapters2) == 0 and is_none(args.paired_output))")
    c.raises("CommandLineError", when=None)
    S = "steps"
    ONE_SIDED = "(paired and ((len(adapters) == 0) != (len(adapters2) == 0)))"
    UNTR = "(args.discard_untrimmed or truthy(args.untrimmed_output) or truthy(args.untrimmed_paired_output))"
    c.ensures(
        filters_in_the_documented_order_then_one_sink=f"steps_sorted({S}) and exactly_one_sink_last({S})",
        pair_filter_mode_is_the_requested_one_and_any_by_default="implies(paired, not is_none(pair_filter_mode) and "
        "implies(is_none(args.pair_filter), seq_eq(val(pair_filter_mode), 'any')) and "
        "implies(not is_none(args.pair_filter), seq_eq(val(pair_filter_mode), val(args.pair_filter))))",
        both_is_forced_for_untrimmed_filters_with_adapters_on_one_side_only=f"implies({ONE_SIDED} and {UNTR}, untrimmed_pair_mode_is({S}, 'both'))",
        otherwise_the_requested_pair_filter_mode_applies=f"implies(paired and len(adapters) > 0 and len(adapters2) > 0, untrimmed_pair_mode_is({S}, pair_filter_mode))",
        every_other_pair_filter_uses_the_requested_mode=f"implies(paired, paired_filters_use_mode({S}, pair_filter_mode, 'TooShort', 'TooLong', 'TooManyN', "
                                                        f"'TooManyExpectedErrors', 'TooHighAverageErrorRate', 'CasavaFiltered', 'IsTrimmed'))",
        n_error_and_casava_criteria_are_tested_on_both_mates=f"implies(paired, criterion_on_both_mates({S}, 'TooManyN', 'TooManyExpectedErrors', "
                                                             f"'TooHighAverageErrorRate', 'CasavaFiltered'))",
        fasta_option_reaches_the_writer_of_standard_output=f"stdout_sink_gets_fasta_flag({S}, args.output, args.fasta)",
        length_filters_present_iff_bounds_given=f"present_filter({S}, 'TooShort') == (not is_none(args.minimum_length)) and present_filter({S}, 'TooLong') == (not is_none(args.maximum_length))",
        length_bounds_come_from_the_filters_own_option_one_sided_bound_looks_at_that_side_only=
        f"implies(not is_none(args.minimum_length), length_predicates_from_own_option({S}, 'TooShort', args.minimum_length, paired)) and "
        f"implies(not is_none(args.maximum_length), length_predicates_from_own_option({S}, 'TooLong', args.maximum_length, paired))",
        n_and_casava_filters_present_iff_requested=f"present_filter({S}, 'TooManyN') == (not is_none(args.max_n)) and present_filter({S}, 'CasavaFiltered') == args.discard_casava",
        expected_error_filters_need_qualities=f"present_filter({S}, 'TooManyExpectedErrors') == (not is_none(args.max_expected_errors) and input_file_format.qualities) and "
                                              f"present_filter({S}, 'TooHighAverageErrorRate') == (not is_none(args.max_average_error_rate) and input_file_format.qualities)",
        redirect_files_attached_iff_given=f"redirect_iff({S}, 'TooShort', truthy(args.too_short_output) or truthy(args.too_short_paired_output)) and "
                                          f"redirect_iff({S}, 'TooLong', truthy(args.too_long_output) or truthy(args.too_long_paired_output))",
    )
    c.mutant("steps.append(make_filter(predicate1, predicate2, path1, path2))", "steps.append(make_filter(predicate2, predicate1, path1, path2))")
    c.mutant("(not adapters2 or not adapters)", "(not adapters2)")
    c.mutant("predicate, predicate, pair_filter_mode=pair_filter_mode", "predicate, None, pair_filter_mode=pair_filter_mode", occurrence=2)
    c.mutant("pair_filter_mode = 'any' if args.pair_filter is None else args.pair_filter", "pair_filter_mode = 'both' if args.pair_filter is None else args.pair_filter")
    c.mutant("pair_filter_mode='both' if override_pair_filter_mode else pair_filter_mode", "pair_filter_mode=pair_filter_mode", occurrence=1)


# ------------------------------------------------------------------------------ predicate constructors
# The `test` contracts above take the predicate's parameters from its fields; these contracts prove that the constructors
# store the option value there unchanged (and establish the precondition of TooManyN.test).
def _ctor(cls, field, arg, argtype, extra_ensures=None, requires=None, raises=None):
    @contract("predicates.py", f"{cls}.__init__", props=["C11"])
    def _c(c):
        c.types(self=ObjT(cls), **{arg: argtype})
        c.modifies = ["self"]
        if requires:
            c.requires(**requires)
        if raises:
            c.raises(*raises[0], **raises[1])
        ens = {f"the_option_value_is_the_criterion": f"self.{field} == {arg}"}
        ens.update(extra_ensures or {})
        c.ensures(**ens)
        c.mutant(f"self.{field} = {arg}", f"self.{field} = {arg} + 1")
    return _c


too_short_init = _ctor("TooShort", "minimum_length", "minimum_length", Int)
too_long_init = _ctor("TooLong", "maximum_length", "maximum_length", Int)
too_many_ee_init = _ctor("TooManyExpectedErrors", "max_errors", "max_errors", Real)
too_high_aer_init = _ctor("TooHighAverageErrorRate", "max_error_rate", "max_error_rate", Real,
                          raises=(("ValueError",), {"when": "not (0 < max_error_rate < 1)"}))
too_many_n_init = _ctor("TooManyN", "cutoff", "count", Real, requires={"not_negative": "count >= 0"},
                        extra_ensures={"a_value_below_1_is_a_fraction_of_the_read_length": "self.is_proportion == (count < 1) and self.cutoff >= 0"})
