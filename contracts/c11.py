"""C11 — filters use the documented criteria, in order, one destination per read."""
import z3
from pyvc import api
from pyvc.api import contract, Int, Bool, Real, Str, OptT, ObjT, TupT, SeqT
from pyvc.values import *  # noqa
from .common import Record
from .shapes import InfoT
from .c14 import ee_spec

TRUSTED = ["floats are treated as reals (thresholds compared exactly)"]


@contract("predicates.py", "TooShort.test", props=["C11"])
def too_short(c):
    c.types(self=ObjT("TooShort", minimum_length=Int), read=Record, info=InfoT)
    c.returns(Bool)
    c.ensures(shorter_than_m="result == (len(read.sequence) < self.minimum_length)")
    c.mutant("<", "<=")


@contract("predicates.py", "TooLong.test", props=["C11"])
def too_long(c):
    c.types(self=ObjT("TooLong", maximum_length=Int), read=Record, info=InfoT)
    c.returns(Bool)
    c.ensures(longer_than_M="result == (len(read.sequence) > self.maximum_length)")
    c.mutant(">", ">=")


QOK = dict(has_qualities="not is_none(read.qualities)",
           valid="forall(t, 0, len(val(read.qualities)), okq(val(read.qualities), 33, t))",
           same_length="len(val(read.qualities)) == len(read.sequence)")


@contract("predicates.py", "TooManyExpectedErrors.test", props=["C11"])
def too_many_ee(c):
    c.types(self=ObjT("TooManyExpectedErrors", max_errors=Real), read=Record, info=InfoT)
    c.returns(Bool)
    c.spec(ee_spec)
    c.requires(**QOK)
    c.ensures(expected_errors_above_threshold="result == (SUMT(val(read.qualities), 33, len(val(read.qualities))) > self.max_errors)")
    c.mutant("> self.max_errors", ">= self.max_errors")


@contract("predicates.py", "TooHighAverageErrorRate.test", props=["C11"])
def too_high_aer(c):
    c.types(self=ObjT("TooHighAverageErrorRate", max_error_rate=Real), read=Record, info=InfoT)
    c.returns(Bool)
    c.spec(ee_spec)
    c.requires(**QOK)
    c.ensures(
        expected_errors_per_base_above_threshold="implies(len(read.sequence) > 0, result == (SUMT(val(read.qualities), 33, len(val(read.qualities))) / len(read.sequence) > self.max_error_rate))",
        empty_read_passes="implies(len(read.sequence) == 0, result == False)",
    )
    c.mutant("> self.max_error_rate", ">= self.max_error_rate")
    c.mutant("read_length == 0", "read_length == 1")


@contract("predicates.py", "CasavaFiltered.test", props=["C11"])
def casava_filtered(c):
    c.types(self=ObjT("CasavaFiltered"), read=Record, info=InfoT)
    c.returns(Bool)
    c.spec(lambda cx: cx.spec.setdefault("first_space", lambda s: __import__("pyvc.world", fromlist=["x"]).first_index(cx, as_str(s), 32)))
    P = "first_space(read.name)"
    c.ensures(
        y_flag_in_the_casava_field=f"result == ({P} + 5 <= len(read.name) and code(read.name, {P} + 2) == 58 and code(read.name, {P} + 3) == 89 and code(read.name, {P} + 4) == 58)",
        no_comment_field_passes=f"implies({P} == len(read.name), result == False)",
    )
    c.mutant("right[1:4]", "right[0:3]")
    c.mutant("':Y:'", "':N:'")


@contract("predicates.py", "IsUntrimmed.test", props=["C11"])
def is_untrimmed(c):
    c.types(self=ObjT("IsUntrimmed"), read=Record, info=InfoT)
    c.returns(Bool)
    c.ensures(no_adapter_found="result == (len(info.matches) == 0)")
    c.mutant("not info.matches", "bool(info.matches)")


@contract("predicates.py", "IsTrimmed.test", props=["C11"])
def is_trimmed(c):
    c.types(self=ObjT("IsTrimmed"), read=Record, info=InfoT)
    c.returns(Bool)
    c.ensures(adapter_found="result == (len(info.matches) > 0)")
    c.mutant("bool(info.matches)", "not info.matches")


def extra_checks(res, tier, seed, known, log):
    from pyvc import runner
    runner.cli_grid(res, "C11", tier, seed, known, quick=40, thorough=400)
