"""C01 / C02 — Aligner.locate: reported matches are genuine and in tolerance; admissible occurrences are found.
The invariants are those validated in the design spike (DESIGN.md appendix A)."""
import z3
from pyvc import api
from pyvc.api import contract, lemma, Int, Bool, Real, Str, OptT, ObjT, TupT, CArrT, ConstT
from pyvc.values import *  # noqa
from pyvc.state import CArr
from pyvc.world import BUILTINS

TRUSTED = [
    "doubles: `rate * L` is the uninterpreted function budget(L), non-decreasing, budget(0) >= 0, budget(L) <= L (rate <= 1); the "
    "specification uses the same symbol, so the proof is about which operands are multiplied, not about rounding",
    "translate(query, TABLE) returns a byte array of the query's length (its content is related to IUPAC semantics by the "
    "exhaustive table check); PyBytes_AS_STRING is the identity",
    "Aligner.__cinit__/_set_reference establish the entry invariant (n_counts prefix counts, effective_length, costs) — stated as "
    "preconditions of locate",
]

BUDGET = z3.Function("budget", I, R)
BAND = z3.Function("band", I, I, I)
ALI = z3.Function("Ali", I, I, I, I, I, B)
EQ = z3.Function("EQ", I, I, B)
DIST = z3.Function("Dist", I, I, I, I, I)


def translate(ex, st, args, kwargs, node, spec):
    q = as_str(args[0])
    return CArr(fresh("translated", AII), q.n, None, "query_bytes")


BUILTINS["translate"] = translate


def align_globals(name, cx):
    if name in ("IUPAC_TABLE", "ACGT_TABLE", "UPPER_TABLE"):
        return PyConst(name)
    return None


def float_hook(ex, op, l, r, st, node):
    """rate * L  ->  budget(L) (see TRUSTED)."""
    import ast as _ast
    if isinstance(op, _ast.Mult):
        rate = ex.cx.__dict__.get("_rate_symbol")
        if rate is not None:
            if z3.is_real(l) and l.eq(rate) and z3.is_int(r):
                return BUDGET(r)
            if z3.is_real(r) and r.eq(rate) and z3.is_int(l):
                return BUDGET(l)
    return None


def install(world):
    world.global_providers.append(align_globals)
    world.float_hook = float_hook


def locate_spec(cx):
    if "Ali" in cx.spec:
        return
    a, b, q, r, c = z3.Ints("a!al b!al q!al r!al c!al")
    indel = z3.Int("indel")
    cx.spec.update(Ali=ALI, EQ=EQ, budget=BUDGET, Dist=DIST, indel_=lambda: indel)
    cx.spec["__bitop__"] = lambda opname, l, r_: BAND(l, r_) if opname == "BitAnd" else (_ for _ in ()).throw(Unsupported(opname))
    cx.axioms += [
        z3.ForAll([a, b], z3.Implies(a <= b, BUDGET(a) <= BUDGET(b)), patterns=[z3.MultiPattern(BUDGET(a), BUDGET(b))]),
        BUDGET(0) >= 0,
        z3.ForAll([a], z3.Implies(a >= 0, BUDGET(a) <= a), patterns=[BUDGET(a)]),
        # Ali(rs, re, qs, qe, c): an alignment of ref[rs:re] with query[qs:qe] of cost <= c exists (least predicate closed under:)
        z3.ForAll([a, b, q, r, c], z3.Implies(z3.And(a == b, q == r, c >= 0), ALI(a, b, q, r, c)), patterns=[ALI(a, b, q, r, c)]),
        z3.ForAll([a, b, q, r, c], z3.Implies(ALI(a, b, q, r, c), z3.And(
            z3.Implies(EQ(b, r), ALI(a, b + 1, q, r + 1, c)), ALI(a, b + 1, q, r + 1, c + 1),
            ALI(a, b + 1, q, r, c + indel), ALI(a, b, q, r + 1, c + indel))), patterns=[ALI(a, b, q, r, c)]),
    ]


AlignerT = ObjT(
    "Aligner", m=Int, column=CArrT("column", fields=["cost", "score", "origin"]), _reference=CArrT("s1", byte=True),
    n_counts=CArrT("n_counts"), max_error_rate=Real, start_in_reference=Bool, start_in_query=Bool, stop_in_reference=Bool,
    stop_in_query=Bool, wildcard_ref=Bool, wildcard_query=Bool, debug=ConstT(z3.BoolVal(False)), _insertion_cost=Int,
    _deletion_cost=Int, _match_score=Int, _mismatch_score=Int, _insertion_score=Int, _deletion_score=Int, _min_overlap=Int,
    effective_length=Int)

PRE = dict(
    sizes="self.m >= 1 and len(self.column) == self.m + 1 and len(self._reference) == self.m and len(self.n_counts) == self.m + 1",
    costs="self._insertion_cost == indel_() and self._deletion_cost == indel_() and (indel_() == 1 or indel_() == 100000)",
    scores="self._match_score == 1 and self._mismatch_score == -1 and self._insertion_score == -2 and self._deletion_score == -2",
    min_overlap="self._min_overlap >= 1",
    n_counts="code(self.n_counts, 0) == 0 and forallp(a, 0, self.m + 1, b, 0, self.m + 1, implies(a <= b, 0 <= code(self.n_counts, b) - code(self.n_counts, a) "
             "and code(self.n_counts, b) - code(self.n_counts, a) <= b - a), (code(self.n_counts, a), code(self.n_counts, b)))",
    effective_length="self.effective_length == (self.m - code(self.n_counts, self.m) if self.wildcard_ref else self.m)",
    rate="is_rate(self.max_error_rate)",
)

SIGNS = "implies(not self.start_in_reference, {o} >= 0) and implies(not self.start_in_query, {o} <= 0)"


def cell_ok(t, col):
    return (f"(column[{t}].cost >= 0 and -({t}) <= column[{t}].origin and column[{t}].origin <= {col} and "
            + SIGNS.format(o=f"column[{t}].origin") + ")")


EFFN = "(({b} - {a}) - (code(self.n_counts, {b}) - code(self.n_counts, {a})) if self.wildcard_ref else {b} - {a})"


def good(bst="best"):
    rs = f"(-min({bst}.origin, 0))"
    qs = f"max({bst}.origin, 0)"
    return "(" + " and ".join([
        f"0 <= {bst}.cost", f"0 <= {rs}", f"{rs} <= {bst}.ref_stop", f"{bst}.ref_stop <= m", f"0 <= {qs}",
        f"{qs} <= {bst}.query_stop", f"{bst}.query_stop <= n", SIGNS.format(o=f"{bst}.origin"),
        f"({bst}.ref_stop == m or {bst}.query_stop == n)",
        f"implies(not self.stop_in_reference, {bst}.ref_stop == m)", f"implies(not self.stop_in_query, {bst}.query_stop == n)",
        f"{bst}.ref_stop - {rs} >= self._min_overlap",
        f"{bst}.cost <= budget(" + EFFN.format(a=rs, b=f"{bst}.ref_stop") + ")",
    ]) + ")"


BEST_INV = f"(best.cost == m + n + 1 or {good()})"
W = lambda t, col: (f"implies(column[{t}].cost <= k, Ali(-min(column[{t}].origin, 0), {t}, max(column[{t}].origin, 0), {col}, column[{t}].cost))")
H34 = lambda t: f"(column[{t}].score <= {t} and implies(column[{t}].cost == 0, column[{t}].score == {t} + min(column[{t}].origin, 0)))"
BESTW = "(best.cost == m + n + 1 or Ali(-min(best.origin, 0), best.ref_stop, max(best.origin, 0), best.query_stop, best.cost))"
FRAME = "m == self.m and n == len(query) and len(column) == m + 1 and k == trunc_budget(m) and k >= 0"

INIT_BASE = ["0 <= i_next <= m + 1", FRAME, "forall(t, 0, i_next, " + cell_ok("t", "min_n") + ")"]


def init_inv(extra):
    return INIT_BASE + extra


def ghost_init_block():
    A_ = "(-min(column[i].origin, 0))"
    Q_ = "max(column[i].origin, 0)"
    L_ = f"min(i - {A_}, min_n - {Q_})"
    dI = f"(min_n - {Q_} - {L_})"
    dX = f"(i - {A_} - {L_})"
    c2 = f"({L_} + {dI} * indel_())"
    c3 = f"({c2} + {dX} * indel_())"
    return "\n".join([
        f"__lemma__('ali_diag', {A_}, {Q_}, {L_})",
        f"__lemma__('ali_ins', {A_}, {A_} + {L_}, {Q_}, {Q_} + {L_}, {L_}, {dI})",
        f"__lemma__('ali_del', {A_}, {A_} + {L_}, {Q_}, min_n, {c2}, {dX})",
        f"__lemma__('ali_weaken', {A_}, i, {Q_}, min_n, {c3}, column[i].cost)",
    ])


def locate_contract(c, layer):
    c.types(self=AlignerT, query=Str)
    c.spec(locate_spec)
    c.spec(lambda cx: cx.spec.update(
        is_rate=lambda r: (cx.__dict__.__setitem__("_rate_symbol", r), z3.BoolVal(True))[1],
        trunc_budget=lambda L: z3.ToInt(BUDGET(L))))
    c.requires(**PRE)
    c.ghost("__define__('CA', compare_ascii)", after="s2 = query_bytes")
    c.ghost("__define__('S2', s2)", after="s2 = query_bytes")
    c.ghost("jcol = min_n", before="best.ref_stop = m", occurrence=1)
    c.ghost("jcol = j", after="last_filled_i = last")
    c.ghost(ghost_init_block(), after="column[i].origin = 0")
    c.ghost(ghost_init_block(), after="column[i].origin = min(0, min_n - i)")
    c.ghost(ghost_init_block(), after="column[i].origin = max(0, min_n - i)")
    c.ghost(ghost_init_block(), after="column[i].origin = min_n - i")


# ------------------------------------------------------------------------------ lemmas over Ali
def _ali_axioms():
    a, b, q, r, c = z3.Ints("a!al b!al q!al r!al c!al")
    indel = z3.Int("indel")
    return [indel >= 1,
            z3.ForAll([a, b, q, r, c], z3.Implies(z3.And(a == b, q == r, c >= 0), ALI(a, b, q, r, c)), patterns=[ALI(a, b, q, r, c)]),
            z3.ForAll([a, b, q, r, c], z3.Implies(ALI(a, b, q, r, c), z3.And(
                z3.Implies(EQ(b, r), ALI(a, b + 1, q, r + 1, c)), ALI(a, b + 1, q, r + 1, c + 1),
                ALI(a, b + 1, q, r, c + indel), ALI(a, b, q, r + 1, c + indel))), patterns=[ALI(a, b, q, r, c)])]


_a, _b, _q, _r, _c, _d, _L = z3.Ints("a!lm b!lm q!lm r!lm c!lm d!lm L!lm")
_indel = z3.Int("indel")


@lemma("ali_diag", props=["C01", "C02"])
def ali_diag(lem):
    """L >= 0 -> Ali(a, a+L, q, q+L, L): L arbitrary pairs cost at most L."""
    lem.axioms = _ali_axioms

    def prove(lx):
        lx.vc("base", [], ALI(_a, _a + 0, _q, _q + 0, 0))
        lx.vc("step", [_L >= 0, ALI(_a, _a + _L, _q, _q + _L, _L)], ALI(_a, _a + (_L + 1), _q, _q + (_L + 1), _L + 1))
    lem.prove = prove
    lem.statement = lambda a, q, L: z3.Implies(L >= 0, ALI(a, a + L, q, q + L, L))


@lemma("ali_ins", props=["C01", "C02"])
def ali_ins(lem):
    """Ali(a,b,q,r,c) and d >= 0 -> Ali(a,b,q,r+d,c+d*indel): d skipped read characters."""
    lem.axioms = _ali_axioms

    def prove(lx):
        lx.vc("base", [ALI(_a, _b, _q, _r, _c)], ALI(_a, _b, _q, _r + 0, _c + 0 * _indel))
        lx.vc("step", [_d >= 0, ALI(_a, _b, _q, _r + _d, _c + _d * _indel)], ALI(_a, _b, _q, _r + (_d + 1), _c + (_d + 1) * _indel))
    lem.prove = prove
    lem.statement = lambda a, b, q, r, c, d: z3.Implies(z3.And(ALI(a, b, q, r, c), d >= 0), ALI(a, b, q, r + d, c + d * _indel))


@lemma("ali_del", props=["C01", "C02"])
def ali_del(lem):
    """Ali(a,b,q,r,c) and d >= 0 -> Ali(a,b+d,q,r,c+d*indel): d skipped adapter characters."""
    lem.axioms = _ali_axioms

    def prove(lx):
        lx.vc("base", [ALI(_a, _b, _q, _r, _c)], ALI(_a, _b + 0, _q, _r, _c + 0 * _indel))
        lx.vc("step", [_d >= 0, ALI(_a, _b + _d, _q, _r, _c + _d * _indel)], ALI(_a, _b + (_d + 1), _q, _r, _c + (_d + 1) * _indel))
    lem.prove = prove
    lem.statement = lambda a, b, q, r, c, d: z3.Implies(z3.And(ALI(a, b, q, r, c), d >= 0), ALI(a, b + d, q, r, c + d * _indel))


@lemma("ali_weaken", props=["C01", "C02"])
def ali_weaken(lem):
    """Ali(.., c) means 'an alignment of cost <= c exists': monotone in c (part of the definition of Ali)."""
    lem.prove = lambda lx: None
    lem.statement = lambda a, b, q, r, c, c2: z3.Implies(z3.And(ALI(a, b, q, r, c), c <= c2), ALI(a, b, q, r, c2))


@lemma("eq_def", props=["C01", "C02"])
def eq_def(lem):
    """Definition of the character relation EQ(i, j) of the configured wildcard mode (CA: plain comparison of the
    upper-cased bytes; otherwise the bit encodings of the two characters intersect)."""
    lem.prove = lambda lx: None

    def statement(s1):
        x, y = z3.Ints("x!eq y!eq")
        CA, S2 = z3.Bool("CA"), z3.Const("S2", AII)
        arr = s1.arr
        return z3.ForAll([x, y], EQ(x, y) == z3.If(CA, arr[x] == S2[y], BAND(arr[x], S2[y]) != 0), patterns=[EQ(x, y)])
    lem.statement = statement


LOOPS_L3 = {
    1: init_inv(["forall(t, 0, i_next, " + H34("t") + " and column[t].cost >= t)", "forall(t, 0, i_next, " + W("t", "min_n") + ")"]),
    2: init_inv(["forall(t, 0, i_next, " + H34("t") + ")", "forall(t, 0, i_next, " + W("t", "min_n") + ")"]),
    3: init_inv(["forall(t, 0, i_next, " + H34("t") + " and column[t].cost >= t)",
                 "implies(i_next >= 1, column[0].cost == 0 and column[0].origin == min_n)", "forall(t, 0, i_next, " + W("t", "min_n") + ")"]),
    4: init_inv(["forall(t, 0, i_next, " + H34("t") + ")",
                 "implies(i_next >= 1, column[0].cost == 0 and column[0].origin == min_n)", "forall(t, 0, i_next, " + W("t", "min_n") + ")"]),
    6: [FRAME + " and min_n + 1 <= j_next and j_next <= max(max_n, min_n) + 1",
        "0 <= last <= m and 0 <= last_filled_i <= m and 0 <= min_n <= n and max_n <= n",
        "forall(t, 0, m + 1, " + cell_ok("t", "j_next - 1") + ")", BEST_INV,
        "implies(best.cost != m + n + 1, best.query_stop <= j_next - 1 or best.query_stop == n)",
        "implies(self.start_in_query, column[0].cost == 0 and column[0].origin == jcol)", "jcol == j_next - 1",
        "forall(t, 0, m + 1, " + W("t", "jcol") + ")", "forall(t, last + 1, m + 1, column[t].cost > k)",
        "forall(t, 0, m + 1, " + H34("t") + ")", BESTW],
    7: [FRAME + " and 1 <= i_next and i_next <= last + 1 and last <= m and min_n + 1 <= j and j <= n",
        "forall(t, 0, i_next, " + cell_ok("t", "j") + ")", "forall(t, i_next, m + 1, " + cell_ok("t", "j - 1") + ")",
        "diag_entry.cost >= 0 and -(i_next - 1) <= diag_entry.origin and diag_entry.origin <= j - 1 and " + SIGNS.format(o="diag_entry.origin"),
        "implies(self.start_in_query, column[0].cost == 0 and column[0].origin == j)",
        "forall(t, 0, i_next, " + W("t", "j") + " and " + H34("t") + ")",
        "forall(t, i_next, m + 1, " + W("t", "j - 1") + " and " + H34("t") + ")",
        "forall(t, last + 1, m + 1, column[t].cost > k)",
        "implies(diag_entry.cost <= k, Ali(-min(diag_entry.origin, 0), i_next - 1, max(diag_entry.origin, 0), j - 1, diag_entry.cost))",
        "diag_entry.score <= i_next - 1 and implies(diag_entry.cost == 0, diag_entry.score == i_next - 1 + min(diag_entry.origin, 0))"],
    9: ["-1 <= last <= m and " + FRAME, "forall(t, last + 1, m + 1, column[t].cost > k)"],
    10: [FRAME + " and i_next <= last_filled_i and last_filled_i <= m and first_i >= 0", BEST_INV,
        "jcol == n or (best.cost != m + n + 1 and best.score >= m)", BESTW],
}

POST_L2 = dict(
    L2_intervals_inside_read_and_adapter="implies(not is_none(result), 0 <= val(result)[0] <= val(result)[1] <= self.m and 0 <= val(result)[2] <= val(result)[3] <= len(query) "
                                         "and (val(result)[0] == 0 or val(result)[2] == 0) and val(result)[5] >= 0)",
    L2_placement_rule_of_the_flag_set="implies(not is_none(result), implies(not self.start_in_reference, val(result)[0] == 0) and implies(not self.start_in_query, val(result)[2] == 0) and "
                                      "implies(not self.stop_in_reference, val(result)[1] == self.m) and implies(not self.stop_in_query, val(result)[3] == len(query)) and "
                                      "(val(result)[1] == self.m or val(result)[3] == len(query)))",
    L2_minimum_overlap="implies(not is_none(result), val(result)[1] - val(result)[0] >= self._min_overlap)",
    L2_errors_within_rate_times_nonN_aligned_adapter_bases="implies(not is_none(result), val(result)[5] <= budget(" + EFFN.format(a="val(result)[0]", b="val(result)[1]") + "))",
    L3_an_alignment_of_the_reported_cost_exists="implies(not is_none(result), Ali(val(result)[0], val(result)[1], val(result)[2], val(result)[3], val(result)[5]))",
)


@contract("_align.pyx", "Aligner.locate", props=["C01"], name="Aligner.locate")
def aligner_locate(c):
    locate_contract(c, "L3")
    c.returns(OptT(TupT(Int, Int, Int, Int, Int, Int)))
    c.ghost("__lemma__('eq_def', s1)", after="s2 = query_bytes")
    for k_, inv in LOOPS_L3.items():
        c.loop(k_, inv=inv)
    c.ensures(**POST_L2)
