"""C01 / C02 — Aligner.locate: reported matches are genuine and in tolerance; admissible occurrences are found.
The invariants are those validated in the design spike (DESIGN.md appendix A)."""
import z3
from pyvc import api
from pyvc.api import contract, lemma, Int, Bool, Real, Str, OptT, ObjT, TupT, CArrT, ConstT
from pyvc.values import *  # noqa
from pyvc.state import CArr
from pyvc.world import BUILTINS

TRUSTED = [
    "doubles: `rate * L` is the uninterpreted function budget(L), non-decreasing, budget(0) >= 0, budget(L) <= L (rate <= 1); the "
    "specification uses the same symbol, so the proof is about which operands are multiplied, not about rounding",
    "translate(query, TABLE) returns a byte array of the query's length (its content is related to IUPAC semantics by the "
    "exhaustive table check); PyBytes_AS_STRING is the identity",
    "Aligner.__cinit__/_set_reference establish the entry invariant (n_counts prefix counts, effective_length, costs) — stated as "
    "preconditions of locate",
]

BUDGET = z3.Function("budget", I, R)
BAND = z3.Function("band", I, I, I)
ALI = z3.Function("Ali", I, I, I, I, I, B)
EQ = z3.Function("EQ", I, I, B)
DIST = z3.Function("Dist", I, I, I, I, I)


TABLE_FN = {n_: z3.Function("TABLE." + n_, I, I) for n_ in ("IUPAC_TABLE", "ACGT_TABLE", "UPPER_TABLE")}


def translate(ex, st, args, kwargs, node, spec):
    """bytes of the string's length, each the table entry of the character (which table is applied is part of the contracts;
    the table contents are checked exhaustively against the IUPAC semantics)"""
    q = as_str(args[0])
    arr = fresh("translated", AII)
    tb = args[1] if len(args) > 1 else None
    if isinstance(tb, PyConst) and tb.v in TABLE_FN:
        from pyvc import heap
        t = z3.Int("t!tr")
        src = heap.named_array(ex.cx, q.arr)
        ex.cx.axioms.append(z3.ForAll([t], arr[t] == TABLE_FN[tb.v](src[t]), patterns=[arr[t]]))
        # two entries in which the tables differ (part of the exhaustive table check): N is the full class under IUPAC and
        # nothing under ACGT
        ex.cx.axioms += [TABLE_FN["IUPAC_TABLE"](z3.IntVal(78)) == 15, TABLE_FN["ACGT_TABLE"](z3.IntVal(78)) == 0]
    return CArr(arr, q.n, None, "query_bytes")


BUILTINS["translate"] = translate


def align_globals(name, cx):
    if name in ("IUPAC_TABLE", "ACGT_TABLE", "UPPER_TABLE"):
        return PyConst(name)
    return None


def float_hook(ex, op, l, r, st, node):
    """rate * L  ->  budget(L) (see TRUSTED)."""
    import ast as _ast
    if isinstance(op, _ast.Mult):
        rate = ex.cx.__dict__.get("_rate_symbol")
        if rate is not None:
            if z3.is_real(l) and l.eq(rate) and z3.is_int(r):
                return BUDGET(r)
            if z3.is_real(r) and r.eq(rate) and z3.is_int(l):
                return BUDGET(l)
    return None


def install(world):
    world.global_providers.append(align_globals)
    world.float_hook = float_hook


def locate_spec(cx):
    if "Ali" in cx.spec:
        return
    a, b, q, r, c = z3.Ints("a!al b!al q!al r!al c!al")
    indel = z3.Int("indel")
    cx.spec.update(Ali=ALI, EQ=EQ, budget=BUDGET, Dist=DIST, indel_=lambda: indel)
    cx.spec["__bitop__"] = lambda opname, l, r_: BAND(l, r_) if opname == "BitAnd" else (_ for _ in ()).throw(Unsupported(opname))
    cx.axioms += [
        z3.ForAll([a, b], z3.Implies(a <= b, BUDGET(a) <= BUDGET(b)), patterns=[z3.MultiPattern(BUDGET(a), BUDGET(b))]),
        BUDGET(0) >= 0,
        z3.ForAll([a], z3.Implies(a >= 0, BUDGET(a) <= a), patterns=[BUDGET(a)]),
        # Ali(rs, re, qs, qe, c): an alignment of ref[rs:re] with query[qs:qe] of cost <= c exists (least predicate closed under:)
        z3.ForAll([a, b, q, r, c], z3.Implies(z3.And(a == b, q == r, c >= 0), ALI(a, b, q, r, c)), patterns=[ALI(a, b, q, r, c)]),
        z3.ForAll([a, b, q, r, c], z3.Implies(ALI(a, b, q, r, c), z3.And(
            z3.Implies(EQ(b, r), ALI(a, b + 1, q, r + 1, c)), ALI(a, b + 1, q, r + 1, c + 1),
            ALI(a, b + 1, q, r, c + indel), ALI(a, b, q, r + 1, c + indel))), patterns=[ALI(a, b, q, r, c)]),
    ]


AlignerT = ObjT(
    "Aligner", m=Int, column=CArrT("column", fields=["cost", "score", "origin"]), _reference=CArrT("s1", byte=True),
    n_counts=CArrT("n_counts"), max_error_rate=Real, start_in_reference=Bool, start_in_query=Bool, stop_in_reference=Bool,
    stop_in_query=Bool, wildcard_ref=Bool, wildcard_query=Bool, debug=ConstT(z3.BoolVal(False)), _insertion_cost=Int,
    _deletion_cost=Int, _match_score=Int, _mismatch_score=Int, _insertion_score=Int, _deletion_score=Int, _min_overlap=Int,
    effective_length=Int)

PRE = dict(
    sizes="self.m >= 1 and len(self.column) == self.m + 1 and len(self._reference) == self.m and len(self.n_counts) == self.m + 1",
    costs="self._insertion_cost == indel_() and self._deletion_cost == indel_() and (indel_() == 1 or indel_() == 100000)",
    scores="self._match_score == 1 and self._mismatch_score == -1 and self._insertion_score == -2 and self._deletion_score == -2",
    min_overlap="self._min_overlap >= 1",
    n_counts="code(self.n_counts, 0) == 0 and forallp(a, 0, self.m + 1, b, 0, self.m + 1, implies(a <= b, 0 <= code(self.n_counts, b) - code(self.n_counts, a) "
             "and code(self.n_counts, b) - code(self.n_counts, a) <= b - a), (code(self.n_counts, a), code(self.n_counts, b)))",
    effective_length="self.effective_length == (self.m - code(self.n_counts, self.m) if self.wildcard_ref else self.m)",
    rate="is_rate(self.max_error_rate)",
)

SIGNS = "implies(not self.start_in_reference, {o} >= 0) and implies(not self.start_in_query, {o} <= 0)"


def cell_ok(t, col):
    return (f"(column[{t}].cost >= 0 and -({t}) <= column[{t}].origin and column[{t}].origin <= {col} and "
            + SIGNS.format(o=f"column[{t}].origin") + ")")


EFFN = "(({b} - {a}) - (code(self.n_counts, {b}) - code(self.n_counts, {a})) if self.wildcard_ref else {b} - {a})"


def good(bst="best"):
    rs = f"(-min({bst}.origin, 0))"
    qs = f"max({bst}.origin, 0)"
    return "(" + " and ".join([
        f"0 <= {bst}.cost", f"0 <= {rs}", f"{rs} <= {bst}.ref_stop", f"{bst}.ref_stop <= m", f"0 <= {qs}",
        f"{qs} <= {bst}.query_stop", f"{bst}.query_stop <= n", SIGNS.format(o=f"{bst}.origin"),
        f"({bst}.ref_stop == m or {bst}.query_stop == n)",
        f"implies(not self.stop_in_reference, {bst}.ref_stop == m)", f"implies(not self.stop_in_query, {bst}.query_stop == n)",
        f"{bst}.ref_stop - {rs} >= self._min_overlap",
        f"{bst}.cost <= budget(" + EFFN.format(a=rs, b=f"{bst}.ref_stop") + ")",
    ]) + ")"


BEST_INV = f"(best.cost == m + n + 1 or {good()})"
W = lambda t, col: (f"implies(column[{t}].cost <= k, Ali(-min(column[{t}].origin, 0), {t}, max(column[{t}].origin, 0), {col}, column[{t}].cost))")
H34 = lambda t: f"(column[{t}].score <= {t} and implies(column[{t}].cost == 0, column[{t}].score == {t} + min(column[{t}].origin, 0)))"
BESTW = "(best.cost == m + n + 1 or Ali(-min(best.origin, 0), best.ref_stop, max(best.origin, 0), best.query_stop, best.cost))"
FRAME = "m == self.m and n == len(query) and len(column) == m + 1 and k == trunc_budget(m) and k >= 0"

INIT_BASE = ["0 <= i_next <= m + 1", FRAME, "forall(t, 0, i_next, " + cell_ok("t", "min_n") + ")"]


def init_inv(extra):
    return INIT_BASE + extra


def ghost_init_block():
    A_ = "(-min(column[i].origin, 0))"
    Q_ = "max(column[i].origin, 0)"
    L_ = f"min(i - {A_}, min_n - {Q_})"
    dI = f"(min_n - {Q_} - {L_})"
    dX = f"(i - {A_} - {L_})"
    c2 = f"({L_} + {dI} * indel_())"
    c3 = f"({c2} + {dX} * indel_())"
    return "\n".join([
        f"__lemma__('ali_diag', {A_}, {Q_}, {L_})",
        f"__lemma__('ali_ins', {A_}, {A_} + {L_}, {Q_}, {Q_} + {L_}, {L_}, {dI})",
        f"__lemma__('ali_del', {A_}, {A_} + {L_}, {Q_}, min_n, {c2}, {dX})",
        f"__lemma__('ali_weaken', {A_}, i, {Q_}, min_n, {c3}, column[i].cost)",
    ])


def locate_contract(c, layer):
    c.types(self=AlignerT, query=Str)
    c.spec(locate_spec)
    c.spec(lambda cx: cx.spec.update(
        is_rate=lambda r: (cx.__dict__.__setitem__("_rate_symbol", r), z3.BoolVal(True))[1],
        trunc_budget=lambda L: z3.ToInt(BUDGET(L))))
    c.requires(**PRE)
    c.ghost("__define__('CA', compare_ascii)", after="s2 = query_bytes")
    c.ghost("__define__('S2', s2)", after="s2 = query_bytes")
    if layer == "L3":
        # the read is encoded with the table of the configured wildcard mode: IUPAC classes when read wildcards are on, plain
        # A/C/G/T bits when only adapter wildcards are on (an N in the read then matches nothing), upper-cased characters
        # compared as they are otherwise
        c.spec(lambda cx: cx.spec.update(table_code=lambda name, x: TABLE_FN[name.v](x)))
        c.ghost("__assert__(forall(t, 0, len(query), code(s2, t) == (table_code('IUPAC_TABLE', code(query, t)) if self.wildcard_query else "
                "(table_code('ACGT_TABLE', code(query, t)) if self.wildcard_ref else table_code('UPPER_TABLE', code(query, t))))) and "
                "compare_ascii == (not self.wildcard_query and not self.wildcard_ref), 'read_encoded_with_the_table_of_the_wildcard_mode')",
                after="s2 = query_bytes")
    c.ghost("jcol = min_n", before="best.ref_stop = m", occurrence=1)
    c.ghost("jcol = j", after="last_filled_i = last")
    c.ghost(ghost_init_block(), after="column[i].origin = 0")
    c.ghost(ghost_init_block(), after="column[i].origin = min(0, min_n - i)")
    c.ghost(ghost_init_block(), after="column[i].origin = max(0, min_n - i)")
    c.ghost(ghost_init_block(), after="column[i].origin = min_n - i")


# ------------------------------------------------------------------------------ lemmas over Ali
def _ali_axioms():
    a, b, q, r, c = z3.Ints("a!al b!al q!al r!al c!al")
    indel = z3.Int("indel")
    return [indel >= 1,
            z3.ForAll([a, b, q, r, c], z3.Implies(z3.And(a == b, q == r, c >= 0), ALI(a, b, q, r, c)), patterns=[ALI(a, b, q, r, c)]),
            z3.ForAll([a, b, q, r, c], z3.Implies(ALI(a, b, q, r, c), z3.And(
                z3.Implies(EQ(b, r), ALI(a, b + 1, q, r + 1, c)), ALI(a, b + 1, q, r + 1, c + 1),
                ALI(a, b + 1, q, r, c + indel), ALI(a, b, q, r + 1, c + indel))), patterns=[ALI(a, b, q, r, c)])]


_a, _b, _q, _r, _c, _d, _L = z3.Ints("a!lm b!lm q!lm r!lm c!lm d!lm L!lm")
_indel = z3.Int("indel")


@lemma("ali_diag", props=["C01", "C02"])
def ali_diag(lem):
    """L >= 0 -> Ali(a, a+L, q, q+L, L): L arbitrary pairs cost at most L."""
    lem.axioms = _ali_axioms

    def prove(lx):
        lx.vc("base", [], ALI(_a, _a + 0, _q, _q + 0, 0))
        lx.vc("step", [_L >= 0, ALI(_a, _a + _L, _q, _q + _L, _L)], ALI(_a, _a + (_L + 1), _q, _q + (_L + 1), _L + 1))
    lem.prove = prove
    lem.statement = lambda a, q, L: z3.Implies(L >= 0, ALI(a, a + L, q, q + L, L))


@lemma("ali_ins", props=["C01", "C02"])
def ali_ins(lem):
    """Ali(a,b,q,r,c) and d >= 0 -> Ali(a,b,q,r+d,c+d*indel): d skipped read characters."""
    lem.axioms = _ali_axioms

    def prove(lx):
        lx.vc("base", [ALI(_a, _b, _q, _r, _c)], ALI(_a, _b, _q, _r + 0, _c + 0 * _indel))
        lx.vc("step", [_d >= 0, ALI(_a, _b, _q, _r + _d, _c + _d * _indel)], ALI(_a, _b, _q, _r + (_d + 1), _c + (_d + 1) * _indel))
    lem.prove = prove
    lem.statement = lambda a, b, q, r, c, d: z3.Implies(z3.And(ALI(a, b, q, r, c), d >= 0), ALI(a, b, q, r + d, c + d * _indel))


@lemma("ali_del", props=["C01", "C02"])
def ali_del(lem):
    """Ali(a,b,q,r,c) and d >= 0 -> Ali(a,b+d,q,r,c+d*indel): d skipped adapter characters."""
    lem.axioms = _ali_axioms

    def prove(lx):
        lx.vc("base", [ALI(_a, _b, _q, _r, _c)], ALI(_a, _b + 0, _q, _r, _c + 0 * _indel))
        lx.vc("step", [_d >= 0, ALI(_a, _b + _d, _q, _r, _c + _d * _indel)], ALI(_a, _b + (_d + 1), _q, _r, _c + (_d + 1) * _indel))
    lem.prove = prove
    lem.statement = lambda a, b, q, r, c, d: z3.Implies(z3.And(ALI(a, b, q, r, c), d >= 0), ALI(a, b + d, q, r, c + d * _indel))


@lemma("ali_weaken", props=["C01", "C02"])
def ali_weaken(lem):
    """Ali(.., c) means 'an alignment of cost <= c exists': monotone in c (part of the definition of Ali)."""
    lem.prove = lambda lx: None
    lem.statement = lambda a, b, q, r, c, c2: z3.Implies(z3.And(ALI(a, b, q, r, c), c <= c2), ALI(a, b, q, r, c2))


@lemma("eq_def", props=["C01", "C02"])
def eq_def(lem):
    """Definition of the character relation EQ(i, j) of the configured wildcard mode (CA: plain comparison of the
    upper-cased bytes; otherwise the bit encodings of the two characters intersect)."""
    lem.prove = lambda lx: None

    def statement(s1):
        x, y = z3.Ints("x!eq y!eq")
        CA, S2 = z3.Bool("CA"), z3.Const("S2", AII)
        arr = s1.arr
        return z3.ForAll([x, y], EQ(x, y) == z3.If(CA, arr[x] == S2[y], BAND(arr[x], S2[y]) != 0), patterns=[EQ(x, y)])
    lem.statement = statement


LOOPS_L3 = {
    1: init_inv(["forall(t, 0, i_next, " + H34("t") + " and column[t].cost >= t)", "forall(t, 0, i_next, " + W("t", "min_n") + ")"]),
    2: init_inv(["forall(t, 0, i_next, " + H34("t") + ")", "forall(t, 0, i_next, " + W("t", "min_n") + ")"]),
    3: init_inv(["forall(t, 0, i_next, " + H34("t") + " and column[t].cost >= t)",
                 "implies(i_next >= 1, column[0].cost == 0 and column[0].origin == min_n)", "forall(t, 0, i_next, " + W("t", "min_n") + ")"]),
    4: init_inv(["forall(t, 0, i_next, " + H34("t") + ")",
                 "implies(i_next >= 1, column[0].cost == 0 and column[0].origin == min_n)", "forall(t, 0, i_next, " + W("t", "min_n") + ")"]),
    6: [FRAME + " and min_n + 1 <= j_next and j_next <= max(max_n, min_n) + 1",
        "0 <= last <= m and 0 <= last_filled_i <= m and 0 <= min_n <= n and max_n <= n",
        "forall(t, 0, m + 1, " + cell_ok("t", "j_next - 1") + ")", BEST_INV,
        "implies(best.cost != m + n + 1, best.query_stop <= j_next - 1 or best.query_stop == n)",
        "implies(self.start_in_query, column[0].cost == 0 and column[0].origin == jcol)", "jcol == j_next - 1",
        "forall(t, 0, m + 1, " + W("t", "jcol") + ")", "forall(t, last + 1, m + 1, column[t].cost > k)",
        "forall(t, 0, m + 1, " + H34("t") + ")", BESTW],
    7: [FRAME + " and 1 <= i_next and i_next <= last + 1 and last <= m and min_n + 1 <= j and j <= n",
        "forall(t, 0, i_next, " + cell_ok("t", "j") + ")", "forall(t, i_next, m + 1, " + cell_ok("t", "j - 1") + ")",
        "diag_entry.cost >= 0 and -(i_next - 1) <= diag_entry.origin and diag_entry.origin <= j - 1 and " + SIGNS.format(o="diag_entry.origin"),
        "implies(self.start_in_query, column[0].cost == 0 and column[0].origin == j)",
        "forall(t, 0, i_next, " + W("t", "j") + " and " + H34("t") + ")",
        "forall(t, i_next, m + 1, " + W("t", "j - 1") + " and " + H34("t") + ")",
        "forall(t, last + 1, m + 1, column[t].cost > k)",
        "implies(diag_entry.cost <= k, Ali(-min(diag_entry.origin, 0), i_next - 1, max(diag_entry.origin, 0), j - 1, diag_entry.cost))",
        "diag_entry.score <= i_next - 1 and implies(diag_entry.cost == 0, diag_entry.score == i_next - 1 + min(diag_entry.origin, 0))"],
    9: ["-1 <= last <= m and " + FRAME, "forall(t, last + 1, m + 1, column[t].cost > k)"],
    10: [FRAME + " and i_next <= last_filled_i and last_filled_i <= m and first_i >= 0", BEST_INV,
        "jcol == n or (best.cost != m + n + 1 and best.score >= m)", BESTW],
}

POST_L2 = dict(
    L2_intervals_inside_read_and_adapter="implies(not is_none(result), 0 <= val(result)[0] <= val(result)[1] <= self.m and 0 <= val(result)[2] <= val(result)[3] <= len(query) "
                                         "and (val(result)[0] == 0 or val(result)[2] == 0) and val(result)[5] >= 0)",
    L2_placement_rule_of_the_flag_set="implies(not is_none(result), implies(not self.start_in_reference, val(result)[0] == 0) and implies(not self.start_in_query, val(result)[2] == 0) and "
                                      "implies(not self.stop_in_reference, val(result)[1] == self.m) and implies(not self.stop_in_query, val(result)[3] == len(query)) and "
                                      "(val(result)[1] == self.m or val(result)[3] == len(query)))",
    L2_minimum_overlap="implies(not is_none(result), val(result)[1] - val(result)[0] >= self._min_overlap)",
    L2_errors_within_rate_times_nonN_aligned_adapter_bases="implies(not is_none(result), val(result)[5] <= budget(" + EFFN.format(a="val(result)[0]", b="val(result)[1]") + "))",
    L3_an_alignment_of_the_reported_cost_exists="implies(not is_none(result), Ali(val(result)[0], val(result)[1], val(result)[2], val(result)[3], val(result)[5]))",
)


@contract("_align.pyx", "Aligner.locate", props=["C01"], name="Aligner.locate")
def aligner_locate(c):
    locate_contract(c, "L3")
    c.returns(OptT(TupT(Int, Int, Int, Int, Int, Int)))
    c.ghost("__lemma__('eq_def', s1)", after="s2 = query_bytes")
    for k_, inv in LOOPS_L3.items():
        c.loop(k_, inv=inv)
    c.ensures(**POST_L2)
    # soundness-breaking mutants (DESIGN.md appendix A.1)
    c.mutant("length = m + min(origin, 0)", "length = m")
    c.mutant("cost <= cur_effective_length * max_error_rate", "cost <= length * max_error_rate", occurrence=1)
    c.mutant("best.query_stop = j", "best.query_stop = j + 1")
    c.mutant("first_i = 0 if self.stop_in_reference else m", "first_i = 0")
    c.mutant("length >= self._min_overlap", "length >= self._min_overlap - 1", occurrence=1)
    c.mutant("while last >= 0 and column[last].cost > k", "while last >= -1 and column[last].cost > k")
    c.mutant("origin = previous_entry.origin", "origin = current_entry.origin")
    c.mutant("cost_diag = diag_entry.cost + 1", "cost_diag = diag_entry.cost")
    c.mutant("origin = diag_entry.origin", "origin = column[i].origin", occurrence=1)
    c.mutant("column[last].cost > k", "column[last].cost >= k")
    c.mutant("if cost == 0 and origin >= 0:", "if cost == 0:")
    c.mutant("column[0].cost += insertion_cost_increment", "pass")
    c.mutant("column[i].origin = min(0, min_n - i)", "column[i].origin = min(0, min_n - i) - 1")


# ------------------------------------------------------------------------------ Dist: the true edit distance
def _dist_def(a=None, q=None):
    """Wagner-Fischer recurrence: Dist(a, q, i, j) = distance between ref[a:i] and query[q:j] (indel cost `indel`)."""
    indel = z3.Int("indel")
    x, y = z3.Ints("x!dd y!dd")
    if a is None:
        a, q = z3.Ints("a!dd q!dd")
        vs = [a, q, x, y]
    else:
        vs = [x, y]
    D = lambda i_, j_: DIST(a, q, i_, j_)
    m3 = lambda u, v, w: z3.If(z3.And(u <= v, u <= w), u, z3.If(v <= w, v, w))
    return [
        z3.ForAll(vs, z3.Implies(z3.And(x == a, y >= q), D(x, y) == (y - q) * indel), patterns=[D(x, y)]),
        z3.ForAll(vs, z3.Implies(z3.And(y == q, x >= a), D(x, y) == (x - a) * indel), patterns=[D(x, y)]),
        z3.ForAll(vs, z3.Implies(z3.And(x > a, y > q), D(x, y) == m3(D(x - 1, y - 1) + z3.If(EQ(x - 1, y - 1), 0, 1),
                                                                      D(x - 1, y) + indel, D(x, y - 1) + indel)), patterns=[D(x, y)]),
    ]


@lemma("dist_facts", props=["C01", "C02"])
def dist_facts(lem):
    """Facts about Dist proved by strong induction on i + j (for arbitrary fixed a, q): non-negativity, the two
    one-step bounds, the diagonal lemma behind Ukkonen's cut-off, the upper bound max(i-a, j-q)*indel and the
    length-difference lower bound."""
    indel = z3.Int("indel")
    a, q, i, j, x, y = z3.Ints("a!df q!df i!df j!df x!df y!df")
    D = lambda i_, j_: DIST(a, q, i_, j_)
    mx = lambda u, v: z3.If(u >= v, u, v)
    P = lambda x_, y_: z3.And(D(x_, y_) >= 0, z3.Implies(y_ > q, D(x_, y_ - 1) <= D(x_, y_) + indel),
                              z3.Implies(x_ > a, D(x_ - 1, y_) <= D(x_, y_) + indel))
    UB = lambda x_, y_: D(x_, y_) <= mx(x_ - a, y_ - q) * indel
    LBd = lambda x_, y_: D(x_, y_) >= (y_ - q) - (x_ - a)

    def prove(lx):
        DEF = [z3.Or(indel == 1, indel == 100000)] + _dist_def(a, q)
        for nm, F in (("P", P), ("UB", UB), ("LB", LBd)):
            IH = z3.ForAll([x, y], z3.Implies(z3.And(a <= x, q <= y, x + y < i + j), F(x, y)), patterns=[D(x, y)])
            lx.vc(f"{nm}.strong_induction_step", DEF + [a <= i, q <= j, IH], F(i, j))
        Pall = z3.ForAll([x, y], z3.Implies(z3.And(a <= x, q <= y), P(x, y)), patterns=[D(x, y)])
        lx.vc("diagonal_from_P", DEF + [a < i, q < j, Pall], D(i - 1, j - 1) <= D(i, j))

    def statement():
        aa, qq, ii, jj = z3.Ints("a!ds q!ds i!ds j!ds")
        Dd = DIST(aa, qq, ii, jj)
        vs = [aa, qq, ii, jj]
        return z3.And(*(_dist_def() + [
            z3.ForAll(vs, z3.Implies(z3.And(aa <= ii, qq <= jj), Dd >= 0), patterns=[Dd]),
            z3.ForAll(vs, z3.Implies(z3.And(aa <= ii, qq < jj), DIST(aa, qq, ii, jj - 1) <= Dd + indel), patterns=[Dd]),
            z3.ForAll(vs, z3.Implies(z3.And(aa < ii, qq <= jj), DIST(aa, qq, ii - 1, jj) <= Dd + indel), patterns=[Dd]),
            z3.ForAll(vs, z3.Implies(z3.And(aa < ii, qq < jj), DIST(aa, qq, ii - 1, jj - 1) <= Dd), patterns=[Dd]),
            z3.ForAll(vs, z3.Implies(z3.And(aa <= ii, qq <= jj), Dd >= (jj - qq) - (ii - aa)), patterns=[Dd]),
        ]))

    lem.prove = prove
    lem.statement = statement


@lemma("dist_upper_bound", props=["C01", "C02"])
def dist_upper_bound(lem):
    """Instance of UB (proved in dist_facts): Dist(a, q, i, j) <= max(i - a, j - q) * indel for a <= i, q <= j."""
    indel = z3.Int("indel")
    lem.prove = lambda lx: None
    lem.statement = lambda a, q, i, j: z3.Implies(z3.And(a <= i, q <= j), DIST(a, q, i, j) <= z3.If(i - a >= j - q, i - a, j - q) * indel)


def merge_loops(*dicts):
    out = {}
    for d in dicts:
        for k_, v in d.items():
            out[k_] = out.get(k_, []) + list(v)
    return out


ALLOWED = lambda a, q: f"(({a} == 0 or {q} == min_n) and implies(not self.start_in_reference, {a} == 0) and implies(not self.start_in_query, {q} == min_n))"
CI = lambda t, col, cost=None: (f"forall(a, 0, ({t}) + 1, forall(q, min_n, ({col}) + 1, implies({ALLOWED('a', 'q')}, "
                                f"{cost or f'column[{t}].cost'} <= Dist(a, q, {t}, {col}) or Dist(a, q, {t}, {col}) > k)))")
CI3 = lambda lo, hi, col: (f"forallp(w, {col}, ({col}) + 1, t, {lo}, {hi}, a, 0, t + 1, q, min_n, w + 1, implies({ALLOWED('a', 'q')}, "
                           f"column[t].cost <= Dist(a, q, t, w) or Dist(a, q, t, w) > k), Dist(a, q, t, w))")
BB = lambda t, col, c=None: (f"(implies(self.start_in_reference, {c or f'column[{t}].cost'} <= ({col}) * indel_()) and "
                             f"implies(self.start_in_query, {c or f'column[{t}].cost'} <= ({t}) * indel_()))")
LB = lambda t, col, c=None, o=None: (f"implies({c or f'column[{t}].cost'} <= k, {c or f'column[{t}].cost'} >= "
                                     f"(({col}) - max({o or f'column[{t}].origin'}, 0)) - (({t}) + min({o or f'column[{t}].origin'}, 0)))")
REST = lambda t, col: f"({BB(t, col)} and {LB(t, col)})"
BESTC = "(best.cost == m + n + 1 or best.cost <= Dist(-min(best.origin, 0), max(best.origin, 0), best.ref_stop, best.query_stop))"
RS = lambda o: f"(-min({o}, 0))"
QS = lambda o: f"max({o}, 0)"
WD = lambda t, col, c=None, o=None: (f"implies({c or f'column[{t}].cost'} <= k, Dist({RS(o or f'column[{t}].origin')}, {QS(o or f'column[{t}].origin')}, {t}, {col}) "
                                     f"<= {c or f'column[{t}].cost'})")
BESTD = "(best.cost == m + n + 1 or Dist(-min(best.origin, 0), max(best.origin, 0), best.ref_stop, best.query_stop) <= best.cost)"

LOOPS_MIN = {
    1: [CI3("0", "i_next", "min_n"), "forall(t, 0, i_next, " + REST("t", "min_n") + ")"],
    2: [CI3("0", "i_next", "min_n"), "forall(t, 0, i_next, " + REST("t", "min_n") + ")"],
    3: [CI3("0", "i_next", "min_n"), "forall(t, 0, i_next, " + REST("t", "min_n") + ")"],
    4: [CI3("0", "i_next", "min_n"), "forall(t, 0, i_next, " + REST("t", "min_n") + ")"],
    6: [CI3("0", "m + 1", "jcol"), "forall(t, 0, m + 1, " + REST("t", "jcol") + ")", "last == m or column[last].cost > k", BESTC,
        "min_n == 0 or (self.start_in_query and not self.start_in_reference)"],
    7: [CI3("0", "i_next", "j"), "forall(t, 0, i_next, " + REST("t", "j") + ")", CI3("i_next", "m + 1", "j - 1"),
        "forall(t, i_next, m + 1, " + REST("t", "j - 1") + ")",
        CI("i_next - 1", "j - 1", "diag_entry.cost") + " and " + BB("i_next - 1", "j - 1", "diag_entry.cost") + " and " + LB("i_next - 1", "j - 1", "diag_entry.cost", "diag_entry.origin"),
        "last == m or column[last].cost > k or i_next > last"],
    10: [BESTC],
}
LOOPS_EQ = {
    1: ["forall(t, 0, i_next, " + WD("t", "min_n") + ")"], 2: ["forall(t, 0, i_next, " + WD("t", "min_n") + ")"],
    3: ["forall(t, 0, i_next, " + WD("t", "min_n") + ")"], 4: ["forall(t, 0, i_next, " + WD("t", "min_n") + ")"],
    6: ["forall(t, 0, m + 1, " + WD("t", "jcol") + ")", BESTD],
    7: ["forall(t, 0, i_next, " + WD("t", "j") + ")", "forall(t, i_next, m + 1, " + WD("t", "j - 1") + ")",
        WD("i_next - 1", "j - 1", "diag_entry.cost", "diag_entry.origin")],
    10: [BESTD],
}
LOOPS_DIST = merge_loops(LOOPS_L3, LOOPS_MIN, LOOPS_EQ)


def ub_ghost():
    A_ = "(-min(column[i].origin, 0))"
    Q_ = "max(column[i].origin, 0)"
    return f"__lemma__('dist_upper_bound', {A_}, {Q_}, i, min_n)"


def dist_layer(c):
    locate_contract(c, "dist")
    c.returns(OptT(TupT(Int, Int, Int, Int, Int, Int)))
    c.ghost("__lemma__('eq_def', s1)\n__lemma__('dist_facts')", after="s2 = query_bytes")
    for anchor in ("column[i].origin = 0", "column[i].origin = min(0, min_n - i)", "column[i].origin = max(0, min_n - i)", "column[i].origin = min_n - i"):
        c.ghost(ub_ghost(), after=anchor)
    c.requires(flag_sets_of_the_adapter_types="self.stop_in_query or (self.start_in_query and not self.start_in_reference)")


@contract("_align.pyx", "Aligner.locate", props=["C01"], name="Aligner.locate@distance")
def aligner_locate_distance(c):
    dist_layer(c)
    for k_, inv in LOOPS_DIST.items():
        c.loop(k_, inv=inv)
    c.ensures(L4_reported_errors_equal_the_true_edit_distance_of_the_two_intervals=
              "implies(not is_none(result), val(result)[5] == Dist(val(result)[0], val(result)[2], val(result)[1], val(result)[3]))")
    # completeness-side mutants that the soundness layers cannot see (appendix A.3)
    c.mutant("cost_diag = diag_entry.cost + 1", "cost_diag = diag_entry.cost + 2")
    c.mutant("last = min(m, k + 1)", "last = min(m, k)")
    c.mutant("if last < m:\n            last += 1", "if last < m:\n            pass")
    c.mutant("cost_deletion = previous_entry.cost + deletion_cost", "cost_deletion = current_entry.cost + deletion_cost")


# ------------------------------------------------------------------------------ finite, exhaustive parts
IUPAC_SETS = dict(A="A", C="C", G="G", T="T", U="T", R="AG", Y="CT", S="GC", W="AT", K="GT", M="AC", B="CGT", D="AGT", H="ACT",
                  V="ACG", N="ACGT", X="")
PLACEMENT = {   # from the statement / guide: which ends may be skipped at no cost, per adapter type
    "BACK": {"QUERY_START", "QUERY_STOP", "REFERENCE_END"},            # regular 3'
    "FRONT": {"QUERY_START", "QUERY_STOP", "REFERENCE_START"},         # regular 5'
    "PREFIX": {"QUERY_STOP"},                                          # anchored 5'
    "SUFFIX": {"QUERY_START"},                                         # anchored 3'
    "FRONT_NOT_INTERNAL": {"REFERENCE_START", "QUERY_STOP"},           # non-internal 5'
    "BACK_NOT_INTERNAL": {"QUERY_START", "REFERENCE_END"},             # non-internal 3'
    "ANYWHERE": {"QUERY_START", "QUERY_STOP", "REFERENCE_START", "REFERENCE_END"},
}
CLASS_WHERE = {"FrontAdapter": "FRONT", "RightmostFrontAdapter": "BACK", "BackAdapter": "BACK", "AnywhereAdapter": "ANYWHERE",
               "NonInternalFrontAdapter": "FRONT_NOT_INTERNAL", "NonInternalBackAdapter": "BACK_NOT_INTERNAL",
               "PrefixAdapter": "PREFIX", "SuffixAdapter": "SUFFIX"}
FLAG_FIELDS = {"start_in_reference": "REFERENCE_START", "start_in_query": "QUERY_START", "stop_in_reference": "REFERENCE_END",
               "stop_in_query": "QUERY_STOP"}


def finite_checks():
    """Returns (entries for evidence, list of failure strings)."""
    import ast as _ast
    import os
    import re
    from pyvc import frontends
    fails = []
    # --- 1. character tables: 3 modes x 128 x 128 against the IUPAC relation written out above
    src = open(os.path.join(frontends.SRC, "_match_tables.py")).read()
    ns = {}
    exec(compile(src, "_match_tables.py", "exec"), ns)
    acgt, iupac, upper = ns["_acgt_table"](), ns["_iupac_table"](), ns["_upper_table"]()

    def bases(ch, wildcard):
        """Set of nucleotides a character stands for (None = 'not a nucleotide': matches only N)."""
        u = chr(ch).upper()
        if wildcard:
            return set(IUPAC_SETS[u]) if u in IUPAC_SETS else set()
        return {"T" if u == "U" else u} if u in "ACGTU" else None

    pairs = 0
    for mode, (rt, qt) in {"adapter_wildcards": (iupac, acgt), "read_wildcards": (acgt, iupac), "both": (iupac, iupac)}.items():
        for r in range(128):
            for q in range(128):
                pairs += 1
                got = (rt[r] & qt[q]) != 0
                rb, qb = bases(r, mode != "read_wildcards"), bases(q, mode != "adapter_wildcards")
                r_is_n = mode != "read_wildcards" and chr(r).upper() == "N"
                q_is_n = mode != "adapter_wildcards" and chr(q).upper() == "N"
                if rb is None and qb is None:
                    want = False if mode != "both" else False
                elif rb is None:
                    want = q_is_n
                elif qb is None:
                    want = r_is_n
                else:
                    want = bool(rb & qb) or (r_is_n and q_is_n)
                if mode == "adapter_wildcards" and qb is None:
                    want = r_is_n                    # N matches everything, also non-ACGT
                if mode == "read_wildcards" and rb is None:
                    want = q_is_n
                if got != want:
                    fails.append(f"tables[{mode}]: {chr(r)!r} vs {chr(q)!r}: code says {got}, IUPAC says {want}")
    for q in range(128):
        pairs += 1
        if upper[q] != ord(chr(q).upper()):
            fails.append(f"upper table at {q}")
    # --- 2. flag constants and their use
    tree = frontends.py_module("align.py")[1]
    endskip = {}
    for st in frontends.find_py(tree, "EndSkip").body:
        if isinstance(st, _ast.Assign) and isinstance(st.value, _ast.Constant):
            endskip[st.targets[0].id] = st.value.value
    atree = frontends.py_module("adapters.py")[1]
    where = {}
    for st in frontends.find_py(atree, "Where").body:
        if isinstance(st, _ast.Assign):
            where[st.targets[0].id] = eval(compile(_ast.Expression(st.value), "w", "eval"), {"EndSkip": type("E", (), endskip)})
    for name, allowed in PLACEMENT.items():
        want = sum(endskip[f] for f in allowed)
        if where.get(name) != want:
            fails.append(f"Where.{name} = {where.get(name)}, the placement rule of the statement needs {want} ({sorted(allowed)})")
    cin = frontends.extract("_align.pyx", "Aligner.__cinit__").text
    for field, flag in FLAG_FIELDS.items():
        if not re.search(rf"self\.{field} = \(?flags & {endskip[flag]}\)?", cin):
            fails.append(f"Aligner.__cinit__: self.{field} is not `flags & {endskip[flag]}` ({flag})")
    for cls, wname in CLASS_WHERE.items():
        m = frontends.find_py(atree, f"{cls}._aligner")
        if m is None:
            # inherited
            continue
        txt = _ast.unparse(m)
        if f"Where.{wname}.value" not in txt:
            fails.append(f"{cls}._aligner does not use Where.{wname}")
        if cls in ("FrontAdapter", "BackAdapter", "RightmostFrontAdapter") and "Where.ANYWHERE.value if self._force_anywhere" not in txt:
            fails.append(f"{cls}._aligner: `anywhere` override changed")
    entries = [{"name": "character tables vs IUPAC relation; Where/EndSkip constants; class -> flag set", "cases": pairs + len(PLACEMENT) + len(CLASS_WHERE) + 4,
                "exhaustive": True}]
    return entries, fails


def extra_checks(res, tier, seed, known, log):
    from pyvc import runner
    entries, fails = finite_checks()
    res.finite += entries
    if fails:
        path = runner.write_replay("C01", "finite_tables", {"property": "C01", "obligation": "finite:tables_and_flags", "failures": fails[:20]})
        res.violations.append({"replay": path})
    # cross-check of the spec functions (Dist, effN, placement) against the real match_to of all eight classes
    runner.runtime_standin(res, "C01", "c01", "match_to", seed, 4000 if tier == "quick" else 60000, 40 if tier == "quick" else 600,
                           prefix="C01:", crosscheck=True,
                           label="match_to of the eight adapter classes vs brute-force oracle (cross-check of the spec functions, not evidence)")


# ------------------------------------------------------------------------------ comparers (anchored adapters without indels)
HAM = z3.Function("HAM", AII, AII, B, I, I)    # HAM(r, q, ascii, k) = number of t < k with not EQc(r[t], q[t])


def ham_spec(cx):
    locate_spec(cx)
    if "HAM" in cx.spec:
        return
    seen = set()
    k = z3.Int("k!hm")

    def eqc(ca, x, y):
        return z3.If(ca, x == y, BAND(x, y) != 0)

    def ham(r, q, ca, kk):
        from pyvc import heap
        arr_of = lambda v: v if is_z3(v) else (v.arr if isinstance(v, CArr) else as_str(v).arr)
        ra = heap.named_array(cx, arr_of(r))
        qa = heap.named_array(cx, arr_of(q))
        if not (z3.is_const(ca) and ca.decl().kind() == z3.Z3_OP_UNINTERPRETED) and not z3.is_true(ca) and not z3.is_false(ca):
            names = cx.__dict__.setdefault("_named_bools", {})
            if ca.get_id() not in names:
                nb = fresh("flag", B)
                cx.axioms.append(nb == ca)
                names[ca.get_id()] = nb
            ca = names[ca.get_id()]
        key = (ra.get_id(), qa.get_id(), ca.get_id())
        if key not in seen:
            seen.add(key)
            cx.axioms.append(HAM(ra, qa, ca, 0) == 0)
            cx.axioms.append(z3.ForAll([k], z3.Implies(k > 0, HAM(ra, qa, ca, k) == HAM(ra, qa, ca, k - 1) + z3.If(eqc(ca, ra[k - 1], qa[k - 1]), 0, 1)),
                                       patterns=[HAM(ra, qa, ca, k)]))
        return HAM(ra, qa, ca, kk)

    cx.spec["HAM"] = ham


ComparerT = ObjT("PrefixComparer", reference=CArrT("r_ptr", byte=True), wildcard_ref=Bool, wildcard_query=Bool, m=Int, max_k=Int,
                 effective_length=Int, min_overlap=Int)


@contract("_align.pyx", "PrefixComparer.locate", props=["C01", "C02"])
def prefix_comparer_locate(c):
    c.types(self=ComparerT, query=Str)
    c.returns(OptT(TupT(Int, Int, Int, Int, Int, Int)))
    c.spec(ham_spec)
    c.requires(sizes="self.m >= 0 and len(self.reference) == self.m", size_limit="self.m <= 1000000000 and len(query) <= 1000000000")
    c.c_int_bits = 32
    c.ghost_results = {"g_ca": "bool", "g_q": "array"}
    c.ghost("__define__('g_ca', compare_ascii)\n__define__('g_q', q_ptr)", after="q_ptr = query_bytes")
    inv = ["0 <= i_next <= length and length == min(self.m, len(query)) and n == len(query)",
           "errors == HAM(r_ptr, q_ptr, g_ca, i_next)", "0 <= errors <= i_next"]
    c.loop(1, head="for i in range(length)", inv=inv + ["g_ca"])
    c.loop(2, head="for i in range(length)", inv=inv + ["not g_ca"])
    LEN = "min(self.m, len(query))"
    ERR = f"HAM(self.reference, g_q, g_ca, {LEN})"
    c.ensures(
        reported_iff_mismatches_within_budget_and_overlap_reached=f"is_none(result) == ({ERR} > self.max_k or {LEN} < self.min_overlap)",
        anchored_at_both_starts_and_errors_are_the_hamming_distance=f"implies(not is_none(result), val(result)[0] == 0 and val(result)[2] == 0 and val(result)[1] == {LEN} and "
                                                                    f"val(result)[3] == {LEN} and val(result)[5] == {ERR} and val(result)[4] == {LEN} - 2 * {ERR})",
    )
    c.mutant("errors > self.max_k", "errors >= self.max_k")
    c.mutant("if r_ptr[i] != q_ptr[i]", "if r_ptr[i] == q_ptr[i]")
    c.mutant("length < self.min_overlap", "length <= self.min_overlap")
    c.mutant("(r_ptr[i] & q_ptr[i]) == 0", "(r_ptr[i] & q_ptr[i]) != 0")


@contract("_align.pyx", "SuffixComparer.locate", props=["C01", "C02"])
def suffix_comparer_locate(c):
    c.types(self=ObjT("SuffixComparer", **ComparerT.fields), query=Str)
    c.returns(OptT(TupT(Int, Int, Int, Int, Int, Int)))
    c.spec(ham_spec)
    c.requires(sizes="self.m >= 0 and len(self.reference) == self.m", size_limit="self.m <= 1000000000 and len(query) <= 1000000000")
    LEN = "min(self.m, len(query))"
    c.ensures(
        anchored_at_both_ends="implies(not is_none(result), val(result)[1] == self.m and val(result)[3] == len(query) and "
                              f"val(result)[0] == self.m - {LEN} and val(result)[2] == len(query) - {LEN})",
        same_decision_and_errors_as_the_prefix_comparison_of_the_reversed_strings=
            "is_none(result) == is_none(result_) and implies(not is_none(result), val(result)[5] == val(result_)[5] and val(result)[4] == val(result_)[4])".replace("result_", "cg_result"),
    )
    c.mutant("n - length, n", "n - length, n - 1")
    c.mutant("self.m - length, self.m", "0, length")


def _suffix_fix(c):
    # the local `result` of the code is the prefix comparer's answer; expose it to the postcondition
    c._ensures = [(k_, e.replace("cg_result", "g_prefix_result")) for k_, e in c._ensures]
    c.ghost("g_prefix_result = result", after="result = super().locate(query[::-1])")


_suffix_fix(suffix_comparer_locate)


SetRefT = ObjT("Aligner", column=CArrT("column", fields=["cost", "score", "origin"]), n_counts=CArrT("n_counts"), m=Int, effective_length=Int,
               wildcard_ref=Bool, wildcard_query=Bool, _reference=CArrT("s1", byte=True), reference=Str)
NCNT = z3.Function("NCNT", AII, I, I)        # number of N/n among the first k reference characters


def ncnt_spec(cx):
    locate_spec(cx)
    if "NCNT" in cx.spec:
        return
    seen = set()
    k = z3.Int("k!nc")

    def ncnt(s, kk):
        a = as_str(s).arr
        if a.get_id() not in seen:
            seen.add(a.get_id())
            cx.axioms.append(NCNT(a, 0) == 0)
            cx.axioms.append(z3.ForAll([k], z3.Implies(k > 0, NCNT(a, k) == NCNT(a, k - 1) + z3.If(z3.Or(a[k - 1] == 78, a[k - 1] == 110), 1, 0)),
                                       patterns=[NCNT(a, k)]))
        return NCNT(a, kk)
    cx.spec["NCNT"] = ncnt


def _realloc(ex, st, args, kwargs, node, spec):
    """PyMem_Realloc(ptr, bytes): a buffer of the requested number of elements (sizeof is folded to 1 by the lowering)."""
    old = args[0]
    n = args[1]
    if isinstance(old.arr, dict):
        arr = {f_: fresh(f"realloc.{f_}", AII) for f_ in old.arr}
    else:
        arr = fresh("realloc", AII)
    return CArr(arr, n, None, old.name)


BUILTINS["PyMem_Realloc"] = _realloc


@contract("_align.pyx", "Aligner._set_reference", props=["C01", "C02"])
def aligner_set_reference(c):
    c.types(self=SetRefT, reference=Str)
    c.modifies = ["self"]
    c.spec(ncnt_spec)
    c.raises("ValueError", when="self.wildcard_ref and NCNT(reference, len(reference)) == len(reference)")
    c.raises("MemoryError", when=None)
    c.inline.update({"translate"})
    c.loop(1, head="for i in range(self.m)", inv=[
        "0 <= i_next <= self.m and self.m == len(reference) and len(self.n_counts) == self.m + 1 and len(self.column) == self.m + 1",
        "n_count == NCNT(reference, i_next)", "forall(t, 0, i_next, code(self.n_counts, t) == NCNT(reference, t))",
        "self.effective_length == self.m"])
    c.ghost("__lemma__('count_is_ncnt', reference)", before="assert self.n_counts[self.m] == reference.count('N') + reference.count('n')")
    c.ensures(
        buffers_sized_for_the_reference="self.m == len(reference) and len(self.column) == self.m + 1 and len(self.n_counts) == self.m + 1 and len(self._reference) == self.m",
        n_counts_are_prefix_counts_of_N="forall(t, 0, self.m + 1, code(self.n_counts, t) == NCNT(reference, t))",
        effective_length_discounts_N_only_with_adapter_wildcards="self.effective_length == (self.m - NCNT(reference, self.m) if self.wildcard_ref else self.m)",
        adapter_encoded_with_the_table_of_the_wildcard_mode=
        "forall(t, 0, self.m, code(self._reference, t) == (table_code('IUPAC_TABLE', code(reference, t)) if self.wildcard_ref else "
        "(table_code('ACGT_TABLE', code(reference, t)) if self.wildcard_query else code(reference, t))))",
    )
    c.spec(lambda cx: cx.spec.update(table_code=lambda name, x: TABLE_FN[name.v](x)))
    c.mutant("self._reference = translate(reference, ACGT_TABLE)", "self._reference = translate(reference, IUPAC_TABLE)")
    c.mutant("self.n_counts[i] = n_count", "self.n_counts[i] = n_count + 1")
    c.mutant("self.effective_length = self.m - self.n_counts[self.m]", "self.effective_length = self.m")


@lemma("count_is_ncnt", props=["C01"])
def count_is_ncnt(lem):
    """COUNT(s, k, 'N') + COUNT(s, k, 'n') == NCNT(s, k) — induction on k."""
    from pyvc.world import COUNT
    a = z3.Const("a!cn", AII)
    k, j = z3.Ints("k!cn j!cn")

    def axioms_for(a):
        out = [NCNT(a, 0) == 0, COUNT(a, 0, 78) == 0, COUNT(a, 0, 110) == 0,
               z3.ForAll([j], z3.Implies(j > 0, NCNT(a, j) == NCNT(a, j - 1) + z3.If(z3.Or(a[j - 1] == 78, a[j - 1] == 110), 1, 0)), patterns=[NCNT(a, j)])]
        for ch in (78, 110):
            out.append(z3.ForAll([j], z3.Implies(j > 0, COUNT(a, j, ch) == COUNT(a, j - 1, ch) + z3.If(a[j - 1] == ch, 1, 0)), patterns=[COUNT(a, j, ch)]))
        return out

    def prove(lx):
        ax = axioms_for(a)
        lx.vc("base", ax, COUNT(a, 0, 78) + COUNT(a, 0, 110) == NCNT(a, 0))
        lx.vc("step", ax + [k >= 0, COUNT(a, k, 78) + COUNT(a, k, 110) == NCNT(a, k)], COUNT(a, k + 1, 78) + COUNT(a, k + 1, 110) == NCNT(a, k + 1))

    lem.prove = prove
    lem.statement = lambda s: z3.And(*axioms_for(as_str(s).arr), COUNT(as_str(s).arr, as_str(s).n, 78) + COUNT(as_str(s).arr, as_str(s).n, 110) == NCNT(as_str(s).arr, as_str(s).n))


# ------------------------------------------------------------------------------ constructors of the comparers
def _comparer_init(cls, reverse):
    @contract("_align.pyx", f"{cls}.__init__", props=["C01", "C02"])
    def _c(c):
        """the comparer is set up with the wildcard settings, error budget and minimum overlap it was given (the anchored
        3' comparer works on the reversed adapter)"""
        c.types(self=ObjT(cls, **ComparerT.fields), reference=Str, max_error_rate=Real, wildcard_ref=Bool, wildcard_query=Bool, min_overlap=Int)
        c.modifies = ["self"]
        c.raises("ValueError", when=None)
        c.requires(size="len(reference) <= 1000000000")
        c.ensures(
            wildcard_settings_are_the_ones_given="self.wildcard_ref == wildcard_ref and self.wildcard_query == wildcard_query",
            length_and_overlap="self.m == len(reference) and self.min_overlap == min_overlap and min_overlap >= 1",
            error_budget_from_the_rate_and_the_effective_length="self.max_k == int(max_error_rate * self.effective_length) and 0 <= max_error_rate <= 1",
            reference_has_the_adapters_length="len(self.reference) == len(reference)",
        )
        if reverse:
            c.mutant("wildcard_ref, wildcard_query, min_overlap", "wildcard_ref, wildcard_ref, min_overlap")
        else:
            c.mutant("self.wildcard_query = wildcard_query", "self.wildcard_query = wildcard_ref")
    return _c


prefix_comparer_init = _comparer_init("PrefixComparer", False)
suffix_comparer_init = _comparer_init("SuffixComparer", True)
