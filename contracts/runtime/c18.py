"""Runtime form of C18: a reference parser for adapter specifications, written from the guide (doc/guide.rst: adapter
types table, "Linked adapters", "Changing which adapters are required", "Adapter-search parameters", "Error tolerance",
"N wildcard characters", the x{n} notation, name=, file:/^file:/file$:), compared with cutadapt.parser on an
enumerated / random grammar.  Bounded stand-in: never counted as proof."""
import itertools
import os
import tempfile

DEFAULTS = dict(max_errors=0.1, min_overlap=3, read_wildcards=False, adapter_wildcards=True, indels=True)


class RefError(Exception):
    pass


class Unspecified(Exception):
    """the guide does not say what this means: either behaviour of the program is accepted"""


# ------------------------------------------------------------------------------ reference parser (from the guide)
ABBREV = {"e": "max_errors", "error_rate": "max_errors", "max_error_rate": "max_errors", "max_errors": "max_errors",
          "o": "min_overlap", "min_overlap": "min_overlap"}
FLAGS = {"anywhere", "required", "optional", "indels", "noindels", "rightmost"}


def ref_parameters(text):
    """';'-separated key=value settings and flags"""
    out = {}
    for field in text.split(";"):
        field = field.strip()
        if not field:
            continue
        if "=" in field:
            key, value = field.split("=", 1)
            key, value = key.strip(), value.strip()
            if key not in ABBREV and key not in FLAGS:
                raise RefError("unknown parameter")
            if value == "":
                raise RefError("no value")
            key = ABBREV.get(key, key)
            try:
                value = int(value)
            except ValueError:
                try:
                    value = float(value)
                except ValueError:
                    raise RefError("bad value")
        else:
            key = field
            if key not in ABBREV and key not in FLAGS:
                raise RefError("unknown parameter")
            key = ABBREV.get(key, key)
            value = True
        if key in out:
            raise RefError("twice")
        out[key] = value
    if "optional" in out and "required" in out:
        raise RefError("optional and required")
    if "indels" in out and "noindels" in out:
        raise RefError("indels and noindels")
    if "optional" in out:
        del out["optional"]
        out["required"] = False
    if "noindels" in out:
        del out["noindels"]
        out["indels"] = False
    return out


def ref_braces(seq):
    """x{n}: n copies of the character before the brace"""
    out = []
    i = 0
    while i < len(seq):
        ch = seq[i]
        if ch == "{":
            j = seq.find("}", i)
            if j < 0 or not out:
                raise RefError("brace")
            body = seq[i + 1:j]
            if not body.strip().lstrip("+-").isdigit() and True:
                raise RefError("brace number")
            n = int(body)
            if not 0 <= n <= 10000:
                raise RefError("brace range")
            if "{" in body:
                raise RefError("brace nesting")
            last = out.pop()
            if last is None:
                raise RefError("brace after brace")
            out.append(last * n)
            out.append(None)        # marker: a second {n} directly after is an error
            i = j + 1
            continue
        if ch == "}":
            raise RefError("stray }")
        if out and out[-1] is None:
            out.pop()
        out.append(ch)
        i += 1
    if out and out[-1] is None:
        out.pop()
    return "".join(out)


def ref_single(text, cli_type, defaults, name_override=None, linked_part=False):
    """One non-linked specification: [name=]SEQUENCE[;parameters] with ^ $ X placement notation.
    cli_type: 'back' (-a), 'front' (-g), 'anywhere' (-b)."""
    body, _, ptext = text.partition(";")
    params = ref_parameters(ptext)
    name = None
    if "=" in body:
        name, body = body.split("=", 1)
        name = name.strip()
    body = ref_braces(body.strip())
    rightmost = params.pop("rightmost", False)
    if body.strip("X") == "":
        # documented nowhere; kept for backwards compatibility by the program: an adapter made of X only
        restriction, seq, params, rightmost = None, body, {}, False
        front = back = None
    else:
        front = back = None
        if body.startswith("^"):
            front, body = "anchored", body[1:]
        if body[:1] in ("X", "x"):
            if front:
                raise RefError("two front restrictions")
            front, body = "noninternal", body.lstrip("xX")
        if body.endswith("$"):
            back, body = "anchored", body[:-1]
        if body[-1:] in ("X", "x"):
            if back:
                raise RefError("two back restrictions")
            back, body = "noninternal", body.rstrip("xX")
        if front and back:
            raise RefError("front and back restriction")
        seq = body
        if cli_type == "front" and back:
            raise RefError("5' adapter with 3' restriction")
        if cli_type == "back" and front:
            raise RefError("3' adapter with 5' restriction")
        restriction = front or back
        if cli_type == "anywhere" and restriction:
            raise RefError("-b with restriction")
        if "min_overlap" in params and restriction == "anchored":
            raise RefError("min_overlap for anchored")
        if rightmost and (cli_type != "front" or restriction):
            raise RefError("rightmost")
    table = {("back", None): "BackAdapter", ("back", "anchored"): "SuffixAdapter", ("back", "noninternal"): "NonInternalBackAdapter",
             ("front", None): "FrontAdapter", ("front", "anchored"): "PrefixAdapter", ("front", "noninternal"): "NonInternalFrontAdapter",
             ("anywhere", None): "AnywhereAdapter"}
    cls = table[(cli_type, restriction)]
    if rightmost:
        cls = "RightmostFrontAdapter"
    required = params.pop("required", None)
    if required is not None and not linked_part:
        raise RefError("required outside linked")
    anywhere = params.pop("anywhere", False)
    eff = dict(defaults)
    eff.update(params)
    sequence = seq.upper().replace("U", "T").replace("I", "N")
    if not sequence:
        raise RefError("empty sequence")
    max_errors = eff["max_errors"]
    non_n = len(sequence) - sequence.count("N")
    if max_errors >= 1 and non_n > 0:
        max_errors = max_errors / non_n
    if max_errors >= 1:
        raise Unspecified("as many errors as bases")     # nothing documented for a rate of 1 or more
    if non_n == 0:
        if not eff["adapter_wildcards"]:
            raise Unspecified("only N, wildcards switched off")     # N is then a literal character: nothing documented
        raise RefError("only N wildcards")      # rejected by the program with its own message (exit status 2)
    iupac = set("ABCDGHKMNRSTUVWXY")
    if eff["adapter_wildcards"] and not set(sequence) <= iupac:
        raise RefError("invalid character")
    min_overlap = min(eff["min_overlap"], len(sequence))
    if restriction == "anchored":
        min_overlap = len(sequence)             # "anchored adapters always need to occur at full length"
    d = dict(cls=cls, sequence=sequence, max_error_rate=max_errors, min_overlap=min_overlap,
             indels=bool(eff["indels"]), read_wildcards=eff["read_wildcards"],
             adapter_wildcards=eff["adapter_wildcards"] and not set(sequence) <= set("ACGT"),
             force_anywhere=bool(anywhere) and cls in ("FrontAdapter", "BackAdapter", "RightmostFrontAdapter"),
             name=name_override if name_override is not None else name)
    return d, restriction, required


def ref_adapter(spec, cli_type, defaults, name=None):
    if cli_type not in ("front", "back", "anywhere"):
        raise RefError("type")
    if "..." in spec:
        s1, _, s2 = spec.partition("...")
        if s1 and s2:
            if cli_type == "anywhere":
                raise RefError("-b linked")
            f, fr, freq = ref_single(s1, "front", defaults, linked_part=True)
            b, br, breq = ref_single(s2, "back", defaults, linked_part=True)
            if cli_type == "front":
                d_front = d_back = True
            else:
                # "the adapters that are anchored become required, and the non-anchored adapters become optional"
                d_front, d_back = fr == "anchored", br == "anchored"
            lname = name if name is not None else f["name"]
            f["name"] = b["name"] = None
            return dict(cls="LinkedAdapter", name=lname, front=f, back=b,
                        front_required=bool(freq) if freq is not None else d_front,
                        back_required=bool(breq) if breq is not None else d_back)
        if cli_type == "anywhere":
            raise RefError("-b with ...")
        if not s1:
            if cli_type != "back":
                raise RefError("-g ...ADAPTER")
            spec = s2
        else:
            spec, cli_type = s1, "front"
    return ref_single(spec, cli_type, defaults, name_override=name)[0]


def ref_specification(spec, cli_type, defaults, files):
    """`files`: path -> list of (header, sequence) FASTA records"""
    for prefix, pre, suf in (("^file:", "^", ""), ("file$:", "", "$"), ("file:", "", "")):
        if spec.startswith(prefix):
            rest = spec[len(prefix):]
            path, _, ptext = rest.partition(";")
            eff = dict(defaults)
            eff.update(ref_parameters(ptext))
            out = []
            for header, seq in files[path]:
                fields = header.split(None, 1)
                out.append(ref_adapter(pre + seq + suf, cli_type, eff, name=fields[0] if fields else None))
            return out
    return [ref_adapter(spec, cli_type, defaults)]


# ------------------------------------------------------------------------------ the real parser, normalised
def describe(a):
    cls = type(a).__name__
    if cls == "LinkedAdapter":
        f, b = describe(a.front_adapter), describe(a.back_adapter)
        f["name"] = b["name"] = None
        return dict(cls=cls, name=a.name, front=f, back=b, front_required=a.front_required, back_required=a.back_required)
    return dict(cls=cls, sequence=a.sequence, max_error_rate=a.max_error_rate, min_overlap=a.min_overlap, indels=bool(a.indels),
                read_wildcards=a.read_wildcards, adapter_wildcards=a.adapter_wildcards,
                force_anywhere=bool(getattr(a, "_force_anywhere", False)), name=a.name)


def call_spec(inp):
    from cutadapt.parser import make_adapters_from_one_specification
    from cutadapt.adapters import InvalidCharacter
    defaults = dict(DEFAULTS)
    defaults.update(inp.get("defaults") or {})
    spec = inp["spec"]
    tmp = None
    try:
        if inp.get("fasta") is not None:
            tmp = tempfile.NamedTemporaryFile("w", suffix=".fasta", delete=False)
            for header, seq in inp["fasta"]:
                tmp.write(f">{header}\n{seq}\n")
            tmp.close()
            spec = spec.replace("FILE", tmp.name)
        try:
            res = list(make_adapters_from_one_specification(spec, inp["type"], defaults))
        except (KeyError, ValueError, InvalidCharacter) as e:
            return {"error": type(e).__name__}
        return {"adapters": [describe(a) for a in res]}
    finally:
        if tmp is not None:
            os.unlink(tmp.name)


def _close(a, b):
    if isinstance(a, float) or isinstance(b, float):
        return abs(a - b) <= 1e-12 * max(1.0, abs(a), abs(b))
    return a == b


def _diff(exp, got, path=""):
    out = []
    for k in exp:
        if isinstance(exp[k], dict):
            out += _diff(exp[k], got.get(k, {}), path + k + ".")
        elif k == "name" and exp[k] is None:
            if path == "" and not str(got.get(k, "")).isdigit():
                out.append(f"{path}name: expected a generated number, got {got.get(k)!r}")
        elif k not in got or not _close(exp[k], got[k]):
            out.append(f"{path}{k}: documented {exp[k]!r}, got {got.get(k)!r}")
    return out


def expected(inp):
    defaults = dict(DEFAULTS)
    defaults.update(inp.get("defaults") or {})
    files = {"FILE": inp.get("fasta") or []}
    try:
        return {"adapters": ref_specification(inp["spec"], inp["type"], defaults, files)}
    except RefError as e:
        return {"error": str(e)}
    except Unspecified:
        return {"unspecified": True}


def known_class(inp, exp, got):
    """the recorded finding: a non-internal part of a linked -a adapter is made required"""
    labels = []
    for e, g in zip(exp.get("adapters", []), got.get("adapters", [])):
        if e.get("cls") == "LinkedAdapter" and g.get("cls") == "LinkedAdapter" and inp["type"] == "back":
            for part, ncls in (("front", "NonInternalFrontAdapter"), ("back", "NonInternalBackAdapter")):
                if e[part]["cls"] == ncls and e[part + "_required"] is False and g[part + "_required"] is True:
                    labels.append(part)
    return labels


def check_spec(inp, res, err):
    if err:
        if err.startswith("TypeError") and "unexpected keyword argument" in err:
            flag = err.split("'")[1]
            if flag == "anywhere" and "..." in inp["spec"] and "file:" not in inp["spec"] and "file$:" not in inp["spec"]:
                return ["C18:KNOWN:anywhere_in_linked_part: " + err]
            if flag in ("anywhere", "rightmost", "required") and inp.get("fasta") is not None and \
                    (";" + flag) in inp["spec"].replace("optional", "required").replace(" ", ""):
                return ["C18:KNOWN:file_level_flag_reaches_constructor: " + err]
        return ["C18:no_raise:" + err]
    exp = expected(inp)
    if "unspecified" in exp:
        return []
    if "error" in exp:
        return [] if "error" in res else [f"C18:documented as invalid ({exp['error']}) but accepted: {res}"]
    if "error" in res:
        return [f"C18:valid specification rejected with {res['error']} (documented: {exp})"]
    if len(exp["adapters"]) != len(res["adapters"]):
        return [f"C18:{len(res['adapters'])} adapters instead of {len(exp['adapters'])}"]
    bad = []
    for i, (e, g) in enumerate(zip(exp["adapters"], res["adapters"])):
        for d in _diff(e, g):
            if d.endswith("_required: documented False, got True") and d.split("_")[0] in known_class(inp, exp, res):
                bad.append(f"C18:KNOWN:noninternal_{d.split('_')[0]}_part_required: adapter {i}: {d}")
            else:
                bad.append(f"C18:adapter {i}: {d}")
    return bad


# ------------------------------------------------------------------------------ inputs
SEQS = ["ACGTACGT", "AACCGGTT", "ANNNT", "acgu", "NNNN", "ACGT{3}", "A{2}C{0}G", "AC", "ACGTNACGTNAC", "XX", "AIA", "ACGZ"]
PARAMS = ["", ";e=0.2", ";max_error_rate=0.25", ";max_errors=2", ";e=1", ";error_rate=0.3", ";o=5", ";min_overlap=2", ";o=20",
          ";noindels", ";indels", ";anywhere", ";rightmost", ";required", ";optional", ";e=0.2;o=4", ";noindels;e=3",
          ";optional;required", ";indels;noindels", ";e=0.1;e=0.2", ";foo=1", ";e=", "; o = 4 ; noindels ", ";e=abc"]


def _single_forms(seq):
    return [seq, "^" + seq, seq + "$", "X" + seq, seq + "X", "^" + seq + "$", "XXX" + seq, seq + "xx", "^X" + seq, seq + "X$",
            "X" + seq + "X"]


def enumerate_specs(tier="quick"):
    types = ["back", "front", "anywhere"]
    seqs = SEQS if tier != "quick" else SEQS[:8]
    # 1. single adapters: type x placement x sequence x parameters x name
    for t in types:
        for seq in seqs:
            for form in _single_forms(seq):
                for p in PARAMS:
                    for nm in ("", "nm=", " my name = "):
                        if tier == "quick" and (hash((t, form, p, nm)) % 7):
                            continue
                        yield {"spec": nm + form + p, "type": t}
    # 2. ellipsis forms and linked adapters
    parts1 = ["ACGTACGT", "^ACGTACGT", "XACGTACGT", "ACGTACGT;optional", "^ACGTACGT;optional", "ACGTACGT;required", "ACGTACGT;e=0.2",
              "n1=ACGTACGT", "ACGTACGT$", "^ACGTACGT;o=3", "XACGTACGT;optional", "ACGTACGT;rightmost", ""]
    parts2 = ["TTGGCCAA", "TTGGCCAA$", "TTGGCCAAX", "TTGGCCAA;optional", "TTGGCCAA$;optional", "TTGGCCAA;required", "TTGGCCAA;o=5;noindels",
              "n2=TTGGCCAA", "^TTGGCCAA", "TTGGCCAAX;required", "TTGGCCAA;anywhere", ""]
    for t in types:
        for a in parts1:
            for b in parts2:
                yield {"spec": a + "..." + b, "type": t}
    # 3. defaults (global options) under adapter-level parameters
    for d in ({"max_errors": 2}, {"max_errors": 0.3, "min_overlap": 7}, {"indels": False}, {"adapter_wildcards": False},
              {"read_wildcards": True, "min_overlap": 1}):
        for t in types:
            for spec in ("ACGTNACGT", "ACGTNACGT;e=0.05", "ACGTNACGT;o=2;indels", "^ACGTNACGT", "ACGTACGT...TTGGNCAA;e=1", "ACGZ", "NNNN;e=1"):
                yield {"spec": spec, "type": t, "defaults": d}
    # 4. file: notation
    fasta = [("first adapter one", "ACGTACGT"), ("second", "TTGGCCAA;o=4"), ("", "GGGG;e=0.3;noindels"), ("linked", "ACGT...TTGG"),
             ("x", "XCCCCAAAA")]
    for t in types:
        for prefix in ("file:", "^file:", "file$:"):
            for p in ("", ";o=5", ";e=0.25;noindels", ";min_overlap=6;indels", ";anywhere", ";foo", ";rightmost", ";optional", ";required;e=0.2"):
                yield {"spec": prefix + "FILE" + p, "type": t, "fasta": fasta}
                yield {"spec": prefix + "FILE" + p, "type": t, "fasta": fasta[:2], "defaults": {"max_errors": 0.2, "indels": False}}


def gen_spec(rng):
    t = rng.choice(["back", "front", "anywhere"])

    def part():
        seq = "".join(rng.choice("ACGTN") for _ in range(rng.randint(1, 12)))
        braces = rng.random() < 0.25
        if braces:
            k = rng.randrange(len(seq))
            seq = seq[:k + 1] + "{%d}" % rng.choice([0, 1, 2, 3, 4, 9, 14]) + seq[k + 1:]
        form = rng.choice(_single_forms(seq)[:7] + [seq] * 4)
        ps = "".join(rng.sample(PARAMS[1:18], rng.choice([0, 0, 1, 1, 2, 3])))
        if braces and rng.random() < 0.5:
            # a minimum overlap that only the expanded sequence is long enough for
            ps += rng.choice([";o=%d", ";min_overlap=%d"]) % rng.choice([5, 8, 11, 14])
        nm = rng.choice(["", "", "abc=", "a b ="])
        return nm + form + ps
    if rng.random() < 0.35:
        spec = part() + "..." + part()
    elif rng.random() < 0.1:
        spec = rng.choice([part() + "...", "..." + part()])
    else:
        spec = part()
    inp = {"spec": spec, "type": t}
    if rng.random() < 0.3:
        inp["defaults"] = rng.choice([{"max_errors": 2}, {"max_errors": 0.3}, {"min_overlap": 7}, {"indels": False},
                                      {"adapter_wildcards": False}])
    return inp


# ------------------------------------------------------------------------------ exit status 2 for invalid specifications
INVALID = [("-a", "ACGT;foo=1"), ("-a", "ACGT;e="), ("-a", "ACGT;e=0.1;e=0.2"), ("-a", "ACGT;optional;required...TTTT"),
           ("-a", "ACGT;indels;noindels"), ("-a", "^ACGT"), ("-g", "ACGT$"), ("-g", "ACGTX"), ("-a", "XACGT"), ("-b", "^ACGT"),
           ("-b", "ACGTX"), ("-b", "ACGT...TTTT"), ("-g", "...ACGT"), ("-a", "^ACGT$"), ("-g", "^XACGT"), ("-g", "^ACGT;o=3"),
           ("-a", "ACGT$;min_overlap=2"), ("-a", "ACGT;rightmost"), ("-g", "^ACGT;rightmost"), ("-a", "ACGT;required"),
           ("-a", "ACGT;optional"), ("-a", "A{"), ("-a", "{3}A"), ("-a", "A{3"), ("-a", "A{x}"), ("-a", "A}"), ("-a", "ACGZ"),
           ("-a", ""), ("-a", "NNNN"), ("-a", "ACGT;e=abc"), ("-g", "ACGT;anywhere;rightmost;o=x")]


def gen_cli(rng):
    opt, spec = rng.choice(INVALID)
    return {"option": opt, "spec": spec}


def call_cli(inp):
    import subprocess
    import sys
    with tempfile.TemporaryDirectory() as d:
        fq = os.path.join(d, "in.fq")
        with open(fq, "w") as f:
            f.write("@r\nACGTACGTTTGGCCAA\n+\nIIIIIIIIIIIIIIII\n")
        r = subprocess.run([sys.executable, "-m", "cutadapt", inp["option"], inp["spec"], "-o", os.path.join(d, "out.fq"), fq],
                           capture_output=True, text=True, timeout=120)
        return {"exit": r.returncode, "stderr": r.stderr[-300:]}


def check_cli(inp, res, err):
    if err:
        return ["C18:invalid specification ends in a traceback instead of exit status 2: " + err]
    bad = []
    if res["exit"] != 2:
        bad.append(f"C18:exit status {res['exit']} instead of 2")
    if not res["stderr"].strip() or "Traceback" in res["stderr"]:
        bad.append("C18:no error message (or a traceback)")
    return bad


RUNTIME = {
    "cli_invalid": {"gen": gen_cli, "call": call_cli, "check": check_cli,
                    "enumerate": lambda tier="quick": [{"option": o, "spec": s_} for o, s_ in INVALID],
                    "bounds": f"{len(INVALID)} invalid specifications (one per documented invalid combination and per syntax error class)"},
    "specification": {"gen": gen_spec, "call": call_spec, "check": check_spec, "enumerate": enumerate_specs,
                      "nontrivial": lambda i, r: isinstance(r, dict) and "adapters" in r,
                      "bounds": "enumerated grammar: 3 option types x 11 placement forms x 8-12 sequences x 24 parameter strings x 3 name forms "
                                "(hash-sampled 1/7 in the quick tier), 13 x 12 x 3 '...' combinations, 5 default sets x 7 specifications, "
                                "3 file prefixes x 6 file-level parameter strings x 2 FASTA files; plus random specifications"},
}
