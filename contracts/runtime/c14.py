"""Runtime form of the C14 contracts (failing-input search; never counted as proof)."""
import math


def ref_polya(s, revcomp):
    n = len(s)
    if not revcomp:
        best, bi = 0, n
        for i in range(n - 1, -1, -1):
            suf = s[i:]
            sc = sum(1 if ch == "A" else -2 for ch in suf)
            er = sum(1 for ch in suf if ch != "A")
            if 5 * er <= len(suf) and sc > best:
                best, bi = sc, i
        return n if bi > n - 3 else bi
    best, bi = 0, 0
    for k in range(1, n + 1):
        pre = s[:k]
        sc = sum(1 if ch == "T" else -2 for ch in pre)
        er = sum(1 for ch in pre if ch != "T")
        if 5 * er <= k and sc > best:
            best, bi = sc, k
    return 0 if bi < 3 else bi


def gen_polya(rng):
    n = rng.choice([0, 1, 2, 3, 4, 6, 10, 16, 25])
    rc = rng.random() < 0.5
    main = "T" if rc else "A"
    s = "".join(main if rng.random() < 0.75 else rng.choice("ACGTN") for _ in range(n))
    if rng.random() < 0.5:
        junk = "".join(rng.choice("ACGT") for _ in range(rng.randint(0, 8)))
        s = s + junk if rc else junk + s
    return {"s": s, "revcomp": rc}


def call_polya(inp):
    from cutadapt.qualtrim import poly_a_trim_index
    return poly_a_trim_index(inp["s"], inp["revcomp"])


def check_polya(inp, res, err):
    if err:
        return ["no_raise:" + err]
    exp = ref_polya(inp["s"], inp["revcomp"])
    return [] if res == exp else [f"result != spec {exp}"]


def gen_ee(rng):
    n = rng.choice([0, 1, 2, 3, 4, 5, 7, 8, 9, 17])
    base = rng.choice([33, 64])
    q = "".join(chr(rng.randint(base, 126)) for _ in range(n))
    if rng.random() < 0.2 and n:
        i = rng.randrange(n)
        q = q[:i] + chr(rng.choice([base - 1, 127, 32])) + q[i + 1:]
    return {"qualities": q, "base": base}


def call_ee(inp):
    from cutadapt.qualtrim import expected_errors
    return expected_errors(inp["qualities"], inp["base"])


def check_ee(inp, res, err):
    valid = all(inp["base"] <= ord(c) <= 126 for c in inp["qualities"])
    if err:
        return [] if (not valid and err.startswith("ValueError")) else ["unexpected " + err]
    if not valid:
        return ["no ValueError for an invalid quality"]
    exp = math.fsum(10 ** (-(ord(c) - inp["base"]) / 10) for c in inp["qualities"])
    return [] if abs(res - exp) <= 1e-9 * max(1.0, exp) else [f"result {res} != sum {exp}"]


def gen_nend(rng):
    n = rng.choice([0, 1, 2, 3, 5, 9])
    s = "".join(rng.choice("NNNACGn") for _ in range(n))
    return {"sequence": s, "qualities": "".join(chr(rng.randint(33, 73)) for _ in s) if rng.random() < 0.7 else None}


def call_nend(inp):
    from cutadapt.modifiers import NEndTrimmer
    from cutadapt.info import ModificationInfo
    from dnaio import SequenceRecord
    r = SequenceRecord("r", inp["sequence"], inp["qualities"])
    out = NEndTrimmer()(r, ModificationInfo(r))
    return [out.name, out.sequence, out.qualities]


def check_nend(inp, res, err):
    if err:
        return ["no_raise:" + err]
    s = inp["sequence"]
    a = len(s) - len(s.lstrip("N"))
    b = len(s.rstrip("N"))
    q = inp["qualities"]
    exp = ["r", s[a:b], None if q is None else q[a:b]]
    return [] if res == exp else [f"result != spec {exp}"]


def gen_tmn(rng):
    d = gen_nend(rng)
    d["count"] = rng.choice([0, 0.0, 0.2, 0.5, 0.34, 0.99, 1, 1.0, 2, 3])
    return d


def call_tmn(inp):
    from cutadapt.predicates import TooManyN
    from cutadapt.info import ModificationInfo
    from dnaio import SequenceRecord
    r = SequenceRecord("r", inp["sequence"], None)
    return TooManyN(inp["count"]).test(r, ModificationInfo(r))


def check_tmn(inp, res, err):
    if err:
        return ["no_raise:" + err]
    from fractions import Fraction
    s = inp["sequence"]
    nn = sum(1 for c in s if c in "Nn")
    cut = Fraction(inp["count"])
    if inp["count"] < 1:
        exp = False if not s else Fraction(nn, len(s)) > cut
    else:
        exp = nn > cut
    return [] if bool(res) == exp else [f"result != spec {exp}"]


def call_polya_mod(inp):
    from dnaio import SequenceRecord
    from cutadapt.modifiers import PolyATrimmer
    from cutadapt.info import ModificationInfo
    m = PolyATrimmer(revcomp=inp["revcomp"])
    r = SequenceRecord("r", inp["s"], "".join(chr(33 + (i % 40)) for i in range(len(inp["s"]))))
    out = m(r, ModificationInfo(r))
    return [out.sequence, out.qualities, {int(k): v for k, v in m.trimmed_bases.items() if v}]


def check_polya_mod(inp, res, err):
    if err:
        return ["no_raise:" + err]
    s = inp["s"]
    q = "".join(chr(33 + (i % 40)) for i in range(len(s)))
    i = ref_polya(s, inp["revcomp"])
    exp = [s[i:], q[i:], {i: 1}] if inp["revcomp"] else [s[:i], q[:i], {len(s) - i: 1}]
    return [] if res == exp else [f"modifier gives {res}, the statement gives {exp}"]


RUNTIME = {
    "PolyATrimmer": {"gen": gen_polya, "call": call_polya_mod, "check": check_polya_mod, "bounds": "random sequences of length <= 33, both read ends"},
    "poly_a_trim_index": {"gen": gen_polya, "call": call_polya, "check": check_polya, "bounds": "random sequences of length <= 33"},
    "expected_errors": {"gen": gen_ee, "call": call_ee, "check": check_ee, "bounds": "random quality strings of length <= 17"},
    "NEndTrimmer": {"gen": gen_nend, "call": call_nend, "check": check_nend, "bounds": "random sequences of length <= 9"},
    "TooManyN": {"gen": gen_tmn, "call": call_tmn, "check": check_tmn, "bounds": "random sequences of length <= 9"},
}
