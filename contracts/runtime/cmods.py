"""Runtime forms of contracts on the adapter-trimming modifiers (used when a static contract cannot be attached to changed
code or an obligation stays undecided; never counted as proof): best-match choice (C09), the --revcomp decision and its
bookkeeping (C16), and the per-adapter statistics tallied from the matches that were applied (C20)."""

ADAPTERS = ["ACGTACGT", "TTGGCCAA", "GATCGATC", "ACGTAC"]
COMP = str.maketrans("ACGTN", "TGCAN")


def _mk_adapters(spec):
    from cutadapt.adapters import BackAdapter, FrontAdapter, AnywhereAdapter
    out = []
    for kind, seq, name in spec:
        cls = {"back": BackAdapter, "front": FrontAdapter, "anywhere": AnywhereAdapter}[kind]
        out.append(cls(seq, max_errors=0.2, min_overlap=3, name=name))
    return out


def _gen_read(rng):
    n = rng.choice([0, 4, 10, 18, 26])
    r = "".join(rng.choice("ACGT") for _ in range(n))
    for _ in range(rng.choice([0, 1, 1, 2])):
        a = rng.choice(ADAPTERS)
        if rng.random() < 0.4:
            a = a.translate(COMP)[::-1]
        pos = rng.randint(0, len(r))
        r = r[:pos] + a[:rng.randint(4, len(a))] + r[pos:]
    return r


def _gen_adapters(rng):
    k = rng.randint(1, 3)
    return [[rng.choice(["back", "front", "anywhere"]), rng.choice(ADAPTERS), f"a{i}"] for i in range(k)]


# ------------------------------------------------------------------------------ C09: best match among several adapters
def gen_best(rng):
    return {"adapters": _gen_adapters(rng), "read": _gen_read(rng)}


def call_best(inp):
    from cutadapt.adapters import MultipleAdapters
    ads = _mk_adapters(inp["adapters"])
    m = MultipleAdapters(ads).match_to(inp["read"])
    each = [a.match_to(inp["read"]) for a in ads]
    return {"chosen": None if m is None else [m.adapter.name, m.score, m.errors],
            "each": [None if x is None else [x.adapter.name, x.score, x.errors] for x in each]}


def check_best(inp, res, err):
    if err:
        return ["no_raise:" + err]
    cands = [x for x in res["each"] if x is not None]
    if not cands:
        return [] if res["chosen"] is None else ["a match is reported although no adapter matches"]
    best = None
    for x in cands:          # highest score, then fewest errors, then the adapter given first
        if best is None or x[1] > best[1] or (x[1] == best[1] and x[2] < best[2]):
            best = x
    return [] if res["chosen"] == best else [f"best_match: expected {best}, chosen {res['chosen']}"]


# ------------------------------------------------------------------------------ C16 / C20: --revcomp decision and bookkeeping
def gen_rc(rng):
    return {"adapters": _gen_adapters(rng), "reads": [_gen_read(rng) for _ in range(rng.randint(1, 4))],
            "suffix": rng.choice([" rc", None]), "times": rng.choice([1, 1, 2])}


def call_rc(inp):
    from dnaio import SequenceRecord
    from cutadapt.modifiers import AdapterCutter, ReverseComplementer
    from cutadapt.info import ModificationInfo
    ads = _mk_adapters(inp["adapters"])
    rc = ReverseComplementer(AdapterCutter(ads, times=inp["times"]), rc_suffix=inp["suffix"])
    plain = AdapterCutter(_mk_adapters(inp["adapters"]), times=inp["times"])
    rows = []
    for i, s in enumerate(inp["reads"]):
        rec = SequenceRecord(f"r{i}", s, "I" * len(s))
        info = ModificationInfo(rec)
        out = rc(rec, info)
        f_read, f_m = plain.match_and_trim(SequenceRecord(f"r{i}", s, "I" * len(s)))
        rs = s.translate(COMP)[::-1]
        r_read, r_m = plain.match_and_trim(SequenceRecord(f"r{i}", rs, "I" * len(s)))
        rows.append({"out": [out.name, out.sequence], "is_rc": info.is_rc, "n_matches": len(info.matches),
                     "fwd": [f_read.sequence, sum(m.score for m in f_m), len(f_m)], "rev": [r_read.sequence, sum(m.score for m in r_m), len(r_m)]})
    stats = {a.name: [st.reverse_complemented, sum(sum(d.values()) for e in st.end_statistics() if e is not None for d in e.errors.values())]
             for a, st in rc.adapter_cutter.adapter_statistics.items()}
    return {"rows": rows, "reverse_complemented": rc.reverse_complemented, "with_adapters": rc.adapter_cutter.with_adapters, "stats": stats}


def check_rc(inp, res, err):
    if err:
        return ["no_raise:" + err]
    bad = []
    n_rc = n_with = n_match = 0
    for i, row in enumerate(res["rows"]):
        use_rev = row["rev"][2] > 0 and row["rev"][1] > row["fwd"][1]
        want_seq = row["rev"][0] if use_rev else row["fwd"][0]
        want_name = f"r{i}" + ((inp["suffix"] or "") if use_rev else "")
        if row["out"] != [want_name, want_seq]:
            bad.append(f"C16:read {i}: expected {[want_name, want_seq]}, got {row['out']} (forward {row['fwd']}, reverse {row['rev']})")
        if bool(row["is_rc"]) != use_rev:
            bad.append(f"C16:read {i}: is_rc flag {row['is_rc']}, expected {use_rev}")
        k = row["rev"][2] if use_rev else row["fwd"][2]
        if row["n_matches"] != k:
            bad.append(f"C20:read {i}: {row['n_matches']} matches recorded, {k} applied")
        n_rc += use_rev
        n_with += k > 0
        n_match += k
    if res["reverse_complemented"] != n_rc:
        bad.append(f"C16:reverse_complemented counter {res['reverse_complemented']}, tallied {n_rc}")
    if res["with_adapters"] != n_with:
        bad.append(f"C20:with_adapters {res['with_adapters']}, tallied {n_with}")
    if sum(v[1] for v in res["stats"].values()) != n_match:
        bad.append(f"C20:matches in the per-adapter statistics {sum(v[1] for v in res['stats'].values())}, applied {n_match}")
    return bad[:4]


RUNTIME = {
    "best_match": {"gen": gen_best, "call": call_best, "check": check_best, "bounds": "1-3 adapters of 3 types, reads of length <= 40 with planted (possibly reverse-complemented) adapter pieces"},
    "revcomp": {"gen": gen_rc, "call": call_rc, "check": check_rc, "bounds": "1-3 adapters, 1-4 reads, --times 1 or 2, with and without the name suffix"},
}


# ------------------------------------------------------------------------------ C20: the report's histogram equals the tally
def gen_hist(rng):
    kind = rng.choice(["back", "front", "anywhere"])
    seq = rng.choice(["ACGTACGTAC", "TTGGCCAATTG", "GATCGATC"])
    reads = []
    for _ in range(rng.randint(3, 12)):
        r = "".join(rng.choice("ACGT") for _ in range(rng.choice([0, 5, 12, 20])))
        a = seq
        if rng.random() < 0.6:                      # one edit inside the adapter copy (substitution, deletion or insertion)
            p = rng.randint(1, len(a) - 2)
            a = rng.choice([a[:p] + rng.choice("ACGT") + a[p + 1:], a[:p] + a[p + 1:], a[:p] + rng.choice("ACGT") + a[p:]])
        if rng.random() < 0.3:
            a = a[: rng.randint(3, len(a))] if kind != "front" else a[-rng.randint(3, len(a)):]
        reads.append(r + a + ("" if rng.random() < 0.5 else "".join(rng.choice("ACGT") for _ in range(rng.randint(1, 6)))) if kind != "front" else a + r)
    return {"kind": kind, "sequence": seq, "rate": rng.choice([0.1, 0.2, 0.25]), "reads": reads, "times": rng.choice([1, 2])}


def call_hist(inp):
    from dnaio import SequenceRecord
    from cutadapt.modifiers import AdapterCutter
    from cutadapt.info import ModificationInfo
    from cutadapt.report import Statistics
    from cutadapt.adapters import BackAdapter, FrontAdapter, AnywhereAdapter, RemoveBeforeMatch
    cls = {"back": BackAdapter, "front": FrontAdapter, "anywhere": AnywhereAdapter}[inp["kind"]]
    ad = cls(inp["sequence"], max_errors=inp["rate"], min_overlap=3, name="a")
    cutter = AdapterCutter([ad], times=inp["times"])
    tally = {}
    adj = {}
    total_bp = 0
    for i, s in enumerate(inp["reads"]):
        rec = SequenceRecord(f"r{i}", s, "I" * len(s))
        total_bp += len(s)
        info = ModificationInfo(rec)
        cutter(rec, info)
        for m in info.matches:
            end = "five_prime_end" if isinstance(m, RemoveBeforeMatch) else "three_prime_end"
            key = (end, m.removed_sequence_length(), m.errors)
            tally[key] = tally.get(key, 0) + 1
            if end == "three_prime_end":
                # the base before the match in the string this round searched; none (or not A/C/G/T) is counted under ""
                b = m.sequence[m.rstart - 1] if m.rstart > 0 else ""
                b = b if b in ("A", "C", "G", "T") else ""
                adj[b] = adj.get(b, 0) + 1
    st = Statistics().collect(len(inp["reads"]), total_bp, None, [cutter], [])
    a = st._adapter_statistics_as_json(st.adapter_stats[0][0], len(inp["reads"]), 0.5)
    rep = {}
    for end in ("five_prime_end", "three_prime_end"):
        if a[end] is None:
            continue
        rep[end] = {"matches": a[end]["matches"], "rows": [[row["len"], row["counts"]] for row in a[end]["trimmed_lengths"]]}
    three = a["three_prime_end"]
    return {"tally": [[k[0], k[1], k[2], v] for k, v in tally.items()], "report": rep, "total_matches": a["total_matches"],
            "adjacent": adj, "adjacent_reported": None if three is None else {k: v for k, v in (three["adjacent_bases"] or {}).items() if v}}


def check_hist(inp, res, err):
    if err:
        return ["no_raise:" + err]
    bad = []
    want = {}
    for end, length, errors, n in res["tally"]:
        want.setdefault(end, {}).setdefault(length, {})[errors] = n
    got = {}
    for end, e in res["report"].items():
        for length, counts in e["rows"]:
            for k, n in enumerate(counts):
                if n:
                    got.setdefault(end, {}).setdefault(length, {})[k] = n
    if got != want:
        bad.append(f"C20:histogram by removed length and error count in the report {got} != tally of the applied matches {want}")
    if res["adjacent_reported"] is not None and res["adjacent_reported"] != {k: v for k, v in res["adjacent"].items() if v}:
        bad.append(f"C20:bases adjacent to 3' matches in the report {res['adjacent_reported']} != tally {res['adjacent']}")
    n_all = sum(x[3] for x in res["tally"])
    if res["total_matches"] != n_all or sum(e["matches"] for e in res["report"].values()) != n_all:
        bad.append(f"C20:reported number of matches {res['total_matches']} != applied matches {n_all}")
    return bad


RUNTIME["report_histogram"] = {"gen": gen_hist, "call": call_hist, "check": check_hist,
                               "bounds": "one adapter (3 types), 3-12 reads with exact, edited (one substitution/insertion/deletion) and partial copies, rates 0.1/0.2/0.25"}


# ------------------------------------------------------------------------------ C05 / C03: --pair-adapters
def gen_pair(rng):
    k = rng.randint(1, 3)
    kinds = ["back", "front", "anywhere"]
    a1 = [[rng.choice(kinds), rng.choice(ADAPTERS), f"f{i}"] for i in range(k)]
    if k > 1 and rng.random() < 0.4:                 # two ranks sharing the R1 adapter sequence and type
        a1[1] = [a1[0][0], a1[0][1], "f1"]
    a2 = [[rng.choice(kinds), rng.choice(ADAPTERS), f"s{i}"] for i in range(k)]
    return {"adapters1": a1, "adapters2": a2, "action": rng.choice(["trim", "mask", "lowercase", "retain", None]),
            "pairs": [[_gen_read(rng), _gen_read(rng)] for _ in range(rng.randint(1, 3))]}


def _interval(m, n):
    """the part of a read of length n that trimming this match keeps"""
    from cutadapt.adapters import RemoveBeforeMatch
    return (m.rstop, n) if isinstance(m, RemoveBeforeMatch) else (0, m.rstart)


def call_pair(inp):
    from dnaio import SequenceRecord
    from cutadapt.modifiers import PairedAdapterCutter
    from cutadapt.info import ModificationInfo
    from cutadapt.adapters import RemoveBeforeMatch
    ads1, ads2 = _mk_adapters(inp["adapters1"]), _mk_adapters(inp["adapters2"])
    try:
        pac = PairedAdapterCutter(ads1, ads2, action=inp["action"])
    except Exception as e:       # noqa  (retain is only allowed for 3' adapters)
        return {"invalid": str(e)}
    rows = []
    for i, (s1, s2) in enumerate(inp["pairs"]):
        r1, r2 = SequenceRecord(f"p{i}", s1, "I" * len(s1)), SequenceRecord(f"p{i}", s2, "5" * len(s2))
        i1, i2 = ModificationInfo(r1), ModificationInfo(r2)
        try:
            o1, o2 = pac(r1, r2, i1, i2)
        except ValueError as e:
            if "retain" in str(e).lower() or inp["action"] == "retain":
                return {"invalid": str(e)}
            raise
        ranks = []
        for k, (x, y) in enumerate(zip(ads1, ads2)):
            m1, m2 = x.match_to(s1), y.match_to(s2)
            ranks.append(None if m1 is None or m2 is None else
                         [m1.score + m2.score, m1.errors + m2.errors, list(_interval(m1, len(s1))), list(_interval(m2, len(s2))),
                          isinstance(m1, RemoveBeforeMatch), isinstance(m2, RemoveBeforeMatch)])
        rows.append({"out": [[o1.sequence, o1.qualities], [o2.sequence, o2.qualities]], "ranks": ranks,
                     "recorded": [[m.adapter.name for m in i1.matches], [m.adapter.name for m in i2.matches]]})
    return {"rows": rows, "with_adapters": pac.with_adapters}


def _apply(action, s, q, iv, front):
    a, b = iv
    if action == "trim":
        return [s[a:b], q[a:b]]
    if action == "mask":
        return ["N" * a + s[a:b] + "N" * (len(s) - b), q]
    if action == "lowercase":
        return [s[:a].lower() + s[a:b].upper() + s[b:].lower(), q]
    if action is None:
        return [s, q]
    return None


def check_pair(inp, res, err):
    if err:
        return ["no_raise:" + err]
    if "invalid" in res:
        return []
    bad = []
    n_with = 0
    for i, (row, (s1, s2)) in enumerate(zip(res["rows"], inp["pairs"])):
        best = None
        for k, r in enumerate(row["ranks"]):     # best total score, then fewest total errors, then the first rank
            if r is not None and (best is None or r[0] > row["ranks"][best][0] or (r[0] == row["ranks"][best][0] and r[1] < row["ranks"][best][1])):
                best = k
        if best is None:
            if row["out"] != [[s1, "I" * len(s1)], [s2, "5" * len(s2)]]:
                bad.append(f"C05:pair {i}: no rank matches on both mates, but the pair was changed: {row['out']}")
            if row["recorded"] != [[], []]:
                bad.append(f"C05:pair {i}: no rank matches on both mates, but matches were recorded: {row['recorded']}")
            continue
        n_with += 1
        r = row["ranks"][best]
        if row["recorded"] != [[inp["adapters1"][best][2]], [inp["adapters2"][best][2]]]:
            bad.append(f"C05:pair {i}: recorded matches {row['recorded']} are not the two adapters of the best rank {best}")
        w1 = _apply(inp["action"], s1, "I" * len(s1), r[2], r[4])
        w2 = _apply(inp["action"], s2, "5" * len(s2), r[3], r[5])
        if w1 is not None and (row["out"][0] != w1 or row["out"][1] != w2):
            bad.append(f"C03:pair {i}: action {inp['action']} gives {row['out']}, expected {[w1, w2]} (kept intervals {r[2]}, {r[3]})")
    if res["with_adapters"] != n_with:
        bad.append(f"C05:with_adapters {res['with_adapters']}, pairs with a rank matching both mates {n_with}")
    return bad[:4]


RUNTIME["pair_adapters"] = {"gen": gen_pair, "call": call_pair, "check": check_pair,
                            "bounds": "1-3 ranks (sometimes sharing the R1 adapter), 3 adapter types, 5 actions, 1-3 pairs"}


# ------------------------------------------------------------------------------ C09: linked adapters
def gen_linked(rng):
    front = rng.choice(["ACGTACGT", "TTGGCCAA", "GATCGA"])
    back = rng.choice(["GATCGATC", "ACGTAC", "CCGGAATT"])
    body = "".join(rng.choice("ACGT") for _ in range(rng.choice([0, 0, 3, 9, 15])))
    f = front if rng.random() < 0.7 else ""
    if f and rng.random() < 0.3:
        p = rng.randint(0, len(f) - 1)
        f = f[:p] + rng.choice("ACGT") + f[p + 1:]
    bk = back[: rng.randint(3, len(back))] if rng.random() < 0.6 else ""
    lead = "" if rng.random() < 0.6 else "".join(rng.choice("ACGT") for _ in range(rng.randint(1, 5)))
    return {"front": front, "back": back, "front_anchored": rng.random() < 0.5, "front_required": rng.random() < 0.5,
            "back_required": rng.random() < 0.5, "read": lead + f + body + bk}


def _t(m):
    return None if m is None else [m.astart, m.astop, m.rstart, m.rstop, m.score, m.errors]


def call_linked(inp):
    from cutadapt.adapters import LinkedAdapter, FrontAdapter, PrefixAdapter, BackAdapter
    mk_f = (lambda: PrefixAdapter(inp["front"], max_errors=0.2)) if inp["front_anchored"] else (lambda: FrontAdapter(inp["front"], max_errors=0.2, min_overlap=3))
    mk_b = lambda: BackAdapter(inp["back"], max_errors=0.2, min_overlap=3)
    la = LinkedAdapter(mk_f(), mk_b(), inp["front_required"], inp["back_required"], name="L")
    m = la.match_to(inp["read"])
    f = mk_f().match_to(inp["read"])
    rest = inp["read"] if f is None else inp["read"][f.rstop:]
    b = mk_b().match_to(rest)
    return {"linked": None if m is None else [_t(m.front_match), _t(m.back_match), m.score, m.errors],
            "front": _t(f), "back_in_rest": _t(b), "rest": rest}


def check_linked(inp, res, err):
    if err:
        return ["no_raise:" + err]
    f, b = res["front"], res["back_in_rest"]
    missing = (f is None and inp["front_required"]) or (b is None and inp["back_required"]) or (f is None and b is None)
    if missing:
        return [] if res["linked"] is None else [f"a required part is missing (front {f}, back {b}) but a match is reported: {res['linked']}"]
    if res["linked"] is None:
        return [f"all required parts were found (front {f}, back {b} in {res['rest']!r}) but no match is reported"]
    want = [f, b, (f[4] if f else 0) + (b[4] if b else 0), (f[5] if f else 0) + (b[5] if b else 0)]
    return [] if res["linked"] == want else [f"linked match {res['linked']}, expected {want} (3' part searched in what the 5' part left: {res['rest']!r})"]


RUNTIME["linked"] = {"gen": gen_linked, "call": call_linked, "check": check_linked,
                     "bounds": "3x3 adapter pairs, anchored or not, all four required/optional combinations, reads <= 40 incl. reads ending with the 5' adapter"}


# ------------------------------------------------------------------------------ C09 / C03: the rounds of --times
def gen_rounds(rng):
    return {"adapters": _gen_adapters(rng), "read": _gen_read(rng) + (rng.choice(ADAPTERS) if rng.random() < 0.4 else ""),
            "times": rng.choice([1, 2, 2, 3]), "action": rng.choice(["trim", "mask", "lowercase", None, None, "crop", "retain"])}


def call_rounds(inp):
    if inp["action"] in ("crop", "retain"):
        inp = dict(inp, times=1)
    from dnaio import SequenceRecord
    from cutadapt.modifiers import AdapterCutter
    from cutadapt.adapters import MultipleAdapters
    from cutadapt.info import ModificationInfo
    s = inp["read"]
    cutter = AdapterCutter(_mk_adapters(inp["adapters"]), times=inp["times"], action=inp["action"], index=False)
    rec = SequenceRecord("r", s, "I" * len(s))
    info = ModificationInfo(rec)
    try:
        out = cutter(rec, info)
    except ValueError as e:          # 'retain' is refused for 5' matches
        return {"invalid": str(e)}
    # the statement, round by round: search what the previous round left, stop when nothing matches or at the limit
    multi = MultipleAdapters(_mk_adapters(inp["adapters"]))
    cur, want, lo, hi = s.upper() if inp["action"] == "lowercase" else s, [], 0, len(s)
    last = None
    for _ in range(inp["times"]):
        m = multi.match_to(cur)
        if m is None:
            break
        want.append([m.adapter.name, m.rstart, m.rstop, m.errors])
        last = [m.rstart, m.rstop, type(m).__name__]
        a, b = _interval(m, len(cur))
        lo, hi = lo + a, lo + b
        cur = cur[a:b]
    return {"recorded": [[m.adapter.name, m.rstart, m.rstop, m.errors] for m in info.matches], "want": want,
            "out": [out.sequence, out.qualities], "kept": [lo, hi], "last": last}


def check_rounds(inp, res, err):
    if err:
        return ["no_raise:" + err]
    if "invalid" in res:
        return []
    bad = []
    if res["recorded"] != res["want"]:
        bad.append(f"C09:matches recorded {res['recorded']}, the rounds of the statement give {res['want']}")
    s = inp["read"]
    if res["want"] and inp["action"] == "crop":
        a, b = res["last"][0], res["last"][1]                 # crop keeps exactly the matched stretch
        w = [s[a:b], "I" * (b - a)]
    elif res["want"] and inp["action"] == "retain":
        a, b = (0, res["last"][1]) if res["last"][2] == "RemoveAfterMatch" else (res["last"][0], len(s))    # remainder plus the adapter
        w = [s[a:b], "I" * (b - a)]
    elif res["want"]:
        w = _apply(inp["action"], s, "I" * len(s), res["kept"], None)
    else:
        w = [s.upper() if inp["action"] == "lowercase" else s, "I" * len(s)]
    if w is not None and res["out"] != w:
        bad.append(f"C03:action {inp['action']} after {len(res['want'])} round(s) gives {res['out']}, expected {w}")
    return bad


RUNTIME["rounds"] = {"gen": gen_rounds, "call": call_rounds, "check": check_rounds,
                     "bounds": "1-3 adapters, --times 1-3, actions trim/mask/lowercase/none, reads <= 50 with several planted adapter pieces"}
