"""Runtime forms of contracts on the adapter-trimming modifiers (used when a static contract cannot be attached to changed
code or an obligation stays undecided; never counted as proof): best-match choice (C09), the --revcomp decision and its
bookkeeping (C16), and the per-adapter statistics tallied from the matches that were applied (C20)."""

ADAPTERS = ["ACGTACGT", "TTGGCCAA", "GATCGATC", "ACGTAC"]
COMP = str.maketrans("ACGTN", "TGCAN")


def _mk_adapters(spec):
    from cutadapt.adapters import BackAdapter, FrontAdapter, AnywhereAdapter
    out = []
    for kind, seq, name in spec:
        cls = {"back": BackAdapter, "front": FrontAdapter, "anywhere": AnywhereAdapter}[kind]
        out.append(cls(seq, max_errors=0.2, min_overlap=3, name=name))
    return out


def _gen_read(rng):
    n = rng.choice([0, 4, 10, 18, 26])
    r = "".join(rng.choice("ACGT") for _ in range(n))
    for _ in range(rng.choice([0, 1, 1, 2])):
        a = rng.choice(ADAPTERS)
        if rng.random() < 0.4:
            a = a.translate(COMP)[::-1]
        pos = rng.randint(0, len(r))
        r = r[:pos] + a[:rng.randint(4, len(a))] + r[pos:]
    return r


def _gen_adapters(rng):
    k = rng.randint(1, 3)
    return [[rng.choice(["back", "front", "anywhere"]), rng.choice(ADAPTERS), f"a{i}"] for i in range(k)]


# ------------------------------------------------------------------------------ C09: best match among several adapters
def gen_best(rng):
    return {"adapters": _gen_adapters(rng), "read": _gen_read(rng)}


def call_best(inp):
    from cutadapt.adapters import MultipleAdapters
    ads = _mk_adapters(inp["adapters"])
    m = MultipleAdapters(ads).match_to(inp["read"])
    each = [a.match_to(inp["read"]) for a in ads]
    return {"chosen": None if m is None else [m.adapter.name, m.score, m.errors],
            "each": [None if x is None else [x.adapter.name, x.score, x.errors] for x in each]}


def check_best(inp, res, err):
    if err:
        return ["no_raise:" + err]
    cands = [x for x in res["each"] if x is not None]
    if not cands:
        return [] if res["chosen"] is None else ["a match is reported although no adapter matches"]
    best = None
    for x in cands:          # highest score, then fewest errors, then the adapter given first
        if best is None or x[1] > best[1] or (x[1] == best[1] and x[2] < best[2]):
            best = x
    return [] if res["chosen"] == best else [f"best_match: expected {best}, chosen {res['chosen']}"]


# ------------------------------------------------------------------------------ C16 / C20: --revcomp decision and bookkeeping
def gen_rc(rng):
    return {"adapters": _gen_adapters(rng), "reads": [_gen_read(rng) for _ in range(rng.randint(1, 4))],
            "suffix": rng.choice([" rc", None]), "times": rng.choice([1, 1, 2])}


def call_rc(inp):
    from dnaio import SequenceRecord
    from cutadapt.modifiers import AdapterCutter, ReverseComplementer
    from cutadapt.info import ModificationInfo
    ads = _mk_adapters(inp["adapters"])
    rc = ReverseComplementer(AdapterCutter(ads, times=inp["times"]), rc_suffix=inp["suffix"])
    plain = AdapterCutter(_mk_adapters(inp["adapters"]), times=inp["times"])
    rows = []
    for i, s in enumerate(inp["reads"]):
        rec = SequenceRecord(f"r{i}", s, "I" * len(s))
        info = ModificationInfo(rec)
        out = rc(rec, info)
        f_read, f_m = plain.match_and_trim(SequenceRecord(f"r{i}", s, "I" * len(s)))
        rs = s.translate(COMP)[::-1]
        r_read, r_m = plain.match_and_trim(SequenceRecord(f"r{i}", rs, "I" * len(s)))
        rows.append({"out": [out.name, out.sequence], "is_rc": info.is_rc, "n_matches": len(info.matches),
                     "fwd": [f_read.sequence, sum(m.score for m in f_m), len(f_m)], "rev": [r_read.sequence, sum(m.score for m in r_m), len(r_m)]})
    stats = {a.name: [st.reverse_complemented, sum(sum(d.values()) for e in st.end_statistics() if e is not None for d in e.errors.values())]
             for a, st in rc.adapter_cutter.adapter_statistics.items()}
    return {"rows": rows, "reverse_complemented": rc.reverse_complemented, "with_adapters": rc.adapter_cutter.with_adapters, "stats": stats}


def check_rc(inp, res, err):
    if err:
        return ["no_raise:" + err]
    bad = []
    n_rc = n_with = n_match = 0
    for i, row in enumerate(res["rows"]):
        use_rev = row["rev"][2] > 0 and row["rev"][1] > row["fwd"][1]
        want_seq = row["rev"][0] if use_rev else row["fwd"][0]
        want_name = f"r{i}" + ((inp["suffix"] or "") if use_rev else "")
        if row["out"] != [want_name, want_seq]:
            bad.append(f"C16:read {i}: expected {[want_name, want_seq]}, got {row['out']} (forward {row['fwd']}, reverse {row['rev']})")
        if bool(row["is_rc"]) != use_rev:
            bad.append(f"C16:read {i}: is_rc flag {row['is_rc']}, expected {use_rev}")
        k = row["rev"][2] if use_rev else row["fwd"][2]
        if row["n_matches"] != k:
            bad.append(f"C20:read {i}: {row['n_matches']} matches recorded, {k} applied")
        n_rc += use_rev
        n_with += k > 0
        n_match += k
    if res["reverse_complemented"] != n_rc:
        bad.append(f"C16:reverse_complemented counter {res['reverse_complemented']}, tallied {n_rc}")
    if res["with_adapters"] != n_with:
        bad.append(f"C20:with_adapters {res['with_adapters']}, tallied {n_with}")
    if sum(v[1] for v in res["stats"].values()) != n_match:
        bad.append(f"C20:matches in the per-adapter statistics {sum(v[1] for v in res['stats'].values())}, applied {n_match}")
    return bad[:4]


RUNTIME = {
    "best_match": {"gen": gen_best, "call": call_best, "check": check_best, "bounds": "1-3 adapters of 3 types, reads of length <= 40 with planted (possibly reverse-complemented) adapter pieces"},
    "revcomp": {"gen": gen_rc, "call": call_rc, "check": check_rc, "bounds": "1-3 adapters, 1-4 reads, --times 1 or 2, with and without the name suffix"},
}


# ------------------------------------------------------------------------------ C20: the report's histogram equals the tally
def gen_hist(rng):
    kind = rng.choice(["back", "front", "anywhere"])
    seq = rng.choice(["ACGTACGTAC", "TTGGCCAATTG", "GATCGATC"])
    reads = []
    for _ in range(rng.randint(3, 12)):
        r = "".join(rng.choice("ACGT") for _ in range(rng.choice([0, 5, 12, 20])))
        a = seq
        if rng.random() < 0.6:                      # one edit inside the adapter copy (substitution, deletion or insertion)
            p = rng.randint(1, len(a) - 2)
            a = rng.choice([a[:p] + rng.choice("ACGT") + a[p + 1:], a[:p] + a[p + 1:], a[:p] + rng.choice("ACGT") + a[p:]])
        if rng.random() < 0.3:
            a = a[: rng.randint(3, len(a))] if kind != "front" else a[-rng.randint(3, len(a)):]
        reads.append(r + a + ("" if rng.random() < 0.5 else "".join(rng.choice("ACGT") for _ in range(rng.randint(1, 6)))) if kind != "front" else a + r)
    return {"kind": kind, "sequence": seq, "rate": rng.choice([0.1, 0.2, 0.25]), "reads": reads, "times": rng.choice([1, 2])}


def call_hist(inp):
    from dnaio import SequenceRecord
    from cutadapt.modifiers import AdapterCutter
    from cutadapt.info import ModificationInfo
    from cutadapt.report import Statistics
    from cutadapt.adapters import BackAdapter, FrontAdapter, AnywhereAdapter, RemoveBeforeMatch
    cls = {"back": BackAdapter, "front": FrontAdapter, "anywhere": AnywhereAdapter}[inp["kind"]]
    ad = cls(inp["sequence"], max_errors=inp["rate"], min_overlap=3, name="a")
    cutter = AdapterCutter([ad], times=inp["times"])
    tally = {}
    total_bp = 0
    for i, s in enumerate(inp["reads"]):
        rec = SequenceRecord(f"r{i}", s, "I" * len(s))
        total_bp += len(s)
        info = ModificationInfo(rec)
        cutter(rec, info)
        for m in info.matches:
            end = "five_prime_end" if isinstance(m, RemoveBeforeMatch) else "three_prime_end"
            key = (end, m.removed_sequence_length(), m.errors)
            tally[key] = tally.get(key, 0) + 1
    st = Statistics().collect(len(inp["reads"]), total_bp, None, [cutter], [])
    a = st._adapter_statistics_as_json(st.adapter_stats[0][0], len(inp["reads"]), 0.5)
    rep = {}
    for end in ("five_prime_end", "three_prime_end"):
        if a[end] is None:
            continue
        rep[end] = {"matches": a[end]["matches"], "rows": [[row["len"], row["counts"]] for row in a[end]["trimmed_lengths"]]}
    return {"tally": [[k[0], k[1], k[2], v] for k, v in tally.items()], "report": rep, "total_matches": a["total_matches"]}


def check_hist(inp, res, err):
    if err:
        return ["no_raise:" + err]
    bad = []
    want = {}
    for end, length, errors, n in res["tally"]:
        want.setdefault(end, {}).setdefault(length, {})[errors] = n
    got = {}
    for end, e in res["report"].items():
        for length, counts in e["rows"]:
            for k, n in enumerate(counts):
                if n:
                    got.setdefault(end, {}).setdefault(length, {})[k] = n
    if got != want:
        bad.append(f"C20:histogram by removed length and error count in the report {got} != tally of the applied matches {want}")
    n_all = sum(x[3] for x in res["tally"])
    if res["total_matches"] != n_all or sum(e["matches"] for e in res["report"].values()) != n_all:
        bad.append(f"C20:reported number of matches {res['total_matches']} != applied matches {n_all}")
    return bad


RUNTIME["report_histogram"] = {"gen": gen_hist, "call": call_hist, "check": check_hist,
                               "bounds": "one adapter (3 types), 3-12 reads with exact, edited (one substitution/insertion/deletion) and partial copies, rates 0.1/0.2/0.25"}
