"""Runtime form of the contract on the proxy writers that worker processes use with several cores (bounded stand-in, never
counted as proved): a proxy record writer writes the requested format, its pickled state holds the keyword arguments it was
opened with, and the copy rebuilt from that state writes the same bytes - which is what a worker gets under the spawn / forkserver start methods
(under fork, the only method this sandbox's runs exercise, the worker inherits the object itself)."""
import io


def gen(rng):
    kw = {"qualities": rng.choice([True, False, None])}
    ff = rng.choice([None, "fasta", "fastq"])
    if ff is not None:
        kw["fileformat"] = ff
    n_files = rng.choice([1, 1, 2])
    if n_files == 1 and rng.random() < 0.3:
        kw["interleaved"] = True
    recs = []
    for i in range(rng.randint(1, 3)):
        s = "".join(rng.choice("ACGT") for _ in range(rng.randint(0, 9)))
        recs.append([f"r{i}", s, "".join(rng.choice("#5I") for _ in s)])
    return {"n_files": n_files, "kwargs": kw, "records": recs}


def _write(w, inp):
    from dnaio import SequenceRecord
    paired = inp["n_files"] == 2 or inp["kwargs"].get("interleaved")
    for n, s, q in inp["records"]:
        q_ = q if (inp["kwargs"].get("qualities") or inp["kwargs"].get("fileformat") == "fastq") else None
        if inp["kwargs"].get("fileformat") == "fastq" or (inp["kwargs"].get("fileformat") is None and inp["kwargs"].get("qualities")):
            q_ = q
        r1 = SequenceRecord(n, s, q_)
        if paired:
            w.write(r1, SequenceRecord(n, s[::-1], None if q_ is None else q_[::-1]))
        else:
            w.write(r1)


def call(inp):
    import pickle
    import dnaio
    from cutadapt.files import ProxyRecordWriter
    kw = dict(inp["kwargs"])
    if kw.get("fileformat") is None and kw.get("qualities") is None:
        return {"skip": True}
    out = {}
    try:
        dnaio.open(*[io.BytesIO() for _ in range(inp["n_files"])], mode="w", **kw)
    except Exception as e:   # noqa  (a combination dnaio itself rejects)
        return {"skip": str(e)}
    p = ProxyRecordWriter(inp["n_files"], **dict(inp["kwargs"]))
    _write(p, inp)
    out["proxy"] = [c.decode() for c in p.drain()]
    q = pickle.loads(pickle.dumps(ProxyRecordWriter(inp["n_files"], **dict(inp["kwargs"]))))
    _write(q, inp)
    out["rebuilt"] = [c.decode() for c in q.drain()]
    out["state_kwargs"] = {k: v for k, v in ProxyRecordWriter(inp["n_files"], **dict(inp["kwargs"])).__getstate__()[1].items()}
    return out


def check(inp, res, err):
    if err:
        return ["no_raise:" + err]
    if res.get("skip"):
        return []
    bad = []
    if res["rebuilt"] != res["proxy"]:
        bad.append(f"C19:the writer rebuilt from the pickled state writes {res['rebuilt']}, the original writes {res['proxy']}")
    if res["state_kwargs"] != inp["kwargs"]:
        bad.append(f"C19:pickled state holds the keyword arguments {res['state_kwargs']}, the writer was opened with {inp['kwargs']}")
    ff = inp["kwargs"].get("fileformat")
    want_fasta = ff == "fasta" or (ff is None and not inp["kwargs"].get("qualities"))
    first = res["proxy"][0][:1]
    if first and (first == ">") != want_fasta:
        bad.append(f"C19:proxy writer output starts with {first!r} although the requested format is {'FASTA' if want_fasta else 'FASTQ'}")
    return bad


RUNTIME = {"proxy_record_writer": {"gen": gen, "call": call, "check": check,
                                   "bounds": "1-2 files, fileformat fasta/fastq/unspecified, qualities yes/no, interleaved, 1-3 records"}}
