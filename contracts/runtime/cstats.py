"""Runtime form of the Statistics.__iadd__ contract (used when the static contract cannot be attached or an obligation
is undecided).  Never counted as proof."""


def gen_iadd(rng):
    names = ["too_short", "too_long", "too_many_n", "too_many_expected_errors", "casava_filtered", "discard_trimmed", "discard_untrimmed"]

    def one():
        keys = rng.sample(names, rng.randint(0, 4))
        def hist():
            return None if rng.random() < 0.3 else {rng.randint(3, 8): rng.randint(1, 4) for _ in range(rng.randint(0, 3))}
        return {"n": rng.randint(0, 50), "paired": rng.choice([None, True, False]), "rc": rng.choice([None, 0, 3, 7]),
                "filtered": {k: rng.choice([0, 0, 1, 5]) for k in keys},
                "total_bp": [rng.randint(0, 99), rng.randint(0, 99)],
                "with_adapters": [rng.choice([None, 0, 4]), rng.choice([None, 2])],
                "quality_trimmed_bp": [rng.choice([None, 0, 9]), rng.choice([None, 5])],
                "poly_a": [hist(), hist()]}
    a, b = one(), one()
    if a["paired"] is not None and b["paired"] is not None:
        b["paired"] = a["paired"]
    return {"a": a, "b": b}


def _build(d):
    from cutadapt.report import Statistics
    s = Statistics()
    s.n, s.paired, s.reverse_complemented = d["n"], d["paired"], d["rc"]
    for k, v in d["filtered"].items():
        s.filtered[k] = v
    from collections import defaultdict
    s.total_bp = list(d["total_bp"])
    s.with_adapters = list(d["with_adapters"])
    s.quality_trimmed_bp = list(d["quality_trimmed_bp"])
    s.poly_a_trimmed_lengths = [None if h is None else defaultdict(int, {int(k): v for k, v in h.items()}) for h in d["poly_a"]]
    return s


def call_iadd(inp):
    a, b = _build(inp["a"]), _build(inp["b"])
    a += b
    return {"n": a.n, "paired": a.paired, "rc": a.reverse_complemented, "filtered": dict(a.filtered), "total_bp": list(a.total_bp),
            "with_adapters": list(a.with_adapters), "quality_trimmed_bp": list(a.quality_trimmed_bp),
            "poly_a": [None if h is None else {int(k): v for k, v in h.items() if v} for h in a.poly_a_trimmed_lengths]}


def check_iadd(inp, res, err):
    a, b = inp["a"], inp["b"]
    if err:
        if err.startswith("ValueError") and a["paired"] is not None and a["paired"] != b["paired"]:
            return []
        return ["no_raise:" + err]
    bad = []
    if res["n"] != a["n"] + b["n"]:
        bad.append("read_counts_add_up")
    want = dict(a["filtered"])
    for k, v in b["filtered"].items():
        want[k] = want.get(k, 0) + v
    if res["filtered"] != want:
        bad.append(f"every_filter_of_either_side_is_listed_with_the_sum_of_its_counts: expected {want}, got {res['filtered']}")
    rc = None if a["rc"] is None and b["rc"] is None else (a["rc"] or 0) + (b["rc"] or 0)
    if res["rc"] != rc:
        bad.append("reverse_complemented_counts_add_up")

    def osum(x, y):
        return None if x is None and y is None else (x or 0) + (y or 0)
    for i in (0, 1):
        if res["total_bp"][i] != a["total_bp"][i] + b["total_bp"][i]:
            bad.append(f"read_{i + 1}_base_totals_add_up")
        if res["with_adapters"][i] != osum(a["with_adapters"][i], b["with_adapters"][i]) or \
                res["quality_trimmed_bp"][i] != osum(a["quality_trimmed_bp"][i], b["quality_trimmed_bp"][i]):
            bad.append(f"read_{i + 1}_reads_with_adapters_and_quality_trimmed_bases_add_up")
        ha, hb = a["poly_a"][i], b["poly_a"][i]
        if ha is None and hb is None:
            want_h = None
        else:
            want_h = {}
            for h in (ha or {}, hb or {}):
                for k, v in h.items():
                    want_h[int(k)] = want_h.get(int(k), 0) + v
            want_h = {k: v for k, v in want_h.items() if v}
        if res["poly_a"][i] != want_h:
            bad.append(f"read_{i + 1}_poly_a_histograms_add_pointwise: expected {want_h}, got {res['poly_a'][i]}")
    return bad


RUNTIME = {"iadd": {"gen": gen_iadd, "call": call_iadd, "check": check_iadd,
                    "bounds": "random pairs of Statistics objects with up to 4 of 7 filter names each, counts in {0,1,5}"}}


# ------------------------------------------------------------------------------ ReadLengthStatistics.__iadd__
def gen_rl(rng):
    def side():
        return [[rng.choice([0, 5, 9, 14]), rng.choice([0, 5, 9, 14, 20])] for _ in range(rng.randint(0, 6))]
    return {"a": side(), "b": side()}


def call_rl(inp):
    from cutadapt.statistics import ReadLengthStatistics
    out = []
    for pairs in (inp["a"], inp["b"]):
        s = ReadLengthStatistics()
        for l1, l2 in pairs:
            s.update2("A" * l1, "C" * l2)
        out.append(s)
    a, b = out
    a += b
    w1, w2 = a.written_lengths()
    return {"w1": {int(k): v for k, v in w1.items() if v}, "w2": {int(k): v for k, v in w2.items() if v}, "reads": a.written_reads(), "bp": list(a.written_bp())}


def check_rl(inp, res, err):
    if err:
        return ["no_raise:" + err]
    w1, w2 = {}, {}
    for l1, l2 in inp["a"] + inp["b"]:
        w1[l1] = w1.get(l1, 0) + 1
        w2[l2] = w2.get(l2, 0) + 1
    bad = []
    if res["w1"] != w1 or res["w2"] != w2:
        bad.append(f"written-length histograms after merging {res['w1']}, {res['w2']} != point-wise sums {w1}, {w2}")
    n = len(inp["a"]) + len(inp["b"])
    if res["reads"] != n or res["bp"] != [sum(k * v for k, v in w1.items()), sum(k * v for k, v in w2.items())]:
        bad.append(f"written reads / bases {res['reads']}, {res['bp']} do not add up over the two chunks")
    return bad


RUNTIME["read_length_iadd"] = {"gen": gen_rl, "call": call_rl, "check": check_rl, "bounds": "two chunks of 0-6 written pairs, lengths from a small set (shared lengths frequent)"}
