"""Runtime form of the Statistics.__iadd__ contract (used when the static contract cannot be attached or an obligation
is undecided).  Never counted as proof."""


def gen_iadd(rng):
    names = ["too_short", "too_long", "too_many_n", "too_many_expected_errors", "casava_filtered", "discard_trimmed", "discard_untrimmed"]

    def one():
        keys = rng.sample(names, rng.randint(0, 4))
        return {"n": rng.randint(0, 50), "paired": rng.choice([None, True, False]), "rc": rng.choice([None, 0, 3, 7]),
                "filtered": {k: rng.choice([0, 0, 1, 5]) for k in keys}}
    a, b = one(), one()
    if a["paired"] is not None and b["paired"] is not None:
        b["paired"] = a["paired"]
    return {"a": a, "b": b}


def _build(d):
    from cutadapt.report import Statistics
    s = Statistics()
    s.n, s.paired, s.reverse_complemented = d["n"], d["paired"], d["rc"]
    for k, v in d["filtered"].items():
        s.filtered[k] = v
    return s


def call_iadd(inp):
    a, b = _build(inp["a"]), _build(inp["b"])
    a += b
    return {"n": a.n, "paired": a.paired, "rc": a.reverse_complemented, "filtered": dict(a.filtered)}


def check_iadd(inp, res, err):
    a, b = inp["a"], inp["b"]
    if err:
        if err.startswith("ValueError") and a["paired"] is not None and a["paired"] != b["paired"]:
            return []
        return ["no_raise:" + err]
    bad = []
    if res["n"] != a["n"] + b["n"]:
        bad.append("read_counts_add_up")
    want = dict(a["filtered"])
    for k, v in b["filtered"].items():
        want[k] = want.get(k, 0) + v
    if res["filtered"] != want:
        bad.append(f"every_filter_of_either_side_is_listed_with_the_sum_of_its_counts: expected {want}, got {res['filtered']}")
    rc = None if a["rc"] is None and b["rc"] is None else (a["rc"] or 0) + (b["rc"] or 0)
    if res["rc"] != rc:
        bad.append("reverse_complemented_counts_add_up")
    return bad


RUNTIME = {"iadd": {"gen": gen_iadd, "call": call_iadd, "check": check_iadd,
                    "bounds": "random pairs of Statistics objects with up to 4 of 7 filter names each, counts in {0,1,5}"}}
