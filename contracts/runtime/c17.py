"""Runtime form of the C17 contract of SingleMatch.get_info_records (replay / failing-input search only)."""


def gen_rec(rng):
    n = rng.randint(0, 30)
    seq = "".join(rng.choice("ACGT") for _ in range(n))
    rstart = rng.randint(0, n)
    rstop = rng.randint(rstart, n)
    quals = rng.choice([None, "".join(rng.choice("#5?I") for _ in range(n))])
    return {"sequence": seq, "qualities": quals, "rstart": rstart, "rstop": rstop, "errors": rng.randint(0, 3),
            "kind": rng.choice(["before", "after"]), "name": rng.choice(["adapter", "x y"])}


def call_rec(inp):
    from dnaio import SequenceRecord
    from cutadapt.adapters import RemoveBeforeMatch, RemoveAfterMatch, FrontAdapter, BackAdapter
    cls, acls = (RemoveBeforeMatch, FrontAdapter) if inp["kind"] == "before" else (RemoveAfterMatch, BackAdapter)
    ad = acls("ACGTACGT", name=inp["name"])
    m = cls(0, 4, inp["rstart"], inp["rstop"], 4, inp["errors"], ad, inp["sequence"])
    return m.get_info_records(SequenceRecord("r", inp["sequence"], inp["qualities"]))


def check_rec(inp, res, err):
    if err:
        return ["no_raise:" + err]
    s, q, a, b = inp["sequence"], inp["qualities"], inp["rstart"], inp["rstop"]
    bad = []
    if len(res) != 1 or len(res[0]) != 11:
        return ["one_row"]
    r = res[0]
    if (r[1], r[2], r[3]) != (inp["errors"], a, b):
        bad.append("coordinates_and_errors")
    if r[5] != s[a:b]:
        bad.append("middle_field_is_the_stretch_between_the_coordinates")
    if r[4] + r[5] + r[6] != s:
        bad.append("three_fields_concatenate_to_the_read")
    if r[7] != inp["name"]:
        bad.append("adapter_name")
    if q:
        if (r[8], r[9], r[10]) != (q[:a], q[a:b], q[b:]):
            bad.append("qualities_split_at_the_same_coordinates")
    elif (r[8], r[9], r[10]) != ("", "", ""):
        bad.append("no_qualities_gives_empty_fields")
    return bad


RUNTIME = {"get_info_records": {"gen": gen_rec, "call": call_rec, "check": check_rec,
                                "bounds": "random reads of length <= 30, random intervals, with / without qualities"}}
