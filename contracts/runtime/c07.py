"""Runtime form of the KmerFinder.kmers_present contract: the answer equals `any(kmer in sequence[start:stop])`
(Python slice semantics).  Run under an AddressSanitizer build, so an out-of-bounds read is an observed failure."""


def gen(rng):
    n = rng.choice([0, 1, 2, 3, 5, 8, 13])
    seq = "".join(rng.choice("ACGT") for _ in range(n))
    entries = []
    for _ in range(rng.randint(1, 3)):
        start = rng.choice([0, 0, 1, 3, -2, -5, -20, 7, 20])
        stop = rng.choice([None, None, 2, 4, 9, 30, -1, -3, -20])
        kmers = ["".join(rng.choice("ACGT") for _ in range(rng.randint(1, 4))) for _ in range(rng.randint(1, 3))]
        entries.append([start, stop, kmers])
    return {"sequence": seq, "entries": entries}


def call(inp):
    from cutadapt._kmer_finder import KmerFinder
    kf = KmerFinder([(s, e, k) for s, e, k in inp["entries"]])
    return bool(kf.kmers_present(inp["sequence"]))


def check(inp, res, err):
    if err:
        return ["no_raise:" + err]
    seq = inp["sequence"]
    want = any(k in seq[s:e] for s, e, ks in inp["entries"] for k in ks)
    return [] if res == want else [f"kmers_present = {res}, python slice semantics = {want}"]


RUNTIME = {"kmers_present": {"gen": gen, "call": call, "check": check,
                             "bounds": "random sequences of length <= 13, 1-3 windows with start/stop in a fixed set incl. negative and beyond-the-end values"}}
