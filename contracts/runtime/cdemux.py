"""Runtime form of the contract on CombinatorialDemultiplexer._open_writers (bounded stand-in, never counted as proved): one
writer for every pair (name1, name2) of an R1 and an R2 adapter name, opened on the two templates with {name1} / {name2}
replaced; unless untrimmed pairs are discarded, also (None, None), (None, name2) for every R2 name and (name1, None) for every
R1 name, with `unknown` in the file name; and nothing else."""


class _Outfiles:
    def __init__(self):
        self.opened = []

    def open_record_writer(self, *paths, **kw):
        self.opened.append(list(paths))
        return ("writer", list(paths))


def gen(rng):
    pool = ["a", "b", "c1", "dd", "unknown_x"]
    k1, k2 = rng.randint(0, 4), rng.randint(0, 4)
    return {"names1": rng.sample(pool, k1), "names2": rng.sample(["p", "q", "r2", "a"], k2), "discard": rng.random() < 0.4,
            "t1": rng.choice(["o_{name1}_{name2}.1.fq", "{name1}/{name2}.1", "x{name2}-{name1}.fq"]),
            "t2": rng.choice(["o_{name1}_{name2}.2.fq", "{name2}.{name1}.2"])}


def call(inp):
    from cutadapt.steps import CombinatorialDemultiplexer
    o = _Outfiles()
    w = CombinatorialDemultiplexer._open_writers(inp["names1"], inp["names2"], inp["t1"], inp["t2"], inp["discard"], o)
    return {"writers": [[k[0], k[1], v[1]] for k, v in w.items()], "opened": o.opened}


def check(inp, res, err):
    if err:
        return ["no_raise:" + err]
    keys = [(a, b) for a in inp["names1"] for b in inp["names2"]]
    if not inp["discard"]:
        keys += [(None, None)] + [(None, b) for b in inp["names2"]] + [(a, None) for a in inp["names1"]]
    want = {}
    for a, b in keys:
        f1, f2 = a if a is not None else "unknown", b if b is not None else "unknown"
        want[(a, b)] = [inp["t1"].replace("{name1}", f1).replace("{name2}", f2), inp["t2"].replace("{name1}", f1).replace("{name2}", f2)]
    got = {(a, b): p for a, b, p in res["writers"]}
    bad = []
    for k in want:
        if k not in got:
            bad.append(f"no writer for the name combination {k}")
        elif got[k] != want[k]:
            bad.append(f"writer for {k} opened on {got[k]}, expected {want[k]}")
    for k in got:
        if k not in want:
            bad.append(f"unexpected writer for {k}")
    if sorted(map(tuple, res["opened"])) != sorted(map(tuple, want.values())):
        bad.append("the files opened are not exactly those of the name combinations")
    return bad[:4]


RUNTIME = {"combinatorial_open_writers": {"gen": gen, "call": call, "check": check,
                                          "bounds": "0-4 adapter names per read (numbers differ), 3x2 templates, with and without --discard-untrimmed"}}
