"""Runtime form of the process_reads contracts: recording stand-ins for modifiers and steps, a list as input.
(Used when the static contract cannot be attached to a restructured driver loop; never counted as proof.)"""


class _Rec:
    def __init__(self, name, sequence):
        self.name, self.sequence, self.qualities = name, sequence, "I" * len(sequence)

    def __len__(self):
        return len(self.sequence)


class _In:
    def __init__(self, items):
        self.items = items

    def open(self):
        return iter(self.items)

    def close(self):
        pass


def gen(rng):
    n_mod, n_steps = rng.randint(0, 3), rng.randint(1, 3)
    reads = ["".join(rng.choice("ACGT") for _ in range(rng.choice([0, 1, 5]))) for _ in range(rng.randint(0, 5))]
    # behaviour table: for (callable index, read index) -> 'none' | 'empty' | 'keep'
    beh = {f"{j},{i}": rng.choice(["keep", "keep", "empty", "none"]) for j in range(n_mod + n_steps) for i in range(len(reads))}
    return {"n_mod": n_mod, "n_steps": n_steps, "reads": reads, "behaviour": beh, "paired": rng.random() < 0.5}


def call(inp):
    from cutadapt.pipeline import SingleEndPipeline, PairedEndPipeline
    log = []
    L = inp["n_mod"] + inp["n_steps"]
    paired = inp["paired"]

    def make(j):
        def f(*args):
            reads = args[:2] if paired else args[:1]
            i = int(reads[0].name)
            log.append((j, i, tuple(id(r) for r in reads)))
            b = inp["behaviour"][f"{j},{i}"]
            if j == L - 1 or (b == "none" and j >= inp["n_mod"]):
                return None          # the last step is a sink; only steps may consume
            out = tuple(_Rec(r.name, "" if b == "empty" else r.sequence) for r in reads)
            log[-1] = log[-1] + (tuple(id(r) for r in out),)
            return out if paired else out[0]
        return f
    mods = [make(j) for j in range(inp["n_mod"])]
    steps = [make(j) for j in range(inp["n_mod"], L)]
    if paired:
        p = PairedEndPipeline.__new__(PairedEndPipeline)
        items = [(_Rec(str(i), s), _Rec(str(i), s[::-1])) for i, s in enumerate(inp["reads"])]
    else:
        p = SingleEndPipeline.__new__(SingleEndPipeline)
        items = [_Rec(str(i), s) for i, s in enumerate(inp["reads"])]
    p._modifiers, p._steps = mods, steps
    res = p.process_reads(_In(items))
    return {"result": list(res), "log": [[e[0], e[1]] + [list(x) for x in e[2:]] for e in log]}


def check(inp, res, err):
    if err:
        return ["no_raise:" + err]
    L = inp["n_mod"] + inp["n_steps"]
    bad = []
    if res["result"][0] != len(inp["reads"]):
        bad.append("every_read_is_counted")
    log = res["log"]
    chains = {}
    for e in log:
        chains.setdefault(e[1], []).append(e)
    if [e[1] for e in log] != sorted(e[1] for e in log):
        bad.append("every_input_read_starts_exactly_one_chain_in_input_order")
    for i in range(len(inp["reads"])):
        ch = chains.get(i, [])
        if [e[0] for e in ch] != list(range(len(ch))) or not ch:
            bad.append(f"calls_run_through_modifiers_then_steps_in_list_order (read {i}: {[e[0] for e in ch]})")
            continue
        for a, b in zip(ch, ch[1:]):
            if len(a) < 4 or a[3] != b[2]:
                bad.append(f"each_call_gets_what_the_previous_call_returned (read {i})")
                break
        last = ch[-1]
        ended_by_none = len(last) < 4
        if not ended_by_none or (len(ch) < L and not ended_by_none):
            bad.append(f"a_chain_ends_only_at_the_first_none_or_after_the_last_step (read {i})")
        for e in ch[:-1]:
            if len(e) < 4:
                bad.append(f"no_call_after_a_none (read {i})")
    return bad[:4]


RUNTIME = {"process_reads": {"gen": gen, "call": call, "check": check,
                             "bounds": "up to 3 modifiers, 3 steps, 5 reads; each call keeps, empties or consumes the read at random"}}
