"""Runtime form of the contract on the two renaming modifiers (bounded stand-in, never counted as proved): the new name is the
template with every placeholder replaced as the guide says - {header} the header *as it is when the renamer runs* (every step
sees the output of the previous one, C10), {id} / {comment} its two parts, {cut_prefix} / {cut_suffix} what -u removed,
{adapter_name} / {match_sequence} from the last match, {rc}; sequence and qualities untouched (C03).  The rename function of the
single-end renamer is generated code (exec of a table of expressions), which no static contract can be attached to."""

PLACEHOLDERS = ["header", "id", "comment", "cut_prefix", "cut_suffix", "adapter_name", "rc", "match_sequence"]
ADAPTER = "ACGTACGT"


def _parts(name):
    f = name.split(maxsplit=1)
    return (f[0], f[1]) if len(f) == 2 else (name, "")


def gen(rng):
    k = rng.randint(1, 4)
    ph = [rng.choice(PLACEHOLDERS) for _ in range(k)]
    if "id" not in ph and "header" not in ph:
        ph.insert(0, "id")
    template = rng.choice(["", "x "]) + rng.choice([" ", "_", " k="]).join("{" + p + "}" for p in ph)
    orig = rng.choice(["r1", "r1 c", "read/1 some comment", "a  b", "q\tz"])
    changed = rng.choice([None, None, "r1", "read", "r1 c len=5", "zz top"])
    seq = "".join(rng.choice("ACGT") for _ in range(rng.choice([0, 6, 14])))
    if rng.random() < 0.5:
        seq += ADAPTER[: rng.randint(4, 8)]
    return {"template": template, "orig": orig, "now": changed, "sequence": seq, "cut_prefix": rng.choice([None, "", "AC"]),
            "cut_suffix": rng.choice([None, "", "GT"]), "is_rc": rng.choice([None, False, True]), "paired": rng.random() < 0.4,
            "orig2": rng.choice(["r1", "r1 d", "read/1 other", "a x", "q\ty"])}


def _setup(inp, name, now, seq):
    from dnaio import SequenceRecord
    from cutadapt.info import ModificationInfo
    from cutadapt.adapters import BackAdapter
    rec = SequenceRecord(name, seq, "I" * len(seq))
    info = ModificationInfo(rec)
    info.cut_prefix, info.cut_suffix, info.is_rc = inp["cut_prefix"], inp["cut_suffix"], inp["is_rc"]
    m = BackAdapter(ADAPTER, max_errors=0.1, min_overlap=4, name="ad").match_to(seq)
    if m is not None:
        info.matches.append(m)
    cur = SequenceRecord(now if now is not None else name, seq, "I" * len(seq))
    return cur, info, m


def call(inp):
    from cutadapt.modifiers import Renamer, PairedEndRenamer
    cur, info, m = _setup(inp, inp["orig"], inp["now"], inp["sequence"])
    ms = None if m is None else m.match_sequence()
    if not inp["paired"]:
        out = Renamer(inp["template"])(cur, info)
        return {"name": out.name, "sequence": out.sequence, "qualities": out.qualities, "match": ms}
    if "{rc}" in inp["template"]:
        return {"skip": True}
    id1 = _parts(cur.name)[0]
    cur2, info2, m2 = _setup(inp, inp["orig2"], id1 + " mate", inp["sequence"][::-1])
    o1, o2 = PairedEndRenamer(inp["template"])(cur, cur2, info, info2)
    return {"name": o1.name, "sequence": o1.sequence, "qualities": o1.qualities, "match": ms, "name2": o2.name, "sequence2": o2.sequence,
            "match2": None if m2 is None else m2.match_sequence(), "now2": id1 + " mate"}


def _expand(template, header, inp, ms):
    i, c = _parts(header)
    vals = {"header": header, "id": i, "comment": c, "cut_prefix": inp["cut_prefix"] or "", "cut_suffix": inp["cut_suffix"] or "",
            "adapter_name": "ad" if ms is not None else "no_adapter", "rc": "rc" if inp["is_rc"] else "", "match_sequence": ms or ""}
    out = template
    for k, v in vals.items():
        out = out.replace("{" + k + "}", v)
    return out


def check(inp, res, err):
    if err:
        if inp["paired"] and ("no longer identical" in err or "not identical" in err):
            return []
        return ["no_raise:" + err]
    if res.get("skip"):
        return []
    bad = []
    header = inp["now"] if inp["now"] is not None else inp["orig"]
    want = _expand(inp["template"], header, inp, res["match"])
    if res["name"] != want:
        bad.append(f"C10:new name {res['name']!r}, the template expands to {want!r} (header when the renamer runs: {header!r})")
    if res["sequence"] != inp["sequence"] or res["qualities"] != "I" * len(inp["sequence"]):
        bad.append("C03:renaming changed sequence or qualities")
    if inp["paired"]:
        want2 = _expand(inp["template"], res["now2"], inp, res["match2"])
        if res["name2"] != want2:
            bad.append(f"C10:new name of R2 {res['name2']!r}, the template expands to {want2!r}")
        if res["sequence2"] != inp["sequence"][::-1]:
            bad.append("C03:renaming changed the sequence of R2")
    return bad


RUNTIME = {"renamer": {"gen": gen, "call": call, "check": check,
                       "bounds": "templates of 1-4 placeholders, 5 headers, header changed or not by earlier steps, with/without match, single-end and paired"}}
