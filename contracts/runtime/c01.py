"""Runtime form of the match_to contracts of the eight adapter classes with a brute-force oracle
(edit-distance tables over all admissible start pairs).  Used as the bounded stand-in for the
C02 cut-position sentences and for C07, as cross-check of the spec functions of C01, and as the
failing-input search when a static contract cannot be attached.  Never counted as proved."""

IUPAC = dict(A="A", C="C", G="G", T="T", U="T", R="AG", Y="CT", S="GC", W="AT", K="GT", M="AC", B="CGT", D="AGT", H="ACT", V="ACG",
             N="ACGT", X="")


def eq(ac, rc, aw, rw):
    ac, rc = ac.upper(), rc.upper()
    if not aw and not rw:
        return ac == rc
    if aw and not rw:
        if ac == "N":
            return True
        return rc in "ACGTU" and (("T" if rc == "U" else rc) in IUPAC.get(ac, ""))
    if rw and not aw:
        if rc == "N":
            return True
        return ac in "ACGTU" and (("T" if ac == "U" else ac) in IUPAC.get(rc, ""))
    if ac == "N" and rc == "N":
        return True
    return bool(set(IUPAC.get(ac, "")) & set(IUPAC.get(rc, "")))


def dist_tables(a, r, aw, rw, indels):
    m, n = len(a), len(r)
    INF = 10 ** 6
    out = {}
    for rs in range(m + 1):
        for qs in range(n + 1):
            if rs != 0 and qs != 0:
                continue
            D = [[INF] * (n + 1) for _ in range(m + 1)]
            D[rs][qs] = 0
            for i in range(rs, m + 1):
                for j in range(qs, n + 1):
                    if i == rs and j == qs:
                        continue
                    best = INF
                    if i > rs and j > qs:
                        best = min(best, D[i - 1][j - 1] + (0 if eq(a[i - 1], r[j - 1], aw, rw) else 1))
                    if indels:
                        if i > rs:
                            best = min(best, D[i - 1][j] + 1)
                        if j > qs:
                            best = min(best, D[i][j - 1] + 1)
                    D[i][j] = best
            out[(rs, qs)] = D
    return out


RULES = {'back': (0, 1, 1, 1), 'front': (1, 1, 0, 1), 'prefix': (0, 0, 0, 1), 'suffix': (0, 1, 0, 0), 'front_ni': (1, 0, 0, 1),
         'back_ni': (0, 1, 1, 0), 'anywhere': (1, 1, 1, 1), 'rightmost': (1, 1, 0, 1)}
NO_SKIP_ADAPTER_START = ('back', 'back_ni', 'suffix', 'prefix', 'rightmost')


def classes():
    from cutadapt.adapters import (FrontAdapter, BackAdapter, AnywhereAdapter, NonInternalFrontAdapter, NonInternalBackAdapter,
                                   PrefixAdapter, SuffixAdapter, RightmostFrontAdapter)
    return {'back': BackAdapter, 'front': FrontAdapter, 'prefix': PrefixAdapter, 'suffix': SuffixAdapter,
            'front_ni': NonInternalFrontAdapter, 'back_ni': NonInternalBackAdapter, 'anywhere': AnywhereAdapter,
            'rightmost': RightmostFrontAdapter}


def admissible(kind, m, n, rs, re, qs, qe):
    sir, siq, eir, eiq = RULES[kind]
    if not (0 <= rs <= re <= m and 0 <= qs <= qe <= n):
        return False
    if rs != 0 and qs != 0:
        return False
    if (not sir and rs != 0) or (not siq and qs != 0) or (not eir and re != m) or (not eiq and qe != n):
        return False
    return re == m or qe == n


def effn(a, rs, re, aw):
    return (re - rs) - (a[rs:re].count("N") if aw else 0)


def gen(rng):
    kind = rng.choice(sorted(RULES))
    alpha = "ACG" if rng.random() < 0.7 else "ACGTN"
    a = "".join(rng.choice(alpha) for _ in range(rng.randint(1, 7)))
    mode = rng.random()
    if mode < 0.45:
        pre = "".join(rng.choice("ACG") for _ in range(rng.randint(0, 7)))
        post = "".join(rng.choice("ACG") for _ in range(rng.randint(0, 7)))
        core = a
        if rng.random() < 0.4 and len(core) > 1:
            i = rng.randrange(len(core))
            core = core[:i] + rng.choice(["", rng.choice("ACGT"), core[i] + rng.choice("ACG")]) + core[i + 1:]
        r = pre + core + post
        if rng.random() < 0.3:
            r += a + "".join(rng.choice("ACG") for _ in range(rng.randint(0, 3)))
    else:
        r = "".join(rng.choice("ACGTNacg") for _ in range(rng.randint(0, 11)))
    return {"kind": kind, "adapter": a, "read": r, "rate": rng.choice([0, 0.1, 0.2, 0.25, 0.34, 0.5, 0.7]),
            "overlap": rng.choice([1, 2, 3, 5]), "adapter_wildcards": rng.random() < 0.5, "read_wildcards": rng.random() < 0.25,
            "indels": rng.random() < 0.6}


def make(inp, mock):
    from cutadapt.adapters import MockKmerFinder
    cls = classes()[inp["kind"]]
    ad = cls(inp["adapter"], max_errors=inp["rate"], min_overlap=inp["overlap"], read_wildcards=inp["read_wildcards"],
             adapter_wildcards=inp["adapter_wildcards"], indels=inp["indels"])
    if mock:
        ad.kmer_finder = MockKmerFinder()
    return ad


def tup(m):
    return None if m is None else [type(m).__name__, m.astart, m.astop, m.rstart, m.rstop, m.score, m.errors]


def call(inp):
    try:
        ad_nk, ad = make(inp, True), make(inp, False)
    except ValueError as e:
        return {"invalid": str(e)}
    return {"no_prefilter": tup(ad_nk.match_to(inp["read"])), "with_prefilter": tup(ad.match_to(inp["read"])),
            "sequence": ad.sequence, "aw": ad.adapter_wildcards, "min_overlap": ad.min_overlap}


def check(inp, res, err):
    if err:
        return ["C01:no_raise:" + err]
    if "invalid" in res:
        return []
    kind, r, rate, indels, rw = inp["kind"], inp["read"], inp["rate"], inp["indels"], inp["read_wildcards"]
    seq, aw, ov = res["sequence"], res["aw"], res["min_overlap"]
    m, n = len(seq), len(r)
    mt, mk = res["no_prefilter"], res["with_prefilter"]
    out = []
    if (mt is None) != (mk is None) or (mt is not None and mt[1:5] + [mt[6]] != mk[1:5] + [mk[6]]):
        out.append(f"C07:prefilter changes the result: {mk} vs {mt}")
    T = dist_tables(seq, r, aw, rw, indels)
    if mt is not None:
        cls, rs, re, qs, qe, score, e = mt
        if not admissible(kind, m, n, rs, re, qs, qe):
            out.append(f"C01:placement rule of {kind} violated by {mt}")
        elif re - rs < ov:
            out.append(f"C01:minimum overlap {ov} violated by {mt}")
        else:
            d = T[(rs, qs)][re][qe]
            if e != d:
                out.append(f"C01:reported errors {e} != true distance {d}")
            elif e > rate * effn(seq, rs, re, aw):
                out.append(f"C01:errors {e} exceed rate * non-N aligned adapter bases")
        want_cls = "RemoveBeforeMatch" if kind in ("front", "front_ni", "prefix", "rightmost") or (kind == "anywhere" and qs == 0) else "RemoveAfterMatch"
        if cls != want_cls:
            out.append(f"C01:match class {cls}, expected {want_cls}")
    exists = exact = False
    for (rs, qs), D in T.items():
        for re in range(rs, m + 1):
            for qe in range(qs, n + 1):
                if not admissible(kind, m, n, rs, re, qs, qe) or re - rs < ov:
                    continue
                d = D[re][qe]
                if d < 10 ** 6 and d <= rate * effn(seq, rs, re, aw):
                    exists = True
                    exact = exact or d == 0
    if exact and mt is None:
        out.append("C02:an admissible error-free occurrence exists but no match is reported")
    if exists and mt is None and (not indels or kind in NO_SKIP_ADAPTER_START):
        out.append("C02:an admissible occurrence within tolerance exists but no match is reported")
    # cut positions (regular adapters, exact full copies, plain alphabet)
    if mt is not None and not aw and not rw and kind in ("back", "front", "rightmost") and seq and seq in r.upper():
        up = r.upper()
        first = up.find(seq)
        last = up.rfind(seq)
        if kind == "back":
            if mt[3] > first:
                out.append(f"C02:regular 3' adapter cut at {mt[3]}, after the leftmost error-free copy at {first}")
        elif kind == "front":
            if mt[4] > first + len(seq):
                out.append(f"C02:regular 5' adapter cut at {mt[4]}, after the end of the leftmost copy {first + len(seq)}")
        else:
            if mt[4] < last + len(seq):
                out.append(f"C02:rightmost 5' adapter cut at {mt[4]}, before the end of the rightmost copy {last + len(seq)}")
    if mt is not None and kind in ("prefix", "suffix") and not aw and not rw:
        up = r.upper()
        if kind == "prefix" and up.startswith(seq) and mt[1:5] != [0, m, 0, m]:
            out.append(f"C02:error-free anchored 5' adapter not removed exactly: {mt}")
        if kind == "suffix" and up.endswith(seq) and mt[1:5] != [0, m, n - m, n]:
            out.append(f"C02:error-free anchored 3' adapter not removed exactly: {mt}")
    return out


def nontrivial(inp, res):
    return isinstance(res, dict) and "invalid" not in res and (res["no_prefilter"] is not None or len(inp["read"]) >= len(inp["adapter"]))


RUNTIME = {
    "match_to": {"gen": gen, "call": call, "check": check, "nontrivial": nontrivial,
                 "bounds": "random (adapter type, adapter <= 7 over ACG/ACGTN, read <= 24 with planted (mutated, repeated) copies or random "
                           "<= 11 incl. lower case and N, rate in {0,0.1,0.2,0.25,0.34,0.5,0.7}, overlap in {1,2,3,5}, wildcard switches, indels on/off)"},
}
