"""Runtime form of the C08 contracts (bounded stand-in; never counted as proved):
 * hamming_sphere / edit_environment enumerate exactly the neighbourhood with exact error counts;
 * matches reported through the index are genuine anchored occurrences;
 * a uniquely occurring adapter is reported; equal-length no-indel sets agree with the one-by-one search."""
import itertools


def hamming(a, b):
    return sum(1 for x, y in zip(a, b) if x != y) if len(a) == len(b) else None


def edit(a, b):
    prev = list(range(len(b) + 1))
    for i in range(1, len(a) + 1):
        cur = [i] + [0] * len(b)
        for j in range(1, len(b) + 1):
            cur[j] = min(prev[j - 1] + (a[i - 1] != b[j - 1]), prev[j] + 1, cur[j - 1] + 1)
        prev = cur
    return prev[-1]


def gen_env(rng):
    n = rng.randint(1, 5)
    return {"s": "".join(rng.choice("ACGT") for _ in range(n)), "k": rng.randint(0, 2), "which": rng.choice(["hamming", "edit"])}


def call_env(inp):
    from cutadapt._align import hamming_sphere, edit_environment
    if inp["which"] == "hamming":
        return sorted(hamming_sphere(inp["s"], inp["k"]))
    return sorted(edit_environment(inp["s"], inp["k"]))


def check_env(inp, res, err):
    if err:
        return ["no_raise:" + err]
    s, k = inp["s"], inp["k"]
    if inp["which"] == "hamming":
        want = sorted("".join(t) for t in itertools.product("ACGT", repeat=len(s)) if hamming("".join(t), s) == k)
        return [] if res == want else [f"hamming_sphere({s!r}, {k}) differs from the set of strings at distance exactly {k}"]
    want = {}
    for L in range(max(0, len(s) - k), len(s) + k + 1):
        for t in itertools.product("ACGT", repeat=L):
            t = "".join(t)
            d = edit(s, t)
            if d <= k:
                want[t] = d
    got = {t: e for t, e, m in res}
    if set(got) != set(want):
        return [f"edit_environment({s!r}, {k}) is not the set of strings within edit distance {k}"]
    bad = [t for t in got if got[t] != want[t]]
    return [f"edit_environment({s!r}, {k}): wrong error count for {bad[:3]}"] if bad else []


def gen_idx(rng):
    prefix = rng.random() < 0.5
    equal = rng.random() < 0.6
    n = rng.choice([2, 3])
    L = rng.randint(3, 6)
    ads = []
    while len(ads) < n:
        a = "".join(rng.choice("ACGT") for _ in range(L if equal else rng.randint(3, 6)))
        if a not in ads:
            ads.append(a)
    if rng.random() < 0.5:
        # near-identical barcodes
        base = ads[0]
        ads = [base] + [base[:i] + rng.choice("ACGT") + base[i + 1:] for i in [rng.randrange(len(base)) for _ in range(n - 1)]]
    ads = list(dict.fromkeys(ads))
    while len(ads) < 2:
        a = "".join(rng.choice("ACGT") for _ in range(L))
        if a not in ads:
            ads.append(a)
    read = "".join(rng.choice("ACGT") for _ in range(rng.randint(0, 9)))
    if rng.random() < 0.7:
        a = rng.choice(ads)
        if rng.random() < 0.5 and len(a) > 1:
            i = rng.randrange(len(a))
            a = a[:i] + rng.choice(["", rng.choice("ACGT")]) + a[i + 1:]
        read = (a + read) if prefix else (read + a)
    if read and rng.random() < 0.3:
        # an N in the read (counts as a mismatch; sentence 1 is about all reads, the other sentences about N-free reads)
        i = rng.randrange(len(read))
        read = read[:i] + "N" + read[i + 1:]
    return {"prefix": prefix, "adapters": ads, "read": read, "rate": rng.choice([0, 0.2, 0.25, 0.34]), "indels": rng.random() < 0.5}


def _mk(inp, seq):
    from cutadapt.adapters import PrefixAdapter, SuffixAdapter
    cls = PrefixAdapter if inp["prefix"] else SuffixAdapter
    return cls(seq, max_errors=inp["rate"], indels=inp["indels"], name=seq)


def _t(m):
    return None if m is None else [m.adapter.name, m.rstart, m.rstop, m.errors]


def call_idx(inp):
    from cutadapt.modifiers import AdapterCutter
    out = {}
    for order in ("given", "reversed"):
        seqs = inp["adapters"] if order == "given" else inp["adapters"][::-1]
        ads = [_mk(inp, s) for s in seqs]
        indexed = AdapterCutter(ads, index=True)
        plain = AdapterCutter([_mk(inp, s) for s in seqs], index=False)
        out[order] = {"indexed": _t(indexed.adapters.match_to(inp["read"])), "one_by_one": _t(plain.adapters.match_to(inp["read"])),
                      "is_indexed": type(indexed.adapters._adapters[0]).__name__}
    return out


def check_idx(inp, res, err):
    if err:
        return ["no_raise:" + err]
    read, out = inp["read"], []
    n = len(read)
    dist = edit if inp["indels"] else None
    for order, r in res.items():
        m = r["indexed"]
        if m is not None:
            name, rs, re, e = m
            if not (0 <= rs <= re <= n) or (inp["prefix"] and rs != 0) or (not inp["prefix"] and re != n):
                out.append(f"index ({order}): coordinates {rs},{re} not an anchored interval inside the read of length {n}")
                continue
            affix = read[rs:re]
            d = edit(name, affix) if inp["indels"] else hamming(name, affix)
            if d is None or d != e:
                out.append(f"index ({order}): reported errors {e}, true distance of removed affix {affix!r} to {name} is {d}")
            elif e > int(inp["rate"] * len(name)):
                out.append(f"index ({order}): errors {e} exceed the tolerance of {name}")
    # which adapters occur within tolerance at the anchored end?
    occ = {}
    for a in inp["adapters"]:
        k = int(inp["rate"] * len(a))
        best = None
        for L in range(0, n + 1):
            affix = read[:L] if inp["prefix"] else read[n - L:]
            d = edit(a, affix) if inp["indels"] else hamming(a, affix)
            if d is not None and d <= k and (best is None or d < best):
                best = d
        if best is not None:
            occ[a] = best
    if "N" in read:
        return out
    if len(occ) == 1:
        a = next(iter(occ))
        for order, r in res.items():
            if r["indexed"] is None or r["indexed"][0] != a:
                out.append(f"index ({order}): exactly one adapter ({a}) occurs within tolerance but the index reports {r['indexed']}")
    if not inp["indels"] and len({len(a) for a in inp["adapters"]}) == 1:
        ds = sorted(occ.values())
        tie = len(ds) >= 2 and ds[0] == ds[1]
        if not tie:
            for order, r in res.items():
                i, o = r["indexed"], r["one_by_one"]
                if (i is None) != (o is None) or (i is not None and i != o):
                    out.append(f"equal lengths, no indels ({order}): index {i} != one-by-one {o}")
            if res["given"]["indexed"] != res["reversed"]["indexed"]:
                out.append("equal lengths, no indels: result depends on the order of the adapters")
    return out


RUNTIME = {
    "environments": {"gen": gen_env, "call": call_env, "check": check_env, "bounds": "strings over ACGT of length <= 5, k <= 2"},
    "index": {"gen": gen_idx, "call": call_idx, "check": check_idx,
              "bounds": "2-3 anchored adapters of length 3..6 (equal or different lengths, incl. near-identical barcodes), reads <= 15 (30% with an N), rates {0,0.2,0.25,0.34}, indels on/off, both orders"},
}
