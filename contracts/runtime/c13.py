"""Runtime (executable) form of the C13 contracts — used to search for failing inputs when an
obligation fails or a contract cannot be attached.  Never counted as proof."""


def ref_quality_trim(q, cf, cb, base):
    """Direct transcription of the property statement."""
    n = len(q)
    vals = [ord(ch) - base for ch in q]
    # 3' end: scan from the end, stop once the running sum of (quality - cutoff) becomes positive
    best, stop, s = 0, n, 0
    for i in reversed(range(n)):
        s += vals[i] - cb
        if s > 0:
            break
        if s < best:
            best, stop = s, i
    best, start, s = 0, 0, 0
    for i in range(n):
        s += vals[i] - cf
        if s > 0:
            break
        if s < best:
            best, start = s, i + 1
    return (0, 0) if start >= stop else (start, stop)


def ref_nextseq(seq, q, cutoff, base):
    n = len(q)
    best, stop, s = 0, n, 0
    for i in reversed(range(n)):
        v = (cutoff - 1) if seq[i] == "G" else ord(q[i]) - base
        s += v - cutoff
        if s > 0:
            break
        if s < best:
            best, stop = s, i
    return stop


def _gen_q(rng):
    n = rng.choice([0, 1, 2, 3, 5, 8, 13, 30])
    base = rng.choice([33, 64])
    lo = base
    q = "".join(chr(rng.randint(lo, min(126, lo + rng.choice([3, 10, 41])))) for _ in range(n))
    return q, base


def gen_qti(rng):
    q, base = _gen_q(rng)
    return {"qualities": q, "cutoff_front": rng.randint(-2, 45), "cutoff_back": rng.randint(-2, 45), "base": base}


def call_qti(inp):
    from cutadapt.qualtrim import quality_trim_index
    return quality_trim_index(inp["qualities"], inp["cutoff_front"], inp["cutoff_back"], inp["base"])


def check_qti(inp, res, err):
    if err:
        return ["no_raise:" + err]
    exp = ref_quality_trim(inp["qualities"], inp["cutoff_front"], inp["cutoff_back"], inp["base"])
    return [] if tuple(res) == exp else [f"result != spec {exp}"]


def gen_ns(rng):
    q, base = _gen_q(rng)
    seq = "".join(rng.choice("ACGTGGN") for _ in q)
    return {"sequence": seq, "qualities": q, "cutoff": rng.randint(-2, 45), "base": base}


def call_ns(inp):
    from cutadapt.qualtrim import nextseq_trim_index
    from dnaio import SequenceRecord
    return nextseq_trim_index(SequenceRecord("r", inp["sequence"], inp["qualities"]), inp["cutoff"], inp["base"])


def check_ns(inp, res, err):
    if err:
        return ["no_raise:" + err]
    exp = ref_nextseq(inp["sequence"], inp["qualities"], inp["cutoff"], inp["base"])
    return [] if res == exp else [f"result != spec {exp}"]


def gen_mod(rng):
    d = gen_ns(rng)
    d["cutoff_front"] = rng.randint(-2, 45)
    d["which"] = rng.choice(["quality", "nextseq"])
    return d


def call_mod(inp):
    from cutadapt.modifiers import QualityTrimmer, NextseqQualityTrimmer
    from cutadapt.info import ModificationInfo
    from dnaio import SequenceRecord
    r = SequenceRecord("r", inp["sequence"], inp["qualities"])
    if inp["which"] == "quality":
        m = QualityTrimmer(inp["cutoff_front"], inp["cutoff"], inp["base"])
    else:
        m = NextseqQualityTrimmer(inp["cutoff"], inp["base"])
    out = m(r, ModificationInfo(r))
    return [out.name, out.sequence, out.qualities, m.trimmed_bases]


def check_mod(inp, res, err):
    if err:
        return ["no_raise:" + err]
    if inp["which"] == "quality":
        a, b = ref_quality_trim(inp["qualities"], inp["cutoff_front"], inp["cutoff"], inp["base"])
    else:
        a, b = 0, ref_nextseq(inp["sequence"], inp["qualities"], inp["cutoff"], inp["base"])
    exp = ["r", inp["sequence"][a:b], inp["qualities"][a:b], len(inp["sequence"]) - (b - a)]
    return [] if res == exp else [f"modifier result != spec {exp}"]


RUNTIME = {
    "quality_trim_index": {"gen": gen_qti, "call": call_qti, "check": check_qti,
                           "bounds": "random quality strings of length <= 30, cutoffs in [-2,45], base 33/64"},
    "nextseq_trim_index": {"gen": gen_ns, "call": call_ns, "check": check_ns,
                           "bounds": "random reads of length <= 30"},
    "modifiers": {"gen": gen_mod, "call": call_mod, "check": check_mod, "bounds": "random reads of length <= 30"},
}
