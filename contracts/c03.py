"""C03 — outputs are aligned slices of the input; qualities stay in step."""
import z3
from pyvc import api, heap
from pyvc.api import contract, Int, Bool, Str, OptT, ObjT, TupT, SeqT
from pyvc.values import *  # noqa
from .common import Record
from .c09 import mt_spec
from .shapes import MatchT, SingleMatchT, InfoT, AdapterT, match_spec, record_spec

TRUSTED = [
    "AdapterStatistics.add_match does not touch reads (its effect is the subject of C20)",
    "str.upper/lower are the ASCII case maps",
]

REC_WF = "is_none(read.qualities) or len(val(read.qualities)) == len(read.sequence)"

# ------------------------------------------------------------------------------ simple modifiers


@contract("modifiers.py", "UnconditionalCutter.__call__", props=["C03", "C10"])
def unconditional_cutter(c):
    c.types(self=ObjT("UnconditionalCutter", length=Int), read=Record, info=InfoT)
    c.modifies = ["info.cut_prefix", "info.cut_suffix"]
    c.spec(record_spec)
    c.requires(nonzero="self.length != 0", rec=REC_WF)
    c.ensures(
        positive_removes_prefix="implies(self.length > 0, rec_is_slice(result, old(read), self.length, None))",
        negative_removes_suffix="implies(self.length < 0, rec_is_slice(result, old(read), None, self.length))",
        cut_prefix_recorded="implies(self.length > 0, seq_eq(val(info.cut_prefix), old(read.sequence)[:self.length]))",
        cut_suffix_recorded="implies(self.length < 0, seq_eq(val(info.cut_suffix), old(read.sequence)[self.length:]))",
    )
    c.mutant("read[self.length:]", "read[self.length + 1:]")
    c.mutant("read[:self.length]", "read[:self.length - 1]")
    c.mutant("self.length > 0", "self.length > 1")


@contract("modifiers.py", "Shortener.__call__", props=["C03", "C10"])
def shortener(c):
    c.types(self=ObjT("Shortener", length=Int), read=Record, info=InfoT)
    c.spec(record_spec)
    c.requires(rec=REC_WF)
    c.ensures(
        nonnegative_keeps_prefix="implies(self.length >= 0, rec_is_slice(result, old(read), None, self.length))",
        negative_keeps_suffix="implies(self.length < 0, rec_is_slice(result, old(read), self.length, None))",
    )
    c.mutant("read[:self.length]", "read[self.length:]")
    c.mutant("self.length >= 0", "self.length > 0")


# ------------------------------------------------------------------------------ Match interval methods

def _single(c, cls):
    c.types(self=ObjT(cls, **api.SCHEMAS["SingleMatch"]))
    c.spec(match_spec)
    c.spec(record_spec)


@contract("adapters.py", "RemoveBeforeMatch.trimmed", props=["C03", "C09"])
def rb_trimmed(c):
    _single(c, "RemoveBeforeMatch")
    c.types(read=Record)
    c.returns(Record)
    c.ensures(keeps_part_after_match="rec_is_slice(result, read, self.rstop, None)")
    c.mutant("read[self.rstop:]", "read[self.rstart:]")


@contract("adapters.py", "RemoveAfterMatch.trimmed", props=["C03", "C09"])
def ra_trimmed(c):
    _single(c, "RemoveAfterMatch")
    c.types(read=Record)
    c.returns(Record)
    c.ensures(keeps_part_before_match="rec_is_slice(result, read, None, self.rstart)")
    c.mutant("read[:self.rstart]", "read[:self.rstop]")


@contract("adapters.py", "RemoveBeforeMatch.remainder_interval", props=["C03"])
def rb_remainder(c):
    _single(c, "RemoveBeforeMatch")
    c.returns(TupT(Int, Int))
    c.ensures(interval="result[0] == self.rstop and result[1] == len(self.sequence)")
    c.mutant("self.rstop, len(self.sequence)", "self.rstart, len(self.sequence)")


@contract("adapters.py", "RemoveAfterMatch.remainder_interval", props=["C03"])
def ra_remainder(c):
    _single(c, "RemoveAfterMatch")
    c.returns(TupT(Int, Int))
    c.ensures(interval="result[0] == 0 and result[1] == self.rstart")
    c.mutant("0, self.rstart", "0, self.rstop")


@contract("adapters.py", "RemoveBeforeMatch.retained_adapter_interval", props=["C03"])
def rb_retained(c):
    _single(c, "RemoveBeforeMatch")
    c.returns(TupT(Int, Int))
    c.ensures(interval="result[0] == self.rstart and result[1] == len(self.sequence)")
    c.mutant("self.rstart, len(self.sequence)", "self.rstop, len(self.sequence)")


@contract("adapters.py", "RemoveAfterMatch.retained_adapter_interval", props=["C03"])
def ra_retained(c):
    _single(c, "RemoveAfterMatch")
    c.returns(TupT(Int, Int))
    c.ensures(interval="result[0] == 0 and result[1] == self.rstop")
    c.mutant("0, self.rstop", "0, self.rstart")


from .shapes import LinkedT   # noqa
LINKED_WF = dict(
    some_part="not is_none(self.front_match) or not is_none(self.back_match)",
    front_wf="implies(not is_none(self.front_match), wf_single(val(self.front_match)) and val(self.front_match).__cls__ == RB())",
    back_wf="implies(not is_none(self.back_match), wf_single(val(self.back_match)) and val(self.back_match).__cls__ == RA())",
    chain="implies(not is_none(self.front_match) and not is_none(self.back_match), "
          "len(val(self.back_match).sequence) == len(val(self.front_match).sequence) - val(self.front_match).rstop)",
)


@contract("adapters.py", "LinkedMatch.trimmed", props=["C03", "C09"])
def linked_trimmed(c):
    c.types(self=LinkedT, read=Record)
    c.returns(Record)
    c.spec(match_spec)
    c.spec(record_spec)
    c.requires(rec=REC_WF, matches_this_read="len(read.sequence) == (len(val(self.front_match).sequence) if not is_none(self.front_match) else len(val(self.back_match).sequence))",
               **LINKED_WF)
    c.ensures(
        both="implies(not is_none(self.front_match) and not is_none(self.back_match), "
             "rec_is_slice(result, old(read), val(self.front_match).rstop, val(self.front_match).rstop + val(self.back_match).rstart))",
        front_only="implies(not is_none(self.front_match) and is_none(self.back_match), rec_is_slice(result, old(read), val(self.front_match).rstop, None))",
        back_only="implies(is_none(self.front_match), rec_is_slice(result, old(read), None, val(self.back_match).rstart))",
    )
    c.mutant("if self.back_match:", "if self.back_match and not self.front_match:")


@contract("adapters.py", "LinkedMatch.remainder_interval", props=["C03"])
def linked_remainder(c):
    c.types(self=LinkedT)
    c.returns(TupT(Int, Int))
    c.spec(match_spec)
    c.requires(**LINKED_WF)
    c.ensures(
        both="implies(not is_none(self.front_match) and not is_none(self.back_match), "
             "result[0] == val(self.front_match).rstop and result[1] == val(self.front_match).rstop + val(self.back_match).rstart)",
        front_only="implies(is_none(self.back_match), result[0] == val(self.front_match).rstop and result[1] == len(val(self.front_match).sequence))",
        back_only="implies(is_none(self.front_match), result[0] == 0 and result[1] == val(self.back_match).rstart)",
    )


@contract("adapters.py", "LinkedMatch.retained_adapter_interval", props=["C03"])
def linked_retained(c):
    c.types(self=LinkedT)
    c.returns(TupT(Int, Int))
    c.spec(match_spec)
    c.requires(**LINKED_WF)
    c.ensures(
        start="result[0] == (val(self.front_match).rstart if not is_none(self.front_match) else 0)",
        stop_with_back="implies(not is_none(self.back_match), result[1] == (val(self.front_match).rstop if not is_none(self.front_match) else 0) + val(self.back_match).rstop)",
        stop_without_back="implies(is_none(self.back_match), result[1] == len(val(self.front_match).sequence))",
    )
    c.mutant("self.back_match.rstop + offset", "self.back_match.rstop")


MatchesT = SeqT(MatchT)


@contract("adapters.py", "remainder", props=["C03"])
def remainder(c):
    c.types(matches=MatchesT)
    c.returns(TupT(Int, Int))
    c.spec(match_spec)
    c.requires(all_wf="forall(t, 0, len(matches), wf(elem(matches, t)))")
    c.raises("ValueError", when="len(matches) == 0")
    c.ghost("match_start = 0\nmatch_stop = 0", at_start=True)
    c.loop(1, head="for match in matches", inv=[
        "0 <= __k1 <= len(matches)",
        "start == START(matches, __k1)",
        "implies(__k1 > 0, match_start == lo(elem(matches, __k1 - 1)) and match_stop == hi(elem(matches, __k1 - 1)))",
    ])
    c.ensures(
        start_is_sum_of_removed_prefixes="result[0] == rem0(matches)",
        length_is_that_of_the_last_remainder="result[1] == rem1(matches)",
    )
    c.mutant("start += match_start", "start = match_start")
    c.mutant("start + length", "length")


# ------------------------------------------------------------------------------ adapter actions
from .shapes import match_spec2   # noqa
from . import c09                 # noqa  (MultipleAdapters.match_to contract)

ACT_PRE = dict(
    rec=REC_WF,
    all_wf="forall(t, 0, len(matches), wf(elem(matches, t)))",
    nonempty="len(matches) >= 1",
    interval_inside_read="0 <= rem0(matches) <= rem1(matches) <= len(read.sequence)",
)


@contract("modifiers.py", "AdapterCutter.masked_read", props=["C03"])
def masked_read(c):
    c.runtime = {"module": "cmods", "name": "rounds", "replay_count": 20000}
    c.types(read=Record, matches=MatchesT)
    c.returns(Record)
    c.spec(mt_spec)
    c.spec(record_spec)
    c.requires(**ACT_PRE)
    c.ensures(
        length_kept="len(result.sequence) == len(read.sequence)",
        kept_part_unchanged="forall(t, rem0(matches), rem1(matches), code(result.sequence, t) == code(read.sequence, t))",
        removed_part_is_N="forall(t, 0, len(read.sequence), implies(t < rem0(matches) or t >= rem1(matches), code(result.sequence, t) == 78))",
        qualities_and_name_unchanged="seq_eq(result.name, read.name) and is_none(result.qualities) == is_none(read.qualities) and "
                                     "implies(not is_none(read.qualities), seq_eq(val(result.qualities), val(read.qualities)))",
    )
    c.mutant("'N' * (len(read) - stop)", "'N' * (len(read) - stop - 1)")
    c.mutant("read.sequence[start:stop]", "read.sequence[start:stop + 1]")


@contract("modifiers.py", "AdapterCutter.lowercased_read", props=["C03"])
def lowercased_read(c):
    c.runtime = {"module": "cmods", "name": "rounds", "replay_count": 20000}
    c.types(read=Record, matches=MatchesT)
    c.returns(Record)
    c.spec(mt_spec)
    c.spec(record_spec)
    c.requires(**ACT_PRE)
    c.ensures(
        length_kept="len(result.sequence) == len(read.sequence)",
        kept_part_uppercased="forall(t, rem0(matches), rem1(matches), code(result.sequence, t) == upper_code(code(read.sequence, t)))",
        removed_part_lowercased="forall(t, 0, len(read.sequence), implies(t < rem0(matches) or t >= rem1(matches), "
                                "code(result.sequence, t) == lower_code(code(read.sequence, t))))",
        qualities_and_name_unchanged="seq_eq(result.name, read.name) and is_none(result.qualities) == is_none(read.qualities) and "
                                     "implies(not is_none(read.qualities), seq_eq(val(result.qualities), val(read.qualities)))",
    )
    c.mutant("read.sequence[stop:].lower()", "read.sequence[stop:]")
    c.mutant("read.sequence[start:stop].upper()", "read.sequence[start:stop].lower()")


@contract("modifiers.py", "AdapterCutter.cropped_read", props=["C03"])
def cropped_read(c):
    c.runtime = {"module": "cmods", "name": "rounds", "replay_count": 20000}
    c.types(read=Record, matches=MatchesT)
    c.returns(Record)
    c.spec(mt_spec)
    c.spec(record_spec)
    c.requires(rec=REC_WF, nonempty="len(matches) >= 1",
               last_is_single="elem(matches, len(matches) - 1).__cls__ != LM()")
    c.ensures(keeps_exactly_the_match="rec_is_slice(result, read, elem(matches, len(matches) - 1).rstart, elem(matches, len(matches) - 1).rstop)")
    c.mutant("m.rstart:m.rstop", "m.rstart:")


@contract("modifiers.py", "AdapterCutter.trim_but_retain_adapter", props=["C03"])
def trim_but_retain_adapter(c):
    c.runtime = {"module": "cmods", "name": "rounds", "replay_count": 20000}
    c.types(read=Record, matches=MatchesT)
    c.returns(Record)
    c.spec(mt_spec)
    c.spec(record_spec)
    c.requires(rec=REC_WF, nonempty="len(matches) >= 1", all_wf="forall(t, 0, len(matches), wf(elem(matches, t)))")
    c.ensures(keeps_adapter_and_remainder="rec_is_slice(result, read, ret0(elem(matches, len(matches) - 1)), ret1(elem(matches, len(matches) - 1)))")
    c.mutant("matches[-1]", "matches[0]")


# ------------------------------------------------------------------------------ rounds
api.schema("StatsMap")
CutterT = ObjT("AdapterCutter", times=Int, action=OptT(Str), with_adapters=Int, adapters=c09.MultipleT,
               adapter_statistics=ObjT("StatsMap"))

ACTION_OK = ("is_none(self.action) or seq_eq(val(self.action), 'trim') or seq_eq(val(self.action), 'mask') or "
             "seq_eq(val(self.action), 'lowercase') or seq_eq(val(self.action), 'retain') or seq_eq(val(self.action), 'crop')")
IS = lambda a: f"(not is_none(self.action) and seq_eq(val(self.action), '{a}'))"


def upper_rec(cx):
    """R' = the read as match_and_trim sees it: upper-cased first when the action is lowercase."""
    from pyvc.world import UPPER
    import z3 as _z3

    def is_upper_of(a, b):
        a, b = as_str(a), as_str(b)
        t = _z3.Int("t!up")
        cx.need_char_axioms = True
        return _z3.And(a.n == b.n, _z3.ForAll([t], _z3.Implies(_z3.And(0 <= t, t < a.n), a.arr[t] == UPPER(b.arr[t]))))

    cx.spec["is_upper_of"] = is_upper_of


MT_POST = dict(
    matches_wellformed="forall(t, 0, len(result[1]), wf(elem(result[1], t)))",
    at_most_times_rounds="len(result[1]) <= max(self.times, 0)",
    first_round_searches_the_read="implies(len(result[1]) > 0, mlen(elem(result[1], 0)) == len(old(read.sequence)))",
    later_rounds_search_what_the_previous_round_left="forall(t, 1, len(result[1]), mlen(elem(result[1], t)) == hi(elem(result[1], t - 1)) - lo(elem(result[1], t - 1)))",
    remainder_inside_read="implies(len(result[1]) > 0, 0 <= rem0(result[1]) <= rem1(result[1]) <= len(old(read.sequence)))",
    no_match_returns_the_read="implies(len(result[1]) == 0, seq_eq(result[0].name, old(read.name)) and "
                              "(is_upper_of(result[0].sequence, old(read.sequence)) if %s else seq_eq(result[0].sequence, old(read.sequence))) and "
                              "is_none(result[0].qualities) == is_none(old(read.qualities)) and "
                              "implies(not is_none(old(read.qualities)), seq_eq(val(result[0].qualities), val(old(read.qualities)))))" % IS("lowercase"),
    trim_keeps_the_remainder="implies(len(result[1]) > 0 and %s, rec_is_slice(result[0], old(read), rem0(result[1]), rem1(result[1])))" % IS("trim"),
    retain_keeps_adapter_and_remainder="implies(len(result[1]) > 0 and %s, rec_is_slice(result[0], old(read), "
                                       "ret0(elem(result[1], len(result[1]) - 1)), ret1(elem(result[1], len(result[1]) - 1))))" % IS("retain"),
    crop_keeps_the_match="implies(len(result[1]) > 0 and %s, rec_is_slice(result[0], old(read), "
                         "elem(result[1], len(result[1]) - 1).rstart, elem(result[1], len(result[1]) - 1).rstop))" % IS("crop"),
    mask_writes_N_outside_remainder="implies(len(result[1]) > 0 and %s, len(result[0].sequence) == len(old(read.sequence)) and "
                                    "forall(t, 0, len(old(read.sequence)), code(result[0].sequence, t) == "
                                    "(code(old(read.sequence), t) if rem0(result[1]) <= t < rem1(result[1]) else 78)))" % IS("mask"),
    lowercase_outside_remainder_uppercase_inside="implies(len(result[1]) > 0 and %s, len(result[0].sequence) == len(old(read.sequence)) and "
                                                 "forall(t, 0, len(old(read.sequence)), code(result[0].sequence, t) == "
                                                 "(upper_code(code(old(read.sequence), t)) if rem0(result[1]) <= t < rem1(result[1]) else "
                                                 "lower_code(upper_code(code(old(read.sequence), t))))))" % IS("lowercase"),
    none_leaves_the_read="implies(len(result[1]) > 0 and is_none(self.action), rec_same(result[0], old(read)))",
    qualities_in_step="is_none(result[0].qualities) == is_none(old(read.qualities)) and "
                      "implies(not is_none(old(read.qualities)), len(val(result[0].qualities)) == len(result[0].sequence))",
    name_kept="seq_eq(result[0].name, old(read.name))",
    input_read_only_uppercased_for_lowercase="seq_eq(read.name, old(read.name)) and is_none(read.qualities) == is_none(old(read.qualities)) and "
                                             "implies(not is_none(old(read.qualities)), seq_eq(val(read.qualities), val(old(read.qualities)))) and "
                                             "(is_upper_of(read.sequence, old(read.sequence)) if %s else seq_eq(read.sequence, old(read.sequence)))" % IS("lowercase"),
)


@contract("modifiers.py", "AdapterCutter.match_and_trim", props=["C03", "C09", "C17"])
def match_and_trim(c):
    c.runtime = {"module": "cmods", "name": "rounds", "replay_count": 5000}
    c.types(self=CutterT, read=Record)
    c.returns(TupT(Record, MatchesT))
    c.local_types["matches"] = MatchesT
    c.modifies = ["read"]
    c.spec(mt_spec)
    c.spec(record_spec)
    c.spec(upper_rec)
    c.requires(rec=REC_WF, action_ok=ACTION_OK,
               single_round_for_retain_and_crop="implies(%s or %s, self.times == 1)" % (IS("retain"), IS("crop")),
               crop_not_with_linked="implies(%s, no_linked(self.adapters))" % IS("crop"))
    c.ghost("g_prev = matches", before="matches.append(match)")
    c.ghost("__lemma__('start_frame', g_prev, matches, len(g_prev))", after="matches.append(match)")
    c.loop(1, head="for _ in range(self.times)", inv=[
        "0 <= __next <= max(self.times, 0) and len(matches) == __next",
        "forall(t, 0, len(matches), wf(elem(matches, t)))",
        "rec_is_slice(trimmed_read, read, START(matches, len(matches)), START(matches, len(matches)) + len(trimmed_read.sequence))",
        "0 <= START(matches, len(matches)) and START(matches, len(matches)) + len(trimmed_read.sequence) <= len(read.sequence)",
        "implies(len(matches) > 0, rem1(matches) == START(matches, len(matches)) + len(trimmed_read.sequence))",
        "implies(len(matches) > 0, mlen(elem(matches, 0)) == len(read.sequence))",
        "forall(t, 1, len(matches), mlen(elem(matches, t)) == hi(elem(matches, t - 1)) - lo(elem(matches, t - 1)))",
        "implies(len(matches) == 0, rec_same(trimmed_read, read))",
        "implies(no_linked(self.adapters), forall(t, 0, len(matches), elem(matches, t).__cls__ != LM()))",
        "is_none(trimmed_read.qualities) or len(val(trimmed_read.qualities)) == len(trimmed_read.sequence)",
    ])
    # the rounds go on until nothing matches or the limit is reached (whatever the action), and what a round records is
    # the adapters' match on the string that round searched
    c.ghost("g_searched = trimmed_read.sequence", before="match = self.adapters.match_to(trimmed_read.sequence)")
    c.ghost("__assert__(not forall(t, 0, len(self.adapters._adapters), mt_none(elem(self.adapters._adapters, t), g_searched)), "
            "'a_round_records_a_match_only_if_some_adapter_matches_the_string_it_searched')", before="matches.append(match)")
    c.ghost("__assert__(len(matches) == max(self.times, 0) or "
            "forall(t, 0, len(self.adapters._adapters), mt_none(elem(self.adapters._adapters, t), trimmed_read.sequence)), "
            "'rounds_stop_only_when_nothing_matches_or_the_limit_is_reached')", before="if not matches:")
    c.ensures(**MT_POST)
    c.mutant("trimmed_read = match.trimmed(trimmed_read)", "trimmed_read = match.trimmed(read)")
    c.mutant("self.adapters.match_to(trimmed_read.sequence)", "self.adapters.match_to(read.sequence)")
    c.mutant("elif self.action == 'mask':", "elif self.action == 'mask' and False:")
    c.mutant("self.trim_but_retain_adapter(read, matches)", "self.cropped_read(read, matches)")


def _subst(post, r0, r1):
    return {k: v.replace("result[0]", r0).replace("result[1]", r1) for k, v in post.items()}


@contract("modifiers.py", "AdapterCutter._match_and_trim_once_action_trim", props=["C03", "C09"])
def match_and_trim_once(c):
    """The specialisation bound to `match_and_trim` by __init__ when times == 1 and action == 'trim':
    it must satisfy the same postcondition (behavioural subtyping of the rebinding)."""
    c.types(self=CutterT, read=Record)
    c.returns(TupT(Record, MatchesT))
    c.spec(mt_spec)
    c.spec(record_spec)
    c.spec(upper_rec)
    c.requires(rec=REC_WF, bound_only_when="self.times == 1 and %s" % IS("trim"))
    c.ensures(**MT_POST)
    c.mutant("match.trimmed(read), [match]", "read, [match]")


def stats_install(world):
    """Ghost model of the per-adapter statistics objects at the registration sites (C20): every
    add_match call is appended to the ghost sequences $tally (match id) / $tally_key (adapter id);
    increments of `reverse_complemented` are summed in $rc_total."""
    from pyvc.calls import Mut

    def getitem(ex, st, m, idx, node, spec):
        return ObjV("StatsView", {"key": idx, "reverse_complemented": fresh("stats.rc", I)})

    def add_match(ex, st, v, a, k, n, s):
        m = a[0]
        t = st.env["$tally"]
        kk = st.env["$tally_key"]
        st.env["$tally"] = SeqV(z3.Store(t.arr, t.n, m.fields["__id__"]), t.n + 1, None)
        st.env["$tally_key"] = SeqV(z3.Store(kk.arr, t.n, v.fields["key"].fields["__id__"]), t.n + 1, None)
        return None

    def set_rc(ex, st, v, newval, node):
        st.env["$rc_total"] = st.env.get("$rc_total", z3.IntVal(0)) + (newval - v.fields["reverse_complemented"])
        return v.with_field("reverse_complemented", newval)

    world.handlers[("StatsMap", "__getitem__")] = getitem
    world.handlers[("StatsView", "add_match")] = add_match
    world.setattr_handlers[("StatsView", "reverse_complemented")] = set_rc


def install(world):
    stats_install(world)


@contract("modifiers.py", "AdapterCutter.__call__", props=["C03", "C09", "C20", "C17"])
def adapter_cutter_call(c):
    c.types(self=CutterT, read=Record, info=InfoT)
    c.returns(Record)
    c.modifies = ["self", "info", "read"]
    c.spec(mt_spec)
    c.spec(record_spec)
    c.spec(upper_rec)
    c.requires(rec=REC_WF, action_ok=ACTION_OK,
               single_round_for_retain_and_crop="implies(%s or %s, self.times == 1)" % (IS("retain"), IS("crop")),
               crop_not_with_linked="implies(%s, no_linked(self.adapters))" % IS("crop"))
    c.ghost("g_t0 = tally_len()", at_start=True)
    c.loop(1, head="for match in matches", inv=[
        "0 <= __k1 <= len(matches)",
        "tally_len() == g_t0 + __k1",
        "forall(t, 0, __k1, tally_id(g_t0 + t) == elem(matches, t).__id__ and tally_key(g_t0 + t) == elem(matches, t).adapter.__id__)",
        ])
    c.ensures(**_subst(MT_POST, "result", "matches"))
    c.ensures(
        statistics_registered_once_per_recorded_match="tally_len() == g_t0 + len(matches) and forall(t, 0, len(matches), "
            "tally_id(g_t0 + t) == elem(matches, t).__id__ and tally_key(g_t0 + t) == elem(matches, t).adapter.__id__)",
    )
    c.ensures(
        counted_once_if_any_match="self.with_adapters == old(self.with_adapters) + (1 if len(matches) > 0 else 0)",
        matches_recorded_in_order="len(info.matches) == len(old(info.matches)) + len(matches) and "
                                  "forall(t, 0, len(matches), elem(info.matches, len(old(info.matches)) + t).__id__ == elem(matches, t).__id__) and "
                                  "forall(t, 0, len(old(info.matches)), elem(info.matches, t).__id__ == elem(old(info.matches), t).__id__)",
    )
    c.mutant("self.with_adapters += 1", "self.with_adapters += len(matches)")
    c.mutant("info.matches.extend(matches)", "info.matches = matches")
    c.mutant("return trimmed_read", "return read")
    c.mutant("self.adapter_statistics[match.adapter].add_match(match)", "self.adapter_statistics[matches[0].adapter].add_match(match)")


# ------------------------------------------------------------------------------ --pair-adapters
PairedCutterT = ObjT("PairedAdapterCutter", action=OptT(Str), with_adapters=Int,
                     adapter_statistics=TupT(ObjT("StatsMap"), ObjT("StatsMap")))
PairT = TupT(MatchT, MatchT)


@contract("modifiers.py", "PairedAdapterCutter._find_best_match_pair", props=[], name="PairedAdapterCutter._find_best_match_pair@abstract")
def find_best_match_pair_abstract(c):
    c.types(self=PairedCutterT, sequence1=Str, sequence2=Str)
    c.returns(OptT(PairT))
    c.spec(mt_spec)
    c.ensures(both_wellformed_on_their_reads="implies(not is_none(result), wf(val(result)[0]) and wf(val(result)[1]) and "
                                            "mlen(val(result)[0]) == len(sequence1) and mlen(val(result)[1]) == len(sequence2) and "
                                            "val(result)[0].__cls__ != LM() and val(result)[1].__cls__ != LM())")
    c.trust("PairedAdapterCutter accepts only single adapters (cli builds the pairs from -a/-A lists): matches are never LinkedMatch")


api.BY_NAME["PairedAdapterCutter._find_best_match_pair"] = find_best_match_pair_abstract


def side_post(n, read, match):
    """Action table for one mate (documented intervals; m = its match)."""
    res = f"result[{n}]"
    lo, hi = f"lo({match})", f"hi({match})"
    return {
        f"r{n + 1}_trim_keeps_the_remainder": f"implies(not is_none(best_matches) and {IS('trim')}, rec_is_slice({res}, old({read}), {lo}, {hi}))",
        f"r{n + 1}_retain_keeps_adapter_and_remainder": f"implies(not is_none(best_matches) and {IS('retain')}, rec_is_slice({res}, old({read}), ret0({match}), ret1({match})))",
        f"r{n + 1}_crop_keeps_the_match": f"implies(not is_none(best_matches) and {IS('crop')}, rec_is_slice({res}, old({read}), {match}.rstart, {match}.rstop))",
        f"r{n + 1}_mask_writes_N_outside_remainder": f"implies(not is_none(best_matches) and {IS('mask')}, len({res}.sequence) == len(old({read}.sequence)) and "
                                                     f"forall(t, 0, len(old({read}.sequence)), code({res}.sequence, t) == (code(old({read}.sequence), t) if {lo} <= t < {hi} else 78)))",
        f"r{n + 1}_lowercase_outside_uppercase_inside": f"implies(not is_none(best_matches) and {IS('lowercase')}, len({res}.sequence) == len(old({read}.sequence)) and "
                                                        f"forall(t, 0, len(old({read}.sequence)), code({res}.sequence, t) == (upper_code(code(old({read}.sequence), t)) if {lo} <= t < {hi} "
                                                        f"else lower_code(upper_code(code(old({read}.sequence), t))))))",
        f"r{n + 1}_none_leaves_the_read": f"implies(not is_none(best_matches) and is_none(self.action), rec_same({res}, old({read})))",
        f"r{n + 1}_no_pair_found_leaves_the_read": f"implies(is_none(best_matches), rec_same({res}, old({read})))",
    }


@contract("modifiers.py", "PairedAdapterCutter.__call__", props=["C03", "C05", "C20", "C17"])
def paired_adapter_cutter_call(c):
    c.runtime = {"module": "cmods", "name": "pair_adapters", "replay_count": 4000}
    c.types(self=PairedCutterT, read1=Record, read2=Record, info1=InfoT, info2=InfoT)
    c.returns(TupT(Record, Record))
    c.modifies = ["self", "info1", "info2", "read1", "read2"]
    c.spec(mt_spec)
    c.spec(record_spec)
    c.spec(upper_rec)
    c.requires(rec1="is_none(read1.qualities) or len(val(read1.qualities)) == len(read1.sequence)",
               rec2="is_none(read2.qualities) or len(val(read2.qualities)) == len(read2.sequence)",
               action_ok=ACTION_OK, distinct_reads="read1.__id__ != read2.__id__")
    c.ensures(**side_post(0, "read1", "val(best_matches)[0]"))
    c.ensures(**side_post(1, "read2", "val(best_matches)[1]"))
    c.ghost("g_t0 = tally_len()", at_start=True)
    c.ensures(
        statistics_registered_once_per_side="tally_len() == g_t0 + (0 if is_none(best_matches) else 2) and implies(not is_none(best_matches), "
            "tally_id(g_t0) == val(best_matches)[0].__id__ and tally_id(g_t0 + 1) == val(best_matches)[1].__id__ and "
            "tally_key(g_t0) == val(best_matches)[0].adapter.__id__ and tally_key(g_t0 + 1) == val(best_matches)[1].adapter.__id__)",
        both_or_neither="True",
        counted_once="self.with_adapters == old(self.with_adapters) + (0 if is_none(best_matches) else 1)",
        matches_recorded="implies(not is_none(best_matches), len(info1.matches) == len(old(info1.matches)) + 1 and len(info2.matches) == len(old(info2.matches)) + 1 and "
                         "elem(info1.matches, len(info1.matches) - 1).__id__ == val(best_matches)[0].__id__ and "
                         "elem(info2.matches, len(info2.matches) - 1).__id__ == val(best_matches)[1].__id__)",
    )
    c.mutant("trimmed_read = AdapterCutter.masked_read(read, [match])", "trimmed_read = AdapterCutter.masked_read(read1, [match])")
    c.mutant("info2.matches.append(match2)", "info2.matches.append(match1)")


def extra_checks(res, tier, seed, known, log):
    from .cnames import extra_checks_c03
    extra_checks_c03(res, tier, seed, known, log)
