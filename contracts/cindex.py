"""C08: building the adapter index (`AdapterIndex._make_index`, the part up to the removal of ambiguous strings).
Strings are identified by an integer id (equal strings = equal ids); the environment generators are abstract sequences of
(string, errors, matches) that belong to the relation GENUINE for the adapter they were called for.  Proved: every entry of
the index is a genuine entry of the environment of the adapter it names, with the error and match numbers that environment
gave it; and no string of any environment is forgotten: after an adapter has been processed, each of its environment's
strings is in the index with at least that many matches."""
import z3
from pyvc import api
from pyvc.api import contract, Int, Bool, Real, Str, ObjT, SeqT, TupT, schema
from pyvc.values import *  # noqa
from pyvc.calls import Mut
from .cpipe import FORALL

TRUSTED = [
    "strings are identified by an integer id (equal strings have equal ids) in the index-building contract; "
    "edit_environment(sequence, k) / hamming_sphere(sequence, errors) are abstract sequences whose elements belong to the "
    "relations ENV / SPHERE of (sequence, k) - what these generators enumerate is covered by the bounded stand-in",
]

AIB = z3.ArraySort(I, B)
ENV = z3.Function("EDIT_ENVIRONMENT", AII, I, I, I, I, I, B)        # (sequence, k, string id, errors, matches)
SPHERE = z3.Function("HAMMING_SPHERE", AII, I, I, I, B)             # (sequence, errors, string id)
SLEN = z3.Function("STRING_LENGTH_OF_ID", I, I)
schema("IdxAdapter", sequence=Str, max_error_rate=Real, indels=Bool, name=Str)
IdxAdapterT = ObjT("IdxAdapter")


SID_OF = z3.Function("STRING_ID", AII, I, I)


def _sid(k, st=None):
    """id of a string used as a key: environment strings carry theirs; any other string gets the id STRING_ID(chars, length),
    and is - by the definition of the Hamming sphere of radius 0 - the one member of its own radius-0 sphere"""
    if isinstance(k, ObjV):
        return k.fields["__id__"]
    if isinstance(k, (StrV, PyConst)):
        s_ = as_str(k)
        x = SID_OF(s_.arr, s_.n)
        if st is not None:
            st.pc.append(SPHERE(s_.arr, s_.n, 0, x))
        return x
    return k


def install(world):
    prev_dict = world.builtins.get("dict")

    def b_dict(ex, st, args, kwargs, node, spec):
        if not args and not kwargs and getattr(ex.cx.c, "id_key_dicts", False):
            return ObjV("IdDict", {"has": z3.K(I, z3.BoolVal(False)), **{f"v{i}": fresh(f"iddict.v{i}", AII) for i in range(4)}})
        return prev_dict(ex, st, args, kwargs, node, spec)
    world.builtins["dict"] = b_dict

    def getitem(ex, st, d, idx, node, spec):
        x = _sid(idx, st)
        if not spec:
            ex.cx.pending.append((z3.Not(d.fields["has"][x]), "KeyError"))
        from pyvc import heap
        return TupV((heap.read(IdxAdapterT, "IdxAdapter", "", d.fields["v0"][x]), d.fields["v1"][x], d.fields["v2"][x]))
    world.handlers[("IdDict", "__getitem__")] = getitem

    def setitem(ex, st, d, idx, v, node):
        x = _sid(idx, st)
        f = dict(d.fields)
        f["has"] = z3.Store(f["has"], x, z3.BoolVal(True))
        for i, it in enumerate(v.items[:4]):
            val = it.fields["__id__"] if isinstance(it, ObjV) else (it if is_z3(it) else z3.IntVal(it))
            f[f"v{i}"] = z3.Store(f[f"v{i}"], x, val)
        return ObjV("IdDict", f)
    world.handlers[("IdDict", "__setitem__")] = setitem

    def pop(ex, st, d, args, kwargs, node, spec):
        x = _sid(args[0])
        return Mut(None, ObjV("IdDict", {**d.fields, "has": z3.Store(d.fields["has"], x, z3.BoolVal(False))}))
    world.handlers[("IdDict", "pop")] = pop
    world.handlers[("IdxStr", "__len__")] = lambda ex, st, s_, a, k, n, sp: SLEN(s_.fields["__id__"])

    def new_set(ex, st, args, kwargs, node, spec):
        if not args and getattr(ex.cx.c, "id_key_dicts", False):
            return ObjV("IntSetAbs", {"has": z3.K(I, z3.BoolVal(False))})
        raise Unsupported("set(...)")
    world.builtins["set"] = new_set
    world.handlers[("IntSetAbs", "add")] = lambda ex, st, s_, a, k, n, sp: Mut(None, ObjV("IntSetAbs", {"has": z3.Store(s_.fields["has"], a[0], z3.BoolVal(True))}))

    def edit_env(ex, st, args, kwargs, node, spec):
        seq, k = as_str(args[0]), args[1]
        ids, es, ms = fresh("env.ids", AII), fresh("env.e", AII), fresh("env.m", AII)
        n = fresh("env.n", I)
        j = z3.Int("j!env")
        st.pc += [n >= 0, z3.ForAll([j], z3.Implies(z3.And(0 <= j, j < n), z3.And(ENV(seq.arr, seq.n, k, ids[j], es[j], ms[j]), ms[j] >= 0)), patterns=[ids[j]])]
        return SeqV(ids, n, lambda t, ids=ids, es=es, ms=ms: None) if False else _EnvSeq(ids, es, ms, n)
    world.builtins["edit_environment"] = edit_env

    def sphere(ex, st, args, kwargs, node, spec):
        seq, e = as_str(args[0]), args[1]
        ids = fresh("sphere.ids", AII)
        n = fresh("sphere.n", I)
        j = z3.Int("j!sp")
        st.pc += [n >= 0, z3.ForAll([j], z3.Implies(z3.And(0 <= j, j < n), SPHERE(seq.arr, seq.n, e, ids[j])), patterns=[ids[j]])]
        return SeqV(ids, n, lambda t: ObjV("IdxStr", {"__id__": t}))
    world.builtins["hamming_sphere"] = sphere
    from .c10 import abstract_ctor
    for cls in ("IndexedPrefixAdapters", "IndexedSuffixAdapters"):
        world.ctor_handlers.setdefault(cls, abstract_ctor(cls))


def _EnvSeq(ids, es, ms, n):
    """sequence of (string, errors, matches): element at position j; the view needs the position, so the array holds positions"""
    pos = z3.Lambda([z3.Int("p!es")], z3.Int("p!es"))
    return SeqV(pos, n, lambda j: TupV((ObjV("IdxStr", {"__id__": ids[j]}), es[j], ms[j])))


def index_spec(cx):
    x = z3.Int("x!ix")
    from pyvc import heap

    def contains(ex, a, b, st):
        if isinstance(b, ObjV) and b.cls == "IdDict":
            return b.fields["has"][_sid(a)]
        return None
    cx.spec["__contains__"] = contains

    def genuine(ad_id, sid, e, m):
        a = heap.read(IdxAdapterT, "IdxAdapter", "", ad_id)
        seq = a.fields["sequence"]
        r_ = a.fields["max_error_rate"] * z3.ToReal(seq.n)
        k = z3.If(r_ >= 0, z3.ToInt(r_), -z3.ToInt(-r_))        # int(): truncation
        return z3.If(a.fields["indels"], ENV(seq.arr, seq.n, k, sid, e, m),
                     z3.And(SPHERE(seq.arr, seq.n, e, sid), m == seq.n - e, 0 <= e, e <= k))

    def entries_genuine(index):
        f = index.fields
        return FORALL([x], z3.Implies(f["has"][x], genuine(f["v0"][x], x, f["v1"][x], f["v2"][x])), patterns=[f["has"][x]])

    def nm(arr):
        return heap.named_array(cx, arr)

    def best_kept(index, g_max):
        """a string is in the index exactly if the loops have visited an entry for it, and the stored number of matches is
        the largest one visited (g_max holds that maximum plus one, 0 = never visited)"""
        has, v2, gm = nm(index.fields["has"]), nm(index.fields["v2"]), nm(g_max.arr)
        return FORALL([x], z3.And(has[x] == (gm[x] > 0), z3.Implies(has[x], v2[x] + 1 == gm[x])), patterns=[has[x]])

    def ambiguity_exact(index, ambiguous, g_cnt):
        """a string is marked ambiguous exactly if at least two visited entries attain its largest number of matches"""
        has, ah, gc = nm(index.fields["has"]), nm(ambiguous.fields["has"]), nm(g_cnt.arr)
        return FORALL([x], z3.And(ah[x] == z3.And(has[x], gc[x] >= 2), z3.Implies(has[x], gc[x] >= 1)), patterns=[has[x]])

    cx.spec.update(entries_genuine=entries_genuine, best_kept=best_kept, ambiguity_exact=ambiguity_exact, sid=lambda s_: _sid(s_))


IndexT = ObjT("AdapterIndex", _adapters=SeqT(IdxAdapterT, inv=lambda a: z3.And(a.fields["max_error_rate"] >= 0, a.fields["max_error_rate"] <= 1, a.fields["sequence"].n >= 0)))


@contract("adapters.py", "AdapterIndex._make_index", props=["C08"], name="AdapterIndex._make_index:build")
def make_index_build(c):
    c.body_from = "index: Dict[str, Tuple[SingleAdapter, int, int]] = dict()"
    c.body_until = "if ambiguous:"
    c.types(self=IndexT)
    c.id_key_dicts = True
    c.split_paths = True        # the four cases of the update (new string / worse / tie / better) are separate obligations
    c.spec(index_spec)
    INVS = ["entries_genuine(index)", "best_kept(index, g_max)", "ambiguity_exact(index, ambiguous, g_cnt)"]
    c.ghost("g_max = defaultdict(int)", at_start=True)
    c.ghost("g_cnt = defaultdict(int)", at_start=True)
    # (both inserted before the same anchor, in this order: the count is updated against the maximum before this entry)
    c.ghost("g_cnt[sid(s)] = 1 if matches + 1 > g_max[sid(s)] else (g_cnt[sid(s)] + 1 if matches + 1 == g_max[sid(s)] else g_cnt[sid(s)])",
            before="if s in index:", occurrence="all")
    c.ghost("g_max[sid(s)] = max(g_max[sid(s)], matches + 1)", before="if s in index:", occurrence="all")
    c.loop(1, head="for adapter in self._adapters", inv=INVS + ["0 <= __k1 <= len(self._adapters)"])
    c.loop(2, head="for s, errors, matches in edit_environment(sequence, k)", inv=INVS + ["0 <= __k1 < len(self._adapters) and __k2 >= 0 and 0 <= adapter.max_error_rate <= 1 and k == int(adapter.max_error_rate * len(sequence)) and adapter.indels"])
    c.loop(3, head="for errors in range(k + 1)", inv=INVS + ["0 <= __k1 < len(self._adapters) and 0 <= adapter.max_error_rate <= 1 and k == int(adapter.max_error_rate * len(sequence)) and not adapter.indels and n == len(sequence) and 0 <= errors_next and k <= n"])
    c.loop(4, head="for s in hamming_sphere(sequence, errors)", inv=INVS + ["0 <= __k1 < len(self._adapters) and __k4 >= 0 and 0 <= adapter.max_error_rate <= 1 and k == int(adapter.max_error_rate * len(sequence)) and not adapter.indels and n == len(sequence) and 0 <= errors <= k and k <= n and matches == n - errors"])
    c.ensures(every_index_entry_is_a_genuine_environment_entry_of_its_adapter="entries_genuine(index)",
              the_index_keeps_for_every_visited_string_the_largest_number_of_matches="best_kept(index, g_max)",
              a_string_is_marked_ambiguous_exactly_if_two_entries_tie_at_its_best="ambiguity_exact(index, ambiguous, g_cnt)")
    c.mutant("index[s] = (adapter, errors, matches)", "index[s] = (adapter, matches, errors)", occurrence=1)
    c.mutant("index[s] = (adapter, errors, matches)", "index[s] = (adapter, errors + 1, matches)", occurrence=2)
    c.mutant("matches = n - errors", "matches = n - errors + 1")
    c.mutant("ambiguous.pop(s, None)", "pass", occurrence=1)
    c.mutant("if matches < other_matches:", "if matches <= other_matches:", occurrence=2)


# ------------------------------------------------------------------------------ removal of the ambiguous strings
NKEYS = z3.Function("NUMBER_OF_KEYS", AIB, I)
_install_prev = install


def install(world):
    _install_prev(world)
    from pyvc import values
    values.TRUTHY_HOOKS["IdDict"] = lambda d: NKEYS(d.fields["has"]) > 0
    world.handlers[("IdDict", "__len__")] = lambda ex, st, d, a, k, n, s: NKEYS(d.fields["has"])

    def enumerate_keys(ex, st, d):
        """the order in which iterating over the dict visits its keys: every key exactly once"""
        if "keys" in d.fields:
            return d
        keys, pos, n = fresh("dictkeys", AII), fresh("dictpos", AII), NKEYS(d.fields["has"])
        j, x = z3.Int("j!dk"), z3.Int("x!dk")
        st.pc += [n >= 0, z3.ForAll([j], z3.Implies(z3.And(0 <= j, j < n), z3.And(d.fields["has"][keys[j]], pos[keys[j]] == j)), patterns=[keys[j]]),
                  z3.ForAll([x], z3.Implies(d.fields["has"][x], z3.And(0 <= pos[x], pos[x] < n, keys[pos[x]] == x)), patterns=[pos[x]])]
        st.env["__iter_pos__"] = MapV(pos)
        return ObjV("IdDict", {**d.fields, "keys": keys, "pos": pos})

    def d_iter(ex, st, d, args, kwargs, node, spec):
        d2 = enumerate_keys(ex, st, d)
        return SeqV(d2.fields["keys"], NKEYS(d.fields["has"]), lambda t: ObjV("IdxStr", {"__id__": t}))
    world.handlers[("IdDict", "__iter__")] = d_iter
    world.handlers[("IdDict", "__delitem__")] = lambda ex, st, d, idx, node: (
        ex.cx.pending.append((z3.Not(d.fields["has"][_sid(idx)]), "KeyError")),
        ObjV("IdDict", {**d.fields, "has": z3.Store(d.fields["has"], _sid(idx), z3.BoolVal(False))}))[1]
    # next(iter(d)): some key of a non-empty dict
    world.builtins["iter"] = lambda ex, st, a, k, n, s: a[0]

    def b_next(ex, st, args, kwargs, node, spec):
        d = args[0]
        if isinstance(d, ObjV) and d.cls == "IdDict":
            x = fresh("some_key", I)
            st.pc.append(z3.Implies(NKEYS(d.fields["has"]) > 0, d.fields["has"][x]))
            return ObjV("IdxStr", {"__id__": x})
        raise Unsupported("next()")
    world.builtins["next"] = b_next
    prev_get = world.handlers[("IdDict", "__getitem__")]

    def getitem4(ex, st, d, idx, node, spec):
        if getattr(ex.cx.c, "four_tuple_values", False):
            x = _sid(idx)
            if not spec:
                ex.cx.pending.append((z3.Not(d.fields["has"][x]), "KeyError"))
            from pyvc import heap
            return TupV((heap.read(IdxAdapterT, "IdxAdapter", "", d.fields["v0"][x]), heap.read(IdxAdapterT, "IdxAdapter", "", d.fields["v1"][x]),
                         d.fields["v2"][x], d.fields["v3"][x]))
        return prev_get(ex, st, d, idx, node, spec)
    world.handlers[("IdDict", "__getitem__")] = getitem4


class IdDictT(api.T):
    pass


_mk3 = api.mk


def _mk_ext3(t, name, inv):
    if isinstance(t, IdDictT):
        return ObjV("IdDict", {"has": fresh(name + ".has", AIB), **{f"v{i}": fresh(f"{name}.v{i}", AII) for i in range(4)}})
    return _mk3(t, name, inv)


api.mk = _mk_ext3


def removal_spec(cx):
    x = z3.Int("x!rm")

    def removed_upto(st, index, index0, ambiguous, upto):
        """`index` is `index0` without the ambiguous strings that the iteration has passed; nothing else changes"""
        pos = st.env["__iter_pos__"].arr if "__iter_pos__" in st.env else z3.K(I, z3.IntVal(0))
        f, f0, a = index.fields, index0.fields, ambiguous.fields
        gone = z3.And(a["has"][x], pos[x] < upto)
        return z3.And(FORALL([x], f["has"][x] == z3.And(f0["has"][x], z3.Not(gone))), f["v0"] == f0["v0"], f["v1"] == f0["v1"], f["v2"] == f0["v2"])

    def without_ambiguous(index, index0, ambiguous):
        f, f0, a = index.fields, index0.fields, ambiguous.fields
        return z3.And(FORALL([x], f["has"][x] == z3.And(f0["has"][x], z3.Not(a["has"][x]))), f["v0"] == f0["v0"], f["v1"] == f0["v1"], f["v2"] == f0["v2"])

    cx.spec["__stateful__"] = dict(cx.spec.get("__stateful__") or {})
    cx.spec["__stateful__"]["removed_upto"] = removed_upto
    cx.spec.update(without_ambiguous=without_ambiguous, nkeys=lambda d: NKEYS(d.fields["has"]),
                   no_keys=lambda d: FORALL([x], z3.Not(d.fields["has"][x])),
                   every_ambiguous_string_is_indexed=lambda index, amb: FORALL([x], z3.Implies(amb.fields["has"][x], index.fields["has"][x])))


@contract("adapters.py", "AdapterIndex._make_index", props=["C08"], name="AdapterIndex._make_index:remove_ambiguous")
def make_index_remove(c):
    """second part: the strings marked ambiguous are taken out of the index (reads that carry one are not trimmed), every
    other entry stays as it is"""
    c.body_from = "if ambiguous:"
    c.body_until = "elapsed = time.time() - start_time"
    c.types(self=IndexT, index=IdDictT(), ambiguous=IdDictT())
    c.id_key_dicts = True
    c.four_tuple_values = True
    c.spec(index_spec)
    c.spec(removal_spec)
    c.modifies = ["index"]
    c.requires(every_ambiguous_string_is_indexed="every_ambiguous_string_is_indexed(index, ambiguous)",
               key_count="nkeys(ambiguous) >= 0 and implies(nkeys(ambiguous) == 0, no_keys(ambiguous))")
    c.loop(1, head="for s in ambiguous", inv=["0 <= __k1 <= nkeys(ambiguous)", "removed_upto(index, old(index), ambiguous, __k1)"])
    c.ensures(exactly_the_ambiguous_strings_are_removed="without_ambiguous(index, old(index), ambiguous)")
    c.mutant("del index[s]", "pass")


@contract("adapters.py", "AdapterIndex._accept", props=["C08"])
def index_accept(c):
    """Only anchored adapters of the right end, without wildcards on either side and with at most three errors, go into an
    index (anything else is searched one by one)."""
    c.types(cls=api.ConstT(ClsV("AdapterIndex")), adapter=ObjT("SingleAdapter", sequence=Str, max_error_rate=Real, read_wildcards=Bool,
                                                                 adapter_wildcards=Bool, __cls__=Int), prefix=Bool)
    def sp(cx):
        from pyvc import verify
        w = verify.world()
        cx.spec["is_a"] = lambda o, name: z3.Or(*[o.fields["__cls__"] == w.cls_tag(s_) for s_ in w.subclasses(name.v)])
    c.spec(sp)
    K = "int(len(adapter.sequence) * adapter.max_error_rate)"
    c.requires(rate_not_negative="adapter.max_error_rate >= 0")
    c.raises("ValueError", when=f"(prefix and not is_a(adapter, 'PrefixAdapter')) or (not prefix and not is_a(adapter, 'SuffixAdapter')) or "
                                f"adapter.read_wildcards or adapter.adapter_wildcards or {K} > 3")
    c.ensures(accepted="True")
    c.mutant("if k > 3:", "if k > 4:")
    c.mutant("if adapter.read_wildcards:", "if False:")


ACC = z3.Function("ACCEPTABLE_FOR_INDEX", I, B, B)
AnyAdapterT = ObjT("SingleAdapter", __cls__=Int)


@contract("adapters.py", "AdapterIndex.is_acceptable", props=[], name="AdapterIndex.is_acceptable@abstract")
def is_acceptable_abstract(c):
    c.types(adapter=AnyAdapterT, prefix=Bool)
    c.returns(Bool)
    c.spec(lambda cx: cx.spec.update(acceptable=lambda a, p: ACC(a.fields["__id__"], p if is_z3(p) else z3.BoolVal(bool(p)))))
    c.ensures(deterministic="result == acceptable(adapter, prefix)")


api.BY_NAME["AdapterIndex.is_acceptable"] = is_acceptable_abstract


@contract("modifiers.py", "AdapterCutter._split_adapters", props=["C08"])
def split_adapters(c):
    """Every adapter goes into exactly one of the three groups: the 5' anchored ones an index accepts, the 3' anchored ones an
    index accepts, and all others (which are searched one by one)."""
    c.types(adapters=SeqT(AnyAdapterT))
    c.returns(TupT(SeqT(AnyAdapterT), SeqT(AnyAdapterT), SeqT(AnyAdapterT)))
    for nme in ("prefix", "suffix", "other"):
        c.local_types[nme] = SeqT(AnyAdapterT)

    def sp(cx):
        t = z3.Int("t!sa")
        cx.spec["acceptable_id"] = lambda i, p: ACC(i, z3.BoolVal(bool(p.v if isinstance(p, PyConst) else p)) if not is_z3(p) else p)
        cx.spec["all_in"] = lambda seq, f: FORALL([t], z3.Implies(z3.And(0 <= t, t < seq.n), f(seq.arr[t])))
        T_, F_ = z3.BoolVal(True), z3.BoolVal(False)
        cx.spec["group_ok"] = lambda pre, suf, oth: z3.And(
            FORALL([t], z3.Implies(z3.And(0 <= t, t < pre.n), ACC(pre.arr[t], T_))),
            FORALL([t], z3.Implies(z3.And(0 <= t, t < suf.n), z3.And(z3.Not(ACC(suf.arr[t], T_)), ACC(suf.arr[t], F_)))),
            FORALL([t], z3.Implies(z3.And(0 <= t, t < oth.n), z3.And(z3.Not(ACC(oth.arr[t], T_)), z3.Not(ACC(oth.arr[t], F_))))))
    c.spec(sp)
    c.loop(1, head="for a in adapters", inv=["0 <= __k1 <= len(adapters)", "len(prefix) + len(suffix) + len(other) == __k1", "group_ok(prefix, suffix, other)"])
    c.ensures(no_adapter_is_lost_or_duplicated="len(result[0]) + len(result[1]) + len(result[2]) == len(adapters)",
              each_group_holds_what_it_should="group_ok(result[0], result[1], result[2])")
    c.mutant("elif AdapterIndex.is_acceptable(a, prefix=False):", "elif AdapterIndex.is_acceptable(a, prefix=True):")
    c.mutant("other.append(a)", "pass")


@contract("modifiers.py", "AdapterCutter._regroup_into_indexed_adapters", props=["C09", "C08"])
def regroup_into_indexed_adapters(c):
    """Adapters are re-grouped only when an index is actually built (more than one indexable 5' anchored or more than one
    indexable 3' anchored adapter); otherwise the list - and with it the order that decides ties - stays as given."""
    c.types(self=ObjT("AdapterCutter"), adapters=SeqT(AnyAdapterT))
    c.returns(SeqT(AnyAdapterT))
    for nme in ("prefix", "suffix", "single", "result"):
        c.local_types[nme] = SeqT(AnyAdapterT)

    def sp(cx):
        cx.spec["same_seq"] = lambda a, b: z3.And(a.n == b.n, a.arr == b.arr)
    c.spec(sp)
    INDEXED = "(len(prefix) > 1 or len(suffix) > 1)"
    c.ensures(
        without_an_index_the_adapters_stay_as_given=f"implies(not {INDEXED}, same_seq(result, adapters))",
        with_an_index_each_group_becomes_one_searcher="implies(%s, len(result) == len(single) + (1 if len(prefix) > 1 else len(prefix)) + "
                                                      "(1 if len(suffix) > 1 else len(suffix)))" % INDEXED,
    )
    c.mutant("if len(prefix) > 1 or len(suffix) > 1:", "if len(prefix) + len(suffix) > 1:")
