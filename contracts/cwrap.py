"""The `match_to` methods of the single-adapter classes: the glue between what the aligner reports (C01/C02, proved on
`Aligner.locate` and the comparers) and the match objects the modifiers work on (C03/C09, which assume the abstract
`Matchable.match_to` contract).  For each class: no match iff the k-mer prefilter says no or the aligner reports none;
otherwise a match of the documented kind (5' adapters remove what is before, 3' adapters what is after; an `anywhere` adapter
is a 5' adapter exactly when the alignment starts at the first base of the read) that carries exactly the aligner's
coordinates, score and error count - mirrored for the rightmost 5' adapter, which searches the reversed read - and is
well-formed on this read."""
import z3
from pyvc import api
from pyvc.api import contract, Int, Bool, Str, OptT, ObjT, TupT, schema
from pyvc.values import *  # noqa
from .shapes import SingleMatchT, match_spec

TRUSTED = [
    "at the call sites in the match_to wrappers the aligner is abstract: a deterministic function of (aligner, query) whose result "
    "satisfies the interval clause proved for it (Aligner.locate:post.L2_intervals_inside_read_and_adapter, "
    "PrefixComparer/SuffixComparer.locate:post.anchored_at_both_starts...): 0 <= astart <= astop <= len(reference), "
    "0 <= rstart <= rstop <= len(query), errors >= 0",
    "the aligner of an adapter was built from the adapter's own sequence (reversed for the rightmost 5' adapter): "
    "len(reference) == len(self.sequence) (constructor code, not under contract)",
    "debugging output (self._debug) is off",
]

schema("AlignerLike", m=Int)
schema("KmerFinderLike")
LOC_NONE = z3.Function("LOCATE.none", I, AII, I, B)
LOC = [z3.Function(f"LOCATE.{k}", I, AII, I, I) for k in range(6)]
KPRES = z3.Function("KMERS_PRESENT", I, AII, I, B)


def _key(ex_or_cx, s):
    from pyvc import heap
    cx = getattr(ex_or_cx, "cx", ex_or_cx)
    s = as_str(s)
    return heap.named_array(cx, s.arr), s.n


def install(world):
    def locate(ex, st, a, args, kwargs, node, spec):
        arr, n = _key(ex, args[0])
        i = a.fields["__id__"]
        v = [f(i, arr, n) for f in LOC]
        none = LOC_NONE(i, arr, n)
        st.pc.append(z3.Implies(z3.Not(none), z3.And(0 <= v[0], v[0] <= v[1], v[1] <= a.fields["m"], 0 <= v[2], v[2] <= v[3], v[3] <= n,
                                                      v[5] >= 0)))
        return Opt(none, TupV(v))
    world.handlers[("AlignerLike", "locate")] = locate
    world.handlers[("KmerFinderLike", "kmers_present")] = lambda ex, st, f, a, k, n, s: KPRES(f.fields["__id__"], *_key(ex, a[0]))


def wrap_spec(cx):
    match_spec(cx)
    from pyvc import verify
    w = verify.world()
    cx.spec["located_none"] = lambda a, q: LOC_NONE(a.fields["__id__"], *_key(cx, q))
    cx.spec["located"] = lambda a, q, k: LOC[z3.simplify(k).as_long() if is_z3(k) else k](a.fields["__id__"], *_key(cx, q))
    cx.spec["prefilter"] = lambda f, q: KPRES(f.fields["__id__"], *_key(cx, q))
    cx.spec["RB"] = lambda: z3.IntVal(w.cls_tag("RemoveBeforeMatch"))
    cx.spec["RA"] = lambda: z3.IntVal(w.cls_tag("RemoveAfterMatch"))


def adapter_type(cls):
    return ObjT(cls, sequence=Str, aligner=ObjT("AlignerLike"), kmer_finder=ObjT("KmerFinderLike"), _debug=Bool, __cls__=Int)


def wrapper(cls, kind, query="sequence", mirrored=False, props=("C01", "C02", "C09")):
    @contract("adapters.py", f"{cls}.match_to", props=list(props))
    def _c(c):
        c.types(self=adapter_type(cls), sequence=Str)
        c.returns(OptT(SingleMatchT))
        c.spec(wrap_spec)
        c.requires(no_debug_output="not self._debug", aligner_built_from_this_adapter="self.aligner.m == len(self.sequence)")
        Q = query
        A = "self.aligner"
        FOUND = "not is_none(result)"
        R = "val(result)"
        if mirrored:
            coords = (f"{R}.astart == len(self.sequence) - located({A}, {Q}, 1) and {R}.astop == len(self.sequence) - located({A}, {Q}, 0) and "
                      f"{R}.rstart == len(sequence) - located({A}, {Q}, 3) and {R}.rstop == len(sequence) - located({A}, {Q}, 2)")
        else:
            coords = (f"{R}.astart == located({A}, {Q}, 0) and {R}.astop == located({A}, {Q}, 1) and "
                      f"{R}.rstart == located({A}, {Q}, 2) and {R}.rstop == located({A}, {Q}, 3)")
        if kind == "before":
            klass = f"{R}.__cls__ == RB()"
        elif kind == "after":
            klass = f"{R}.__cls__ == RA()"
        else:
            klass = f"({R}.__cls__ == RB()) == (located({A}, {Q}, 2) == 0) and ({R}.__cls__ == RA()) == (located({A}, {Q}, 2) != 0)"
        c.ensures(
            no_match_iff_prefilter_says_no_or_aligner_reports_none=f"is_none(result) == (not prefilter(self.kmer_finder, {'sequence[::-1]' if mirrored else 'sequence'}) or located_none({A}, {Q}))",
            match_carries_the_aligners_coordinates=f"implies({FOUND}, {coords})",
            score_and_errors_are_the_aligners=f"implies({FOUND}, {R}.score == located({A}, {Q}, 4) and {R}.errors == located({A}, {Q}, 5))",
            match_of_the_documented_kind=f"implies({FOUND}, {klass})",
            match_belongs_to_this_adapter_and_this_read=f"implies({FOUND}, {R}.adapter.__id__ == self.__id__ and seq_eq({R}.sequence, sequence))",
            wellformed_on_this_string=f"implies({FOUND}, wf({R}) and mlen({R}) == len(sequence))",
        )
        c.mutant("if alignment is None:", "if alignment is not None:")
        if kind == "before":
            c.mutant("return RemoveBeforeMatch(", "return RemoveAfterMatch(")
        if kind == "after":
            c.mutant("return RemoveAfterMatch(", "return RemoveBeforeMatch(")
        if mirrored:
            c.mutant("len(sequence) - query_end", "len(sequence) - query_start")
            c.mutant("len(self.sequence) - ref_end", "len(self.sequence) - ref_end - 1")
        if kind == "either":
            c.mutant("alignment[2] == 0", "alignment[0] == 0")
    return _c


front = wrapper("FrontAdapter", "before")
rightmost = wrapper("RightmostFrontAdapter", "before", query="sequence[::-1]", mirrored=True)
back = wrapper("BackAdapter", "after")
anywhere = wrapper("AnywhereAdapter", "either", query="sequence.upper()")
nonint_front = wrapper("NonInternalFrontAdapter", "before")
nonint_back = wrapper("NonInternalBackAdapter", "after")


# ------------------------------------------------------------------------------ which aligner an adapter class builds
from pyvc.api import Real
# documented placement rules as aligner flags (REFERENCE_START = 1, QUERY_START = 2, REFERENCE_END = 4, QUERY_STOP = 8; the
# decoding of these bits inside the aligner is part of the finite checks of C01)
FLAGS = {"FRONT": 1 | 2 | 8, "BACK": 2 | 4 | 8, "ANYWHERE": 15, "FRONT_NOT_INTERNAL": 1 | 8, "BACK_NOT_INTERNAL": 2 | 4}
AlignerOwnerFields = dict(sequence=Str, max_error_rate=Real, adapter_wildcards=Bool, read_wildcards=Bool, min_overlap=Int, indels=Bool,
                          _force_anywhere=Bool)


def aligner_spec(cx):
    cx.spec.update(is_class=lambda o, name: z3.BoolVal(o.cls == name.v),
                   kw=lambda o, name: o.fields.get("kw_" + name.v, o.fields.get(name.v)),
                   arg=lambda o, k: o.fields["a%d" % (z3.simplify(k).as_long() if is_z3(k) else k)])


@contract("adapters.py", "SingleAdapter._make_aligner", props=["C01", "C02", "C18"])
def make_aligner(c):
    """The search parameters of the adapter reach the aligner unchanged; indels are switched off by an indel cost that no
    alignment within tolerance can pay."""
    c.types(self=ObjT("SingleAdapter", **AlignerOwnerFields), sequence=Str, flags=Int)
    c.returns(ObjT("Aligner", a0=Str, a1=Real, kw_flags=Int, kw_wildcard_ref=Bool, kw_wildcard_query=Bool, kw_indel_cost=Int, kw_min_overlap=Int))
    c.spec(aligner_spec)
    c.ensures(
        an_aligner_for_the_given_sequence_and_placement="is_class(result, 'Aligner') and seq_eq(arg(result, 0), sequence) and kw(result, 'flags') == flags",
        error_rate_and_overlap_of_the_adapter="arg(result, 1) == self.max_error_rate and kw(result, 'min_overlap') == self.min_overlap",
        wildcard_settings_of_the_adapter="kw(result, 'wildcard_ref') == self.adapter_wildcards and kw(result, 'wildcard_query') == self.read_wildcards",
        indels_allowed_iff_requested="kw(result, 'indel_cost') == (1 if self.indels else 100000)",
    )
    c.mutant("indel_cost = 1 if self.indels else 100000", "indel_cost = 1")
    c.mutant("wildcard_ref=self.adapter_wildcards", "wildcard_ref=self.read_wildcards")


def aligner_of(cls, where, reverse=False, forced=None):
    @contract("adapters.py", f"{cls}._aligner", props=["C01", "C02", "C18"])
    def _c(c):
        c.types(self=ObjT(cls, **AlignerOwnerFields))
        c.spec(aligner_spec)
        c.inline.update({"SingleAdapter._make_aligner"})
        ref = "self.sequence[::-1]" if reverse else "self.sequence"
        fl = f"({FLAGS['ANYWHERE']} if self._force_anywhere else {FLAGS[where]})" if forced else str(FLAGS[where])
        c.ensures(placement_rule_of_this_adapter_type=f"kw(result, 'flags') == {fl}",
                  searches_for_the_adapter_sequence=f"seq_eq(arg(result, 0), {ref})",
                  with_the_adapters_parameters="arg(result, 1) == self.max_error_rate and kw(result, 'min_overlap') == self.min_overlap and "
                                               "kw(result, 'indel_cost') == (1 if self.indels else 100000)")
        c.mutant(f"Where.{where}.value", f"Where.{'FRONT' if where != 'FRONT' else 'BACK'}.value")
    return _c


front_aligner = aligner_of("FrontAdapter", "FRONT", forced=True)
rightmost_aligner = aligner_of("RightmostFrontAdapter", "BACK", reverse=True, forced=True)
back_aligner = aligner_of("BackAdapter", "BACK", forced=True)
anywhere_aligner = aligner_of("AnywhereAdapter", "ANYWHERE")
nonint_front_aligner = aligner_of("NonInternalFrontAdapter", "FRONT_NOT_INTERNAL")
nonint_back_aligner = aligner_of("NonInternalBackAdapter", "BACK_NOT_INTERNAL")
