"""C14 — poly-A trimming, N-end trimming, N count, expected errors."""
import decimal
import z3
from pyvc import api, frontends
from pyvc.api import contract, lemma, Int, Bool, Real, Str, OptT, ObjT, TupT, MapT, T as _T
from pyvc.values import I, R, AII, StrV, ObjV, PyConst, Opt, as_str, fresh, Unsupported
from pyvc.state import CArr
from pyvc.world import BUILTINS, LOWER
from .common import Record

TRUSTED = [
    "re: pattern '^N+'.match(s) matches exactly the maximal run of upper-case N at the start (None if there is none); "
    "'N+$'.search(s) the maximal run at the end; strings contain no newline",
    "doubles are treated as reals: the 4-way split sum of expected_errors_from_phreds is compared with the mathematical sum "
    "(re-association/rounding error not verified); table literals are compared with 10^(-q/10) to a relative error of 1e-12",
]

A_, T_, N_, n_ = ord("A"), ord("T"), ord("N"), ord("n")

# ------------------------------------------------------------------------------ poly-A spec functions
PSC = z3.Function("PSC", AII, I, I, I)     # PSC(s, n, i): score of the suffix [i, n): +1 per A, -2 otherwise
PER = z3.Function("PER", AII, I, I, I)     # PER(s, n, i): number of non-A in the suffix [i, n)
TSC = z3.Function("TSC", AII, I, I)        # TSC(s, k): score of the prefix [0, k): +1 per T, -2 otherwise
TER = z3.Function("TER", AII, I, I)        # TER(s, k): number of non-T in the prefix [0, k)


def polya_spec(cx):
    if "PSC" in cx.spec:
        return
    seen = set()
    k = z3.Int("k!pa")

    def inst(s):
        a, n = s.arr, s.n
        key = (a.get_id(), n.get_id())
        if key in seen:
            return
        seen.add(key)
        cx.axioms += [
            PSC(a, n, n) == 0, PER(a, n, n) == 0, TSC(a, 0) == 0, TER(a, 0) == 0,
            z3.ForAll([k], z3.Implies(z3.And(0 <= k, k < n), z3.And(
                PSC(a, n, k) == PSC(a, n, k + 1) + z3.If(a[k] == A_, 1, -2),
                PER(a, n, k) == PER(a, n, k + 1) + z3.If(a[k] == A_, 0, 1))), patterns=[PSC(a, n, k)]),
            z3.ForAll([k], z3.Implies(z3.And(0 <= k, k < n), PER(a, n, k) == PER(a, n, k + 1) + z3.If(a[k] == A_, 0, 1)),
                      patterns=[PER(a, n, k)]),
            z3.ForAll([k], z3.Implies(0 <= k, z3.And(
                TSC(a, k + 1) == TSC(a, k) + z3.If(a[k] == T_, 1, -2),
                TER(a, k + 1) == TER(a, k) + z3.If(a[k] == T_, 0, 1))), patterns=[TSC(a, k + 1)]),
            z3.ForAll([k], z3.Implies(0 <= k, TER(a, k + 1) == TER(a, k) + z3.If(a[k] == T_, 0, 1)), patterns=[TER(a, k + 1)]),
        ]

    def f(F, with_n):
        def g(s, kk):
            s = as_str(s)
            inst(s)
            return F(s.arr, s.n, kk) if with_n else F(s.arr, kk)
        return g

    cx.spec.update(PSC=f(PSC, True), PER=f(PER, True), TSC=f(TSC, False), TER=f(TER, False))
    t = z3.Int("t!pa")
    fa = lambda lo, hi, body: z3.ForAll([t], z3.Implies(z3.And(lo <= t, t < hi), body))
    psc, per, tsc, ter = cx.spec["PSC"], cx.spec["PER"], cx.spec["TSC"], cx.spec["TER"]

    def polya_best(s, b):
        """b is the start of the best admissible poly-A suffix (n if none)."""
        n = as_str(s).n
        sb = z3.If(b == n, 0, psc(s, b))
        return z3.And(0 <= b, b <= n,
                      z3.Or(b == n, z3.And(psc(s, b) > 0, 5 * per(s, b) <= n - b)),
                      fa(0, n, z3.Implies(5 * per(s, t) <= n - t, psc(s, t) <= sb)),
                      fa(b + 1, n, z3.Implies(5 * per(s, t) <= n - t, psc(s, t) < sb)))

    def polyt_best(s, b):
        """b is the end of the best admissible poly-T prefix (0 if none)."""
        n = as_str(s).n
        sb = z3.If(b == 0, 0, tsc(s, b))
        return z3.And(0 <= b, b <= n,
                      z3.Or(b == 0, z3.And(tsc(s, b) > 0, 5 * ter(s, b) <= b)),
                      fa(1, n + 1, z3.Implies(5 * ter(s, t) <= t, tsc(s, t) <= sb)),
                      fa(1, b, z3.Implies(5 * ter(s, t) <= t, tsc(s, t) < sb)))

    cx.spec.update(polya_best=polya_best, polyt_best=polyt_best)


@contract("qualtrim.pyx", "poly_a_trim_index", props=["C14"])
def poly_a_trim_index(c):
    c.types(s=Str, revcomp=Bool)
    c.defaults["revcomp"] = False
    c.returns(Int)
    c.spec(polya_spec)
    c.requires(size="len(s) <= 2097152")
    c.c_int_bits = 32
    c.ghost_results = ["g_best"]
    c.ghost("g_best = best_index", after="loop:1")
    c.ghost("g_best = best_index", after="loop:2")
    c.loop(1, head="for i in range(n)", inv=[
        "0 <= i_next <= n and n == len(s)",
        "score == TSC(s, i_next) and errors == TER(s, i_next)",
        "0 <= errors <= i_next and -2 * i_next <= score <= i_next",
        "0 <= best_index <= i_next and best_score == (0 if best_index == 0 else TSC(s, best_index)) and best_score >= 0",
        "best_index == 0 or (TSC(s, best_index) > 0 and 5 * TER(s, best_index) <= best_index)",
        "forall(t, 1, i_next + 1, implies(5 * TER(s, t) <= t, TSC(s, t) <= best_score))",
        "forall(t, 1, best_index, implies(5 * TER(s, t) <= t, TSC(s, t) < best_score))",
    ])
    c.loop(2, head="for i in reversed(range(n))", inv=[
        "-1 <= i_next <= n - 1 and n == len(s)",
        "score == PSC(s, i_next + 1) and errors == PER(s, i_next + 1)",
        "0 <= errors <= n - 1 - i_next and -2 * (n - 1 - i_next) <= score <= n - 1 - i_next",
        "i_next < best_index <= n and best_score == (0 if best_index == n else PSC(s, best_index)) and best_score >= 0",
        "best_index == n or (PSC(s, best_index) > 0 and 5 * PER(s, best_index) <= n - best_index)",
        "forall(t, i_next + 1, n, implies(5 * PER(s, t) <= n - t, PSC(s, t) <= best_score))",
        "forall(t, best_index + 1, n, implies(5 * PER(s, t) <= n - t, PSC(s, t) < best_score))",
    ])
    c.ensures(
        polyA_best_suffix="implies(not revcomp, polya_best(s, g_best))",
        polyA_ignores_tails_shorter_than_three="implies(not revcomp, result == (len(s) if g_best > len(s) - 3 else g_best))",
        polyT_best_prefix="implies(revcomp, polyt_best(s, g_best))",
        polyT_ignores_heads_shorter_than_three="implies(revcomp, result == (0 if g_best < 3 else g_best))",
        in_bounds="0 <= result <= len(s)",
    )
    c.runtime = {"module": "c14", "name": "poly_a_trim_index"}
    c.mutant("score > best_score", "score >= best_score", occurrence=1)
    c.mutant("score > best_score", "score >= best_score", occurrence=2)
    c.mutant("errors * 5 <= n - i", "errors * 5 < n - i")
    c.mutant("errors * 5 <= i + 1", "errors * 4 <= i + 1")
    c.mutant("best_index > n - 3", "best_index > n - 4")
    c.mutant("best_index < 3", "best_index <= 3")
    c.mutant("score -= 2", "score -= 1", occurrence=2)


PolyA = ObjT("PolyATrimmer", revcomp=Bool, trimmed_bases=MapT())
Info = ObjT("ModificationInfo")


@contract("modifiers.py", "PolyATrimmer.__call__", props=["C14"])
def polya_trimmer_call(c):
    c.runtime = {"module": "c14", "name": "PolyATrimmer"}
    c.types(self=PolyA, record=Record, info=Info)
    c.modifies = ["self.trimmed_bases"]
    c.spec(polya_spec)
    c.requires(size="len(record.sequence) <= 2097152",
               same_length="is_none(record.qualities) or len(val(record.qualities)) == len(record.sequence)")
    g = "cg('poly_a_trim_index', 'g_best')"
    c.ensures(
        r1_best_suffix="implies(not old(self.revcomp), polya_best(old(record.sequence), %s) and index == (len(old(record.sequence)) if %s > len(old(record.sequence)) - 3 else %s))" % (g, g, g),
        r1_keeps_prefix="implies(not old(self.revcomp), seq_eq(result.sequence, old(record.sequence)[:index]))",
        r2_best_prefix="implies(old(self.revcomp), polyt_best(old(record.sequence), %s) and index == (0 if %s < 3 else %s))" % (g, g, g),
        r2_keeps_suffix="implies(old(self.revcomp), seq_eq(result.sequence, old(record.sequence)[index:]))",
        qualities_in_step="is_none(result.qualities) == is_none(old(record.qualities)) and implies(not is_none(old(record.qualities)), "
                          "seq_eq(val(result.qualities), (val(old(record.qualities))[:index]) if not old(self.revcomp) else (val(old(record.qualities))[index:])))",
        histogram_counts_removed_length="self.trimmed_bases[len(old(record.sequence)) - len(result.sequence)] == "
                                        "old(self.trimmed_bases)[len(old(record.sequence)) - len(result.sequence)] + 1",
    )
    c.mutant("record[index:]", "record[:index]")
    c.mutant("len(record) - index", "index")


# ------------------------------------------------------------------------------ expected errors (C)
_TABLE = None


def ee_table():
    global _TABLE
    if _TABLE is None:
        _TABLE = [str(v) for v in frontends.c_global_array("expected_errors.h", "SCORE_TO_ERROR_RATE")]
    return _TABLE


TEE = z3.Array("SCORE_TO_ERROR_RATE", I, R)
SUMT = z3.Function("SUMT", AII, I, I, R)      # SUMT(P, base, k) = sum_{t<k} T[P[t] - base]


def ee_spec(cx):
    if "SUMT" in cx.spec:
        return
    tab = ee_table()
    for i, v in enumerate(tab):
        cx.axioms.append(TEE[i] == z3.RealVal(decimal.Decimal(v).as_integer_ratio()[0]) / z3.RealVal(decimal.Decimal(v).as_integer_ratio()[1]))
    cx.table_len = len(tab)
    seen = set()
    k = z3.Int("k!ee")

    def sumt(p, base, kk):
        arr, off = (p.arr, p.off) if isinstance(p, CArr) else (as_str(p).arr, z3.IntVal(0))
        key = (arr.get_id(), off.get_id(), base.get_id())
        if key not in seen:
            seen.add(key)
            cx.axioms.append(SUMT(arr, base, 0) == 0)
            cx.axioms.append(z3.ForAll([k], z3.Implies(0 < k, SUMT(arr, base, k) == SUMT(arr, base, k - 1) + TEE[arr[k - 1] - base]),
                                       patterns=[SUMT(arr, base, k)]))
        return SUMT(arr, base, kk)

    def okq(p, base, t):
        arr = p.arr if isinstance(p, CArr) else as_str(p).arr
        return z3.And(base <= arr[t], arr[t] <= 126)

    cx.spec.update(SUMT=sumt, okq=okq)


@lemma("ee_table_positive", props=["C14"])
def ee_table_positive(lem):
    """Every entry of the table (as read from the header) is positive."""
    i = z3.Int("i!tp")

    def table_axioms():
        out = []
        for j, v in enumerate(ee_table()):
            num, den = decimal.Decimal(v).as_integer_ratio()
            out.append(TEE[j] == z3.RealVal(num) / z3.RealVal(den))
        return out

    def prove(lx):
        lx.vc("all_entries_positive", table_axioms() + [0 <= i, i < len(ee_table())], TEE[i] > 0)

    lem.prove = prove
    lem.statement = lambda: z3.ForAll([i], z3.Implies(z3.And(0 <= i, i < len(ee_table())), TEE[i] > 0), patterns=[TEE[i]])


def c_index(ex, st, args, kwargs, node, spec):
    p, k = args
    if not isinstance(p, CArr):
        raise Unsupported("__index__ on non-pointer")
    return ex.index(p, k, st, node, spec)


BUILTINS["__index__"] = c_index
BUILTINS["__u8__"] = lambda ex, st, a, k, n, s: a[0] % 256


from pyvc.api import CArrT as _CArrT


def CArrT(name):
    return _CArrT(name, byte=True)


def ee_globals(name, cx):
    if name == "SCORE_TO_ERROR_RATE":
        ee_spec(cx)
        return CArr(TEE, z3.IntVal(cx.table_len), None, "SCORE_TO_ERROR_RATE")
    return None


@contract("expected_errors.h", "expected_errors_from_phreds", props=["C14"])
def expected_errors_from_phreds(c):
    c.runtime = {"module": "c14", "name": "expected_errors"}      # through the Cython wrapper that calls it
    c.types(phreds=CArrT("phreds"), phreds_length=Int, base=Int)
    c.returns(Real)
    c.spec(ee_spec)
    c.requires(buffer="len(phreds) == phreds_length and phreds_length >= 0",
               base_ok="base == 33 or base == 64")
    c.ghost_results = ["bad"]
    c.ghost("bad = -1\n__lemma__('ee_table_positive')", before="end_ptr = phreds + phreds_length")
    c.ghost("bad = ite(not okq(phreds, base, off(cursor)), off(cursor), ite(not okq(phreds, base, off(cursor) + 1), off(cursor) + 1, "
            "ite(not okq(phreds, base, off(cursor) + 2), off(cursor) + 2, off(cursor) + 3)))", before="return -1", occurrence=1)
    c.ghost("bad = off(cursor)", before="return -1", occurrence=2)
    inv = ["0 <= off(cursor) <= phreds_length and bad == -1",
           "off(end_ptr) == phreds_length and off(unroll_end_ptr) == phreds_length - 3 and max_phred == 126 - base",
           "expected_errors0 + expected_errors1 + expected_errors2 + expected_errors3 == SUMT(phreds, base, off(cursor))",
           "forall(t, 0, off(cursor), okq(phreds, base, t))",
           "expected_errors0 >= 0 and expected_errors1 >= 0 and expected_errors2 >= 0 and expected_errors3 >= 0"]
    c.loop(1, head="while cursor < unroll_end_ptr", inv=inv)
    c.loop(2, head="while cursor < end_ptr", inv=inv + ["off(cursor) + 3 >= phreds_length"])
    c.ensures(
        invalid_byte_gives_minus_one="implies(result == -1, 0 <= bad < phreds_length and not okq(phreds, base, bad) and forall(t, 0, bad, okq(phreds, base, t)))",
        otherwise_sum_of_table_entries="implies(result != -1, forall(t, 0, phreds_length, okq(phreds, base, t)) and result == SUMT(phreds, base, phreds_length))",
        minus_one_only_for_invalid="implies(forall(t, 0, phreds_length, okq(phreds, base, t)), result >= 0)",
    )
    c.mutant("cursor += 1", "cursor += 2")
    c.mutant("expected_errors1 += __index__(SCORE_TO_ERROR_RATE, phred1)", "expected_errors1 += __index__(SCORE_TO_ERROR_RATE, phred0)")
    c.mutant("phred2 > max_phred", "phred2 > max_phred + 1")
    c.mutant("unroll_end_ptr = end_ptr - 3", "unroll_end_ptr = end_ptr - 2")


@contract("qualtrim.pyx", "expected_errors", props=["C14"])
def expected_errors(c):
    c.types(qualities=Str, base=Int)
    c.defaults["base"] = 33
    c.returns(Real)
    c.spec(ee_spec)
    c.requires(base_ok="base == 33 or base == 64")
    c.raises("ValueError", when="not forall(t, 0, len(qualities), okq(qualities, base, t))")
    c.loop(1, head="for q in qualities", inv=[
        "0 <= __k1 <= len(qualities)",
        "forall(t, 0, __k1, okq(qualities, base, t))"])
    c.ensures(sum_of_table_entries="result == SUMT(qualities, base, len(qualities))")
    c.runtime = {"module": "c14", "name": "expected_errors"}
    c.mutant("ord(q) > 126", "ord(q) > 127")
    c.mutant("e < 0.0", "e < -2.0")


# ------------------------------------------------------------------------------ N ends, N count
NPRE = z3.Function("NPRE", AII, I, I)   # length of the maximal N prefix
NSUF = z3.Function("NSUF", AII, I, I)   # length of the maximal N suffix


def nrun_spec(cx):
    if "NPRE" in cx.spec:
        return
    seen = set()
    t = z3.Int("t!nr")

    def inst(s):
        a, n = s.arr, s.n
        key = (a.get_id(), n.get_id())
        if key in seen:
            return
        seen.add(key)
        p, q = NPRE(a, n), NSUF(a, n)
        cx.axioms += [
            0 <= p, p <= n, z3.ForAll([t], z3.Implies(z3.And(0 <= t, t < p), a[t] == N_)), z3.Or(p == n, a[p] != N_),
            0 <= q, q <= n, z3.ForAll([t], z3.Implies(z3.And(n - q <= t, t < n), a[t] == N_)), z3.Or(q == n, a[n - q - 1] != N_),
        ]

    cx.spec["NPRE"] = lambda s: (inst(as_str(s)), NPRE(as_str(s).arr, as_str(s).n))[1]
    cx.spec["NSUF"] = lambda s: (inst(as_str(s)), NSUF(as_str(s).arr, as_str(s).n))[1]

    def maximal_n_runs(s, a, b):
        s = as_str(s)
        n = s.n
        return z3.And(0 <= a, a <= n, 0 <= b, b <= n,
                      z3.ForAll([t], z3.Implies(z3.And(0 <= t, t < a), s.arr[t] == N_)), z3.Or(a == n, s.arr[a] != N_),
                      z3.ForAll([t], z3.Implies(z3.And(b <= t, t < n), s.arr[t] == N_)), z3.Or(b == 0, s.arr[b - 1] != N_))

    cx.spec["maximal_n_runs"] = maximal_n_runs


def re_compile(ex, st, args, kwargs, node, spec):
    p = args[0]
    if not isinstance(p, PyConst):
        raise Unsupported("re.compile of a non-constant pattern")
    return ObjV("RePattern", {"pattern": p})


BUILTINS["re.compile"] = re_compile


def re_match(which):
    def h(ex, st, pat, args, kwargs, node, spec):
        nrun_spec(ex.cx)
        p = pat.fields["pattern"].v
        s = as_str(args[0])
        if which == "match" and p == "^N+":
            k = ex.cx.spec["NPRE"](s)
            return Opt(k == 0, ObjV("ReMatch", {"start": z3.IntVal(0), "end": k}))
        if which == "search" and p == "N+$":
            k = ex.cx.spec["NSUF"](s)
            return Opt(k == 0, ObjV("ReMatch", {"start": s.n - k, "end": s.n}))
        raise Unsupported(f"regular expression {p!r}.{which} has no assumed contract")
    return h


def install(world):
    world.global_providers.append(ee_globals)
    world.handlers[("RePattern", "match")] = re_match("match")
    world.handlers[("RePattern", "search")] = re_match("search")
    world.handlers[("ReMatch", "end")] = lambda ex, st, m, a, k, n, s: m.fields["end"]
    world.handlers[("ReMatch", "start")] = lambda ex, st, m, a, k, n, s: m.fields["start"]


@contract("modifiers.py", "NEndTrimmer.__call__", props=["C14"])
def nend_trimmer_call(c):
    c.types(read=Record, info=Info)
    c.init_self = ("NEndTrimmer", {})
    c.spec(nrun_spec)
    c.requires(same_length="is_none(read.qualities) or len(val(read.qualities)) == len(read.sequence)")
    c.ensures(
        cut_points_are_the_maximal_N_runs="maximal_n_runs(old(read.sequence), start_cut, end_cut)",
        result_is_the_slice="seq_eq(result.sequence, old(read.sequence)[start_cut:end_cut])",
        qualities_in_step="is_none(result.qualities) == is_none(old(read.qualities)) and implies(not is_none(old(read.qualities)), "
                          "seq_eq(val(result.qualities), val(old(read.qualities))[start_cut:end_cut]))",
    )
    c.runtime = {"module": "c14", "name": "NEndTrimmer"}
    c.mutant("start_cut.end()", "start_cut.start()")
    c.mutant("end_cut.start()", "end_cut.end()")
    c.mutant("else len(read)", "else 0")


NNC = z3.Function("NNC", AII, I, I)     # number of N or n among the first k characters
LCN = z3.Function("LCN", AII, I, I)     # number of 'n' among the first k characters of lower(s)


def ncount_spec(cx):
    if "NNC" in cx.spec:
        return
    seen = set()
    k = z3.Int("k!nn")

    def nnc(s, kk):
        s = as_str(s)
        a = s.arr
        if a.get_id() not in seen:
            seen.add(a.get_id())
            cx.axioms += [NNC(a, 0) == 0,
                          z3.ForAll([k], z3.Implies(k > 0, NNC(a, k) == NNC(a, k - 1) + z3.If(z3.Or(a[k - 1] == N_, a[k - 1] == n_), 1, 0)),
                                    patterns=[NNC(a, k)])]
        return NNC(a, kk)

    cx.spec["NNC"] = nnc


@lemma("count_lower_n", props=["C14"])
def count_lower_n(lem):
    """COUNT(lower(s), k, 'n') == NNC(s, k) for all k >= 0 (induction on k)."""
    a = z3.Const("a!ln", AII)
    la = z3.Const("la!ln", AII)
    from pyvc.world import COUNT
    k, j, c = z3.Ints("k!ln j!ln c!ln")

    def axioms_for(a, la):
        return [
            z3.ForAll([j], la[j] == z3.If(z3.And(65 <= a[j], a[j] <= 90), a[j] + 32, a[j]), patterns=[la[j]]),
            COUNT(la, 0, n_) == 0, NNC(a, 0) == 0,
            z3.ForAll([j], z3.Implies(j > 0, COUNT(la, j, n_) == COUNT(la, j - 1, n_) + z3.If(la[j - 1] == n_, 1, 0)), patterns=[COUNT(la, j, n_)]),
            z3.ForAll([j], z3.Implies(j > 0, NNC(a, j) == NNC(a, j - 1) + z3.If(z3.Or(a[j - 1] == N_, a[j - 1] == n_), 1, 0)), patterns=[NNC(a, j)]),
        ]

    def prove(lx):
        ax = axioms_for(a, la)
        lx.vc("base", ax, COUNT(la, 0, n_) == NNC(a, 0))
        lx.vc("step", ax + [k >= 0, COUNT(la, k, n_) == NNC(a, k)], COUNT(la, k + 1, n_) == NNC(a, k + 1))

    def statement(s, cx):
        from pyvc.world import map_str, LOWER
        s = as_str(s)
        ls = map_str(cx, LOWER, s)
        return z3.And(*axioms_for(s.arr, ls.arr)[1:], COUNT(ls.arr, s.n, n_) == NNC(s.arr, s.n))

    lem.prove = prove
    lem.statement = statement


TooManyNT = ObjT("TooManyN", is_proportion=Bool, cutoff=Real)


@contract("predicates.py", "TooManyN.test", props=["C14", "C11"])
def too_many_n_test(c):
    c.types(self=TooManyNT, read=Record, info=Info)
    c.returns(Bool)
    c.spec(ncount_spec)
    c.requires(nonneg="self.cutoff >= 0", prop="self.is_proportion == (self.cutoff < 1)")
    c.ghost("__lemma__('count_lower_n', read.sequence)", at_start=True)
    c.ensures(
        counts_upper_and_lower_case_N="n_count == NNC(read.sequence, len(read.sequence))",
        absolute_count="implies(self.cutoff >= 1, result == (NNC(read.sequence, len(read.sequence)) > self.cutoff))",
        fraction_of_length="implies(self.cutoff < 1 and len(read.sequence) > 0, result == (NNC(read.sequence, len(read.sequence)) / len(read.sequence) > self.cutoff))",
        empty_read_passes="implies(self.cutoff < 1 and len(read.sequence) == 0, result == False)",
    )
    c.runtime = {"module": "c14", "name": "TooManyN"}
    c.mutant(".lower().count('n')", ".count('N')")
    c.mutant("n_count > self.cutoff", "n_count >= self.cutoff")
    c.mutant("n_count / len(read) > self.cutoff", "n_count / len(read) >= self.cutoff")


def extra_checks(res, tier, seed, known, log):
    """Finite, exhaustive: every table literal (re-read from the header) against 10^(-q/10)."""
    from pyvc import runner
    decimal.getcontext().prec = 50
    tab = ee_table()
    worst = (0, 0)
    bad = []
    for q, v in enumerate(tab):
        exact = decimal.Decimal(10) ** (decimal.Decimal(-q) / 10)
        rel = abs(decimal.Decimal(v) - exact) / exact
        if rel > worst[0]:
            worst = (rel, q)
        if rel > decimal.Decimal("1e-12"):
            bad.append({"q": q, "literal": v, "exact": str(exact)[:25], "relative_error": float(rel)})
    res.finite.append({"name": "expected-error table vs 10^(-q/10)", "cases": len(tab), "exhaustive": True,
                       "tolerance": "relative 1e-12", "worst_relative_error": float(worst[0]), "worst_q": worst[1],
                       "table_length_is_94": len(tab) == 94})
    if bad or len(tab) != 94:
        path = runner.write_replay("C14", "ee_table", {"property": "C14", "obligation": "finite:ee_table", "failures": bad,
                                                       "table_length": len(tab)})
        res.violations.append({"replay": path})
