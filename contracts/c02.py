"""C02 — admissible adapter occurrences are found (Aligner.locate completeness layers E1, E2, E3)."""
import z3
from pyvc import api
from pyvc.api import contract, lemma, Int, Bool, Real, Str, OptT, ObjT, TupT
from pyvc.values import *  # noqa
from .c01 import (locate_contract, dist_layer, merge_loops, LOOPS_L3, LOOPS_DIST, BUDGET, DIST, EQ, EFFN)

TRUSTED = ["see C01 (budget(L) for rate*L; additionally rate < 1 as budget(L) < L for L >= 1)"]

SET = "best.cost != m + n + 1"

# ---------------------------------------------------------------- E1: an admissible error-free occurrence is found
H5 = lambda t, col: f"implies(column[{t}].cost == 0, column[{t}].origin == {col} - ({t}))"
D = lambda c: f"(a0 + ({c}) - p)"
OCC_PRE = dict(
    occurrence_inside="0 <= a0 and 0 <= p and L >= 1 and L >= self._min_overlap and a0 + L <= self.m and p + L <= len(query)",
    admissible_start="(a0 == 0 or p == 0) and implies(not self.start_in_reference, a0 == 0) and implies(not self.start_in_query, p == 0)",
    admissible_stop="(a0 + L == self.m or p + L == len(query)) and implies(not self.stop_in_reference, a0 + L == self.m) and implies(not self.stop_in_query, p + L == len(query))",
    budget_facts="budget(self.m) >= 0 and budget(self.m) <= self.m",
    error_free="forallp(x, a0, a0 + L, y, 0, len(query), implies(y - x == p - a0, EQ(x, y)), EQ(x, y))",
)
LOOPS_E1 = {
    1: ["forall(t, 0, i_next, " + H5("t", "min_n") + ")", "implies(i_next >= 1 and min_n == 0, column[0].cost == 0)"],
    2: ["forall(t, 0, i_next, " + H5("t", "min_n") + ")", "implies(min_n == 0, forall(t, 0, i_next, column[t].cost == 0))"],
    3: ["forall(t, 0, i_next, " + H5("t", "min_n") + ")"],
    4: ["forall(t, 0, i_next, " + H5("t", "min_n") + ")", "implies(min_n == 0, forall(t, 0, i_next, column[t].cost == 0))"],
    6: ["forall(t, 0, m + 1, " + H5("t", "jcol") + ")",
        f"implies(p <= jcol and jcol <= p + L, column[{D('jcol')}].cost == 0)",
        f"implies(p <= jcol and jcol < p + L, {D('jcol')} + 1 <= last)",
        f"implies(jcol >= p + L and a0 + L == m and self.stop_in_query, {SET})",
        "p >= min_n", f"implies(p < jcol and jcol <= p + L, {D('jcol')} <= last_filled_i)"],
    7: ["forall(t, 0, i_next, " + H5("t", "j") + ")", "forall(t, i_next, m + 1, " + H5("t", "j - 1") + ")",
        "implies(diag_entry.cost == 0, diag_entry.origin == (j - 1) - (i_next - 1))",
        f"implies(p < j and j <= p + L and {D('j')} < i_next, column[{D('j')}].cost == 0)",
        f"implies(p < j and j <= p + L and {D('j')} > i_next, column[{D('j')} - 1].cost == 0)",
        f"implies(p < j and j <= p + L and {D('j')} == i_next, diag_entry.cost == 0)",
        "implies(p == j, column[a0].cost == 0) or a0 >= i_next",
        "implies(p == j and a0 < i_next, column[a0].cost == 0)"],
    10: [f"implies(a0 + L == m and self.stop_in_query, {SET})",
         f"implies(p + L == n and jcol == n and i_next < {D('n')} and {D('n')} <= last_filled_i, {SET})"],
}


@contract("_align.pyx", "Aligner.locate", props=["C02"], name="Aligner.locate@E1")
def aligner_locate_e1(c):
    locate_contract(c, "E1")
    c.types(a0=Int, p=Int, L=Int)         # ghost: the occurrence adapter[a0:a0+L] == read[p:p+L]
    c.returns(OptT(TupT(Int, Int, Int, Int, Int, Int)))
    c.ghost("__lemma__('eq_def', s1)", after="s2 = query_bytes")
    c.ghost("__assert__(characters_equal == EQ(i - 1, j - 1), 'characters_equal_is_EQ')\n"
            "__inst__('error_free', i - 1, j - 1)",
            before="if characters_equal:")
    c.requires(**OCC_PRE)
    for k_, inv in merge_loops(LOOPS_L3, LOOPS_E1).items():
        c.loop(k_, inv=inv)
    c.ensures(E1_an_admissible_error_free_occurrence_is_reported="not is_none(result)")
    c.mutant("length >= self._min_overlap", "length > self._min_overlap", occurrence=1)
    c.mutant("if last < m:\n            last += 1", "if last < m:\n            pass")
    c.mutant("max_n = min(n, m + k)", "max_n = min(n, m + k) - 1")


# ---------------------------------------------------------------- E2 / E3: occurrences within tolerance
EFF0 = lambda e: f"((({e}) - (code(self.n_counts, {e}) - code(self.n_counts, 0))) if self.wildcard_ref else {e})"
EFF = lambda a, e: f"(((({e}) - ({a})) - (code(self.n_counts, {e}) - code(self.n_counts, {a}))) if self.wildcard_ref else ({e}) - ({a}))"
E2_PRE = dict(
    adapter_start_cannot_be_skipped="not self.start_in_reference",
    occurrence_inside="0 <= q0 and q0 <= f0 and f0 <= len(query) and 1 <= e0 and e0 <= self.m and e0 >= self._min_overlap",
    admissible="implies(not self.start_in_query, q0 == 0) and (e0 == self.m or f0 == len(query)) and implies(not self.stop_in_reference, e0 == self.m) and "
               "implies(not self.stop_in_query, f0 == len(query))",
    within_tolerance="Dist(0, q0, e0, f0) <= budget(" + EFF0("e0") + ")",
    rate_below_one="forall(a, 1, self.m + 1, budget(a) < a)",
)
LOOPS_E2 = {
    6: ["q0 >= min_n", f"implies(jcol >= f0 and e0 == m and self.stop_in_query, {SET})",
        "implies(jcol > min_n, forall(t, last_filled_i + 1, m + 1, column[t].cost > k))"],
    10: [f"implies(e0 == m and self.stop_in_query, {SET})", f"implies(f0 == n and jcol == n and i_next < e0 and e0 <= last_filled_i, {SET})"],
}


@contract("_align.pyx", "Aligner.locate", props=["C02"], name="Aligner.locate@E2")
def aligner_locate_e2(c):
    dist_layer(c)
    c.types(q0=Int, e0=Int, f0=Int)       # ghost: adapter[0:e0] against read[q0:f0]
    c.requires(**E2_PRE)
    for k_, inv in merge_loops(LOOPS_DIST, LOOPS_E2).items():
        c.loop(k_, inv=inv)
    c.ensures(E2_an_admissible_occurrence_within_tolerance_is_reported_when_the_adapter_start_cannot_be_skipped="not is_none(result)")
    c.mutant("cost <= cur_effective_length * max_error_rate", "cost < cur_effective_length * max_error_rate", occurrence=1)
    c.mutant("last = min(m, k + 1)", "last = min(m, k)")
    c.mutant("min_n = max(0, n - m - k)", "min_n = max(0, n - m - k + 1)")
    c.mutant("reversed(range(first_i, last_filled_i + 1))", "reversed(range(first_i + 1, last_filled_i + 1))")


H5p = lambda t, col, c=None, o=None: f"implies({c or f'column[{t}].cost'} <= k, {o or f'column[{t}].origin'} == ({col}) - ({t}))"
E3_PRE = dict(
    indels_disabled="indel_() == 100000 and self.m < 100000",
    occurrence_inside="0 <= a0 and a0 <= e0 and e0 <= self.m and 0 <= q0 and q0 <= f0 and f0 <= len(query) and e0 - a0 == f0 - q0 and e0 - a0 >= 1 and e0 - a0 >= self._min_overlap",
    admissible="(a0 == 0 or q0 == 0) and implies(not self.start_in_reference, a0 == 0) and implies(not self.start_in_query, q0 == 0) and "
               "(e0 == self.m or f0 == len(query)) and implies(not self.stop_in_reference, e0 == self.m) and implies(not self.stop_in_query, f0 == len(query))",
    within_tolerance="Dist(a0, q0, e0, f0) <= budget(" + EFF("a0", "e0") + ")",
    rate_below_one="forall(a, 1, self.m + 1, budget(a) < a)",
)
LOOPS_E3 = {
    1: ["forall(t, 0, i_next, " + H5p("t", "min_n") + ")"], 2: ["forall(t, 0, i_next, " + H5p("t", "min_n") + ")"],
    3: ["forall(t, 0, i_next, " + H5p("t", "min_n") + ")"], 4: ["forall(t, 0, i_next, " + H5p("t", "min_n") + ")"],
    6: ["k < indel_()", "q0 >= min_n", "forall(t, 0, m + 1, " + H5p("t", "jcol") + ")",
        f"implies(jcol >= f0 and e0 == m and self.stop_in_query, {SET})",
        "implies(jcol > min_n, forall(t, last_filled_i + 1, m + 1, column[t].cost > k))"],
    7: ["forall(t, 0, i_next, " + H5p("t", "j") + ")", "forall(t, i_next, m + 1, " + H5p("t", "j - 1") + ")",
        H5p("i_next - 1", "j - 1", "diag_entry.cost", "diag_entry.origin")],
    10: [f"implies(e0 == m and self.stop_in_query, {SET})", f"implies(f0 == n and jcol == n and i_next < e0 and e0 <= last_filled_i, {SET})"],
}


@contract("_align.pyx", "Aligner.locate", props=["C02"], name="Aligner.locate@E3")
def aligner_locate_e3(c):
    dist_layer(c)
    c.types(a0=Int, q0=Int, e0=Int, f0=Int)
    c.requires(**E3_PRE)
    for k_, inv in merge_loops(LOOPS_DIST, LOOPS_E3).items():
        c.loop(k_, inv=inv)
    c.ensures(E3_without_indels_every_admissible_occurrence_within_tolerance_is_reported="not is_none(result)")
    c.mutant("self.n_counts[m - length]", "self.n_counts[m - length - 1]")


def install(world):
    _aligner_install(world)

    def where_value(name, cx):
        # Where.<NAME>.value, computed from the real enum definitions (see c01.finite_checks)
        if name.startswith("Where."):
            return None
        return None
    import ast as _ast
    from pyvc import frontends

    def where_provider(name, cx):
        if not name.startswith("Where."):
            return None
        tree = frontends.py_module("align.py")[1]
        endskip = {}
        for st in frontends.find_py(tree, "EndSkip").body:
            if isinstance(st, _ast.Assign) and isinstance(st.value, _ast.Constant):
                endskip[st.targets[0].id] = st.value.value
        atree = frontends.py_module("adapters.py")[1]
        fields = {}
        for st in frontends.find_py(atree, "Where").body:
            if isinstance(st, _ast.Assign):
                v = eval(compile(_ast.Expression(st.value), "w", "eval"), {"EndSkip": type("E", (), endskip)})
                fields[st.targets[0].id] = ObjV("EnumMember", {"value": z3.IntVal(int(v))})
        return fields.get(name.split(".", 1)[1])
    world.global_providers.append(where_provider)


def extra_checks(res, tier, seed, known, log):
    from pyvc import runner
    runner.runtime_standin(res, "C02", "c01", "match_to", seed, 4000 if tier == "quick" else 60000, 40 if tier == "quick" else 600,
                           prefix="C02:", label="cut-position sentences (leftmost/rightmost copy, exact anchored removal) and occurrence clauses "
                                                "at the level of the adapter classes, brute-force oracle")


# ---------------------------------------------------------------- which aligner an anchored adapter uses
from pyvc.api import ConstT   # noqa
from pyvc.values import ObjV, PyConst  # noqa

AnchoredT = ObjT("PrefixAdapter", sequence=Str, max_error_rate=Real, adapter_wildcards=Bool, read_wildcards=Bool, min_overlap=Int, indels=Bool)


def _aligner_install(world):
    from .c10 import abstract_ctor
    for cls in ("Aligner", "PrefixComparer", "SuffixComparer"):
        world.ctor_handlers.setdefault(cls, abstract_ctor(cls))


def _anchored_aligner(cls, comparer, where):
    @contract("adapters.py", f"{cls}._aligner", props=["C02", "C01"])
    def _c(c):
        c.types(self=ObjT(cls, **AnchoredT.fields))
        c.spec(lambda cx: cx.spec.update(
            is_class=lambda o, name: z3.BoolVal(o.cls == name.v),
            kw=lambda o, name: o.fields.get("kw_" + name.v, o.fields.get(name.v))))
        c.ensures(
            hamming_comparer_only_when_indels_are_disabled=f"implies(self.indels, is_class(result, 'Aligner')) and implies(not self.indels, is_class(result, '{comparer}'))",
            with_indels_the_aligner_allows_them="implies(self.indels, kw(result, 'indel_cost') == 1)",
            anchored_flag_set=f"implies(self.indels, kw(result, 'flags') == {where})",
            overlap_and_rate_passed_on="implies(self.indels, kw(result, 'min_overlap') == self.min_overlap) and implies(not self.indels, kw(result, 'min_overlap') == self.min_overlap)",
        )
        c.mutant("if not self.indels:", "if not self.indels or self.max_error_rate * len(self.sequence) <= 1:")
    return _c


prefix_aligner = _anchored_aligner("PrefixAdapter", "PrefixComparer", 8)
suffix_aligner = _anchored_aligner("SuffixAdapter", "SuffixComparer", 2)
