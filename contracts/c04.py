"""C04 — every read is written once or counted once; totals add up.  (Step contracts are shared
with C05, C11 and C15.)"""
import z3
from pyvc import api, heap
from pyvc.api import contract, Int, Bool, Real, Str, OptT, ObjT, TupT, SeqT, MapT, schema
from pyvc.values import *  # noqa
from .common import Record
from .shapes import MatchT, InfoT, match_spec2, record_spec
from .c09 import mt_spec

TRUSTED = [
    "writer objects (dnaio / ProxyRecordWriter) write the records they are given; a write is observed through the ghost "
    "sequences $w_writer / $w_rec1 / $w_rec2",
    "Predicate.test is a deterministic function of (predicate, read, info) (uninterpreted PTEST) at the step level; each "
    "predicate class is checked against its documented criterion in C11",
]

schema("Writer")
schema("Predicate", __cls__=Int)
WriterT = ObjT("Writer")
PredT = ObjT("Predicate")
PTEST = z3.Function("PTEST", I, I, I, B)


def gseq_append(st, name, term):
    cur = st.env.get(name) or SeqV(z3.K(I, z3.IntVal(0)), z3.IntVal(0), None)
    st.env[name] = SeqV(z3.Store(cur.arr, cur.n, term), cur.n + 1, None)


def writer_write(ex, st, w, args, kwargs, node, spec):
    """Ghost model of record writers: one entry per write call."""
    gseq_append(st, "$w_writer", w.fields["__id__"])
    gseq_append(st, "$w_rec1", args[0].fields["__id__"])
    gseq_append(st, "$w_rec2", args[1].fields["__id__"] if len(args) > 1 else z3.IntVal(-1))
    st.env["$nwrites"] = st.env["$nwrites"] + 1
    return None


def install(world):
    world.handlers[("Writer", "write")] = writer_write


def step_spec(cx):
    mt_spec(cx)
    record_spec(cx)
    if "ptest" in cx.spec:
        return
    cx.spec["ptest"] = lambda p, r, i: PTEST(p.fields["__id__"], r.fields["__id__"], i.fields["__id__"])

    def lengths_plus_one(new, old, l):
        return new.arr == z3.Store(old.arr, l, old.arr[l] + 1)

    cx.spec["lengths_plus_one"] = lengths_plus_one
    cx.spec["map_same"] = lambda a, b: a.arr == b.arr


@contract("predicates.py", "Predicate.test", props=[], name="Predicate.test")
def predicate_test(c):
    c.types(self=PredT, read=Record, info=InfoT)
    c.returns(Bool)
    c.spec(step_spec)
    c.covers_subclasses = True
    c.ensures(deterministic="result == ptest(self, read, info)")


G0 = "g_w0 = gcount('nwrites')"
WROTE_ONE = lambda w, r1, r2="-1": (f"gcount('nwrites') == g_w0 + 1 and gs_at('w_writer', g_w0) == {w}.__id__ and "
                                    f"gs_at('w_rec1', g_w0) == {r1}.__id__ and gs_at('w_rec2', g_w0) == " + (f"{r2}.__id__" if r2 != "-1" else "-1"))
NO_WRITE = "gcount('nwrites') == g_w0"

FilterT = ObjT("SingleEndFilter", _filtered=Int, _predicate=PredT, _writer=OptT(WriterT))


@contract("steps.py", "SingleEndFilter.__call__", props=["C04", "C11"])
def single_end_filter_call(c):
    c.types(self=FilterT, read=Record, info=InfoT)
    c.returns(OptT(Record))
    c.modifies = ["self"]
    c.spec(step_spec)
    c.ghost(G0, at_start=True)
    P = "ptest(old(self._predicate), read, info)"
    c.ensures(
        consumed_iff_the_criterion_applies=f"is_none(result) == {P}",
        passed_on_unchanged_otherwise=f"implies(not {P}, val(result).__id__ == read.__id__ and rec_same(val(result), read) and self._filtered == old(self._filtered) and {NO_WRITE})",
        counted_exactly_once=f"implies({P}, self._filtered == old(self._filtered) + 1)",
        redirected_iff_a_file_was_given=f"implies({P} and not is_none(self._writer), {WROTE_ONE('val(self._writer)', 'read')}) and "
                                        f"implies({P} and is_none(self._writer), {NO_WRITE})",
    )
    c.mutant("self._filtered += 1", "pass")
    c.mutant("return None", "return read")
    c.mutant("if self._writer is not None:", "if self._writer is None:")


PFilterT = ObjT("PairedEndFilter")


@contract("steps.py", "PairedEndFilter.__call__", props=["C04", "C05", "C11"])
def paired_end_filter_call(c):
    c.types(read1=Record, read2=Record, info1=InfoT, info2=InfoT)
    c.init_self = ("PairedEndFilter", {"predicate1": OptT(PredT), "predicate2": OptT(PredT), "writer": OptT(WriterT), "pair_filter_mode": Str})
    c.returns(OptT(TupT(Record, Record)))
    c.modifies = ["self"]
    c.spec(step_spec)
    c.requires(mode="seq_eq(init_pair_filter_mode, 'any') or seq_eq(init_pair_filter_mode, 'both') or seq_eq(init_pair_filter_mode, 'first')",
               some_predicate="not is_none(init_predicate1) or not is_none(init_predicate2)",
               distinct="read1.__id__ != read2.__id__")
    c.ghost(G0, at_start=True)
    T1 = "ptest(val(init_predicate1), read1, info1)"
    T2 = "ptest(val(init_predicate2), read2, info2)"
    D = (f"({T1} if is_none(init_predicate2) else ({T2} if is_none(init_predicate1) else "
         f"(({T1} or {T2}) if seq_eq(init_pair_filter_mode, 'any') else (({T1} and {T2}) if seq_eq(init_pair_filter_mode, 'both') else {T1}))))")
    c.ensures(
        pair_decision_combines_the_criteria_as_documented=f"is_none(result) == {D}",
        kept_as_a_unit=f"implies(not {D}, val(result)[0].__id__ == read1.__id__ and val(result)[1].__id__ == read2.__id__ and self._filtered == old(self._filtered) and {NO_WRITE})",
        counted_exactly_once=f"implies({D}, self._filtered == old(self._filtered) + 1)",
        redirected_as_a_unit=f"implies({D} and not is_none(init_writer), {WROTE_ONE('val(init_writer)', 'read1', 'read2')}) and implies({D} and is_none(init_writer), {NO_WRITE})",
    )
    c.mutant("self.writer.write(read1, read2)", "self.writer.write(read1, read1)")
    c.mutant("elif pair_filter_mode == 'any':", "elif pair_filter_mode == 'both':")


schema("ReadLengthStatistics", _written_lengths1=MapT(), _written_lengths2=MapT())
RLS = ObjT("ReadLengthStatistics")


@contract("steps.py", "SingleEndSink.__call__", props=["C04", "C15"])
def single_end_sink_call(c):
    c.types(self=ObjT("SingleEndSink", writer=WriterT, _statistics=RLS), read=Record, info=InfoT)
    c.returns(OptT(Record))
    c.modifies = ["self"]
    c.spec(step_spec)
    c.ghost(G0, at_start=True)
    c.ensures(
        consumes_every_read="is_none(result)",
        written_exactly_once=WROTE_ONE("self.writer", "read"),
        counted_as_written_with_its_length="lengths_plus_one(self._statistics._written_lengths1, old(self._statistics._written_lengths1), len(read.sequence))",
    )
    c.mutant("self._statistics.update(read)", "pass")
    c.mutant("self.writer.write(read)", "pass")


@contract("steps.py", "PairedEndSink.__call__", props=["C04", "C05", "C15"])
def paired_end_sink_call(c):
    c.types(self=ObjT("PairedEndSink", writer=WriterT, _statistics=RLS), read1=Record, read2=Record, info1=InfoT, info2=InfoT)
    c.returns(OptT(TupT(Record, Record)))
    c.modifies = ["self"]
    c.spec(step_spec)
    c.ghost(G0, at_start=True)
    c.ensures(
        consumes_every_pair="is_none(result)",
        both_mates_written_together_exactly_once=WROTE_ONE("self.writer", "read1", "read2"),
        counted_as_written_with_both_lengths="lengths_plus_one(self._statistics._written_lengths1, old(self._statistics._written_lengths1), len(read1.sequence)) and "
                                             "lengths_plus_one(self._statistics._written_lengths2, old(self._statistics._written_lengths2), len(read2.sequence))",
    )
    c.mutant("self.writer.write(read1, read2)", "self.writer.write(read2, read1)")
    c.mutant("self._statistics.update2(read1, read2)", "self._statistics.update(read1)")


@contract("steps.py", "PairedSingleEndStep.__call__", props=["C04", "C05"])
def paired_single_end_step_call(c):
    c.types(self=ObjT("PairedSingleEndStep", _step=ObjT("SingleEndStep")), read1=Record, read2=Record, info1=InfoT, info2=InfoT)
    c.returns(OptT(TupT(Record, Record)))
    c.modifies = ["self"]
    c.spec(step_spec)
    c.ensures(
        consumed_iff_the_wrapped_step_consumes_read1="is_none(result) == step_consumes(old(self._step), read1, info1)",
        mate_passed_along_untouched="implies(not is_none(result), val(result)[1].__id__ == read2.__id__ and rec_same(val(result)[1], read2))",
    )
    c.mutant("return (result, read2)", "return (result, read1)")


SCONS = z3.Function("STEP_CONSUMES", I, I, I, B)
schema("SingleEndStep", __cls__=Int)


def step_spec2(cx):
    step_spec(cx)
    cx.spec.setdefault("step_consumes", lambda s, r, i: SCONS(s.fields["__id__"], r.fields["__id__"], i.fields["__id__"]))


for _c in (paired_single_end_step_call,):
    _c.specs.append(step_spec2)


@contract("steps.py", "SingleEndStep.__call__", props=[], name="SingleEndStep.__call__")
def single_end_step_abstract(c):
    """Abstract step (assumed here, each concrete step is proved against its own, stronger contract)."""
    c.types(self=ObjT("SingleEndStep"), read=Record, info=InfoT)
    c.returns(OptT(Record))
    c.modifies = ["self"]
    c.covers_subclasses = True
    c.spec(step_spec2)
    c.ensures(deterministic="is_none(result) == step_consumes(old(self), read, info)")


def extra_checks(res, tier, seed, known, log):
    from pyvc import runner
    runner.cli_grid(res, "C04", tier, seed, known)
    # finite: the categories steps count in are categories the report prints
    r = runner.run_native("filter_categories.py", {}, timeout=300)
    js = r["json"] or {}
    res.finite.append({"name": "every filter category of a predicate / demultiplexer is printed by the report (report.FILTERS)",
                       "cases": js.get("cases", 0), "exhaustive": True, "failures": js.get("failures", [])[:3]})
    if js.get("failures") or not js.get("cases"):
        path = runner.write_replay("C04", "finite.filter_categories", {"property": "C04", "obligation": "finite:filter_categories",
                                                                       "failing_input": (js.get("failures") or [r["stderr"][-500:]])[0]})
        res.violations.append({"replay": path})
