"""C10 — read modifications are applied in the documented fixed order, with the documented R1/R2 routing."""
import z3
from pyvc import api
from pyvc.api import contract, Int, Bool, Str, OptT, ObjT, TupT, SeqT, GListT
from pyvc.values import *  # noqa
from .common import Record
from .shapes import InfoT

TRUSTED = [
    "argparse delivers each option in the attribute the builder reads (the namespace does not depend on option order, except "
    "for the append options -u/-U/--strip-suffix, which are 'in the order given')",
    "modifier constructors are abstract here (class + constructor arguments); what each modifier does is C03/C13/C14",
    "--strip-suffix is modelled with at most two occurrences, -u/-U with at most three (more than two is rejected)",
]

MODIFIER_CLASSES = ["UnconditionalCutter", "NextseqQualityTrimmer", "QualityTrimmer", "AdapterCutter", "PairedAdapterCutter",
                    "ReverseComplementer", "PairedReverseComplementer", "PolyATrimmer", "Shortener", "NEndTrimmer",
                    "LengthTagModifier", "SuffixRemover", "PrefixSuffixAdder", "ZeroCapper", "Renamer", "PairedEndRenamer",
                    "SingleEndPipeline", "PairedEndPipeline"]
RANK = {"UnconditionalCutter": 1, "NextseqQualityTrimmer": 2, "QualityTrimmer": 3, "AdapterCutter": 4, "PairedAdapterCutter": 4,
        "ReverseComplementer": 4, "PairedReverseComplementer": 4, "PolyATrimmer": 5, "Shortener": 6, "NEndTrimmer": 7,
        "LengthTagModifier": 8, "SuffixRemover": 9, "PrefixSuffixAdder": 10, "ZeroCapper": 11, "Renamer": 11, "PairedEndRenamer": 11}


def abstract_ctor(cls):
    def h(ex, st, args, kwargs, node, spec):
        f = {"__cls__": z3.IntVal(ex.world.cls_tag(cls)), "__id__": fresh("id." + cls, I)}
        for i, a in enumerate(args):
            f[f"a{i}"] = a
        for k, v in kwargs.items():
            f["kw_" + k] = v
        return ObjV(cls, f)
    return h


PARSE0 = z3.Function("parse_cutoffs.0", AII, I, I)
PARSE1 = z3.Function("parse_cutoffs.1", AII, I, I)


def install(world):
    for cls in MODIFIER_CLASSES:
        world.ctor_handlers[cls] = abstract_ctor(cls)

    def copy_obj(ex, st, args, kwargs, node, spec):
        v = args[0]
        if isinstance(v, Opt):
            inner = copy_obj(ex, st, [v.val], kwargs, node, spec)
            return Opt(v.none, inner)
        if isinstance(v, ObjV) and "__id__" in v.fields:
            return ObjV(v.cls, {**v.fields, "__id__": fresh("id.copy", I), "__copy_of__": v.fields["__id__"]})
        return v
    world.builtins["copy.copy"] = copy_obj


@contract("cli.py", "parse_cutoffs", props=[], name="parse_cutoffs")
def parse_cutoffs_abstract(c):
    """Assumed: a deterministic function of the string (string parsing is not under contract)."""
    c.types(s=Str)
    c.returns(TupT(Int, Int))
    c.spec(lambda cx: cx.spec.update(pc0=lambda s: PARSE0(as_str(s).arr, as_str(s).n), pc1=lambda s: PARSE1(as_str(s).arr, as_str(s).n)))
    c.raises("CommandLineError", when=None)
    c.ensures(deterministic="result[0] == pc0(s) and result[1] == pc1(s)")


def items_of(lst):
    """Items of the modifier list; alternatives (objects of unrelated shapes merged at a join) are made explicit."""
    out = []
    for g, it in lst.items:
        if isinstance(it, ChoiceV):
            for c_, v_ in it.options:
                out.append((z3.And(g, c_), v_))
        elif isinstance(it, Opt) and isinstance(it.val, ChoiceV):
            for c_, v_ in it.val.options:
                out.append((z3.And(g, z3.Not(it.none), c_), v_))
        else:
            out.append((g, it))
    return out


def sides(item):
    """[(side, present: z3 Bool, ObjV)] of a modifier-list item; side 0 = single-end / whole pair, 1 = R1, 2 = R2."""
    if isinstance(item, TupV):
        out = []
        for k, m in enumerate(item.items, 1):
            if m is None:
                continue
            if isinstance(m, Opt):
                out.append((k, z3.Not(m.none), m.val))
            else:
                out.append((k, z3.BoolVal(True), m))
        return out
    if isinstance(item, Opt):
        return [(0, z3.Not(item.none), item.val)]
    return [(0, z3.BoolVal(True), item)]


def cls_of(item):
    """Class of a modifier-list item; for an object merged from constructors of different classes (a conditional
    expression) all alternatives must have the same rank and pair-level status, and the first one is returned."""
    ss = sides(item)
    if not ss:
        return None
    m = ss[0][2]
    if m.cls in RANK:
        return m.cls
    from pyvc import verify
    w = verify.world()
    tags = set()
    stack = [m.fields.get("__cls__")]
    while stack:
        t = stack.pop()
        if t is None:
            continue
        if z3.is_int_value(t):
            tags.add(t.as_long())
        elif z3.is_app(t) and t.decl().kind() == z3.Z3_OP_ITE:
            stack += [t.arg(1), t.arg(2)]
    names = sorted(w.cls_by_tag(t) for t in tags)
    if names and len({RANK.get(nm) for nm in names}) == 1 and \
            len({nm in ("PairedAdapterCutter", "PairedReverseComplementer", "PairedEndRenamer") for nm in names}) <= 2:
        return names[0]
    return m.cls


def _py(v):
    if isinstance(v, PyConst):
        return v.v
    if isinstance(v, ListV):
        return [_py(i) for _, i in v.items]
    if isinstance(v, TupV):
        return [_py(i) for i in v.items]
    return v


def veq(a, b):
    """Value equality of (possibly optional) scalars."""
    if a is None or b is None:
        o = b if a is None else a
        return z3.BoolVal(True) if o is None else (o.none if isinstance(o, Opt) else z3.BoolVal(False))
    na, va = (a.none, a.val) if isinstance(a, Opt) else (z3.BoolVal(False), a)
    nb, vb = (b.none, b.val) if isinstance(b, Opt) else (z3.BoolVal(False), b)
    return z3.Or(z3.And(na, nb), z3.And(z3.Not(na), z3.Not(nb), va == vb))


def order_spec(cx):
    def ranks_sorted(mods):
        its = items_of(mods)
        conds = []
        for i in range(len(its)):
            for j in range(i + 1, len(its)):
                ri, rj = RANK.get(cls_of(its[i][1])), RANK.get(cls_of(its[j][1]))
                if ri is None or rj is None:
                    conds.append(z3.BoolVal(False))
                elif ri > rj:
                    conds.append(z3.Not(z3.And(its[i][0], its[j][0])))
        return z3.And(*conds) if conds else z3.BoolVal(True)

    def present(mods, *classes):
        classes = [_py(c_) for c_ in classes]
        gs = [g for g, it in items_of(mods) if cls_of(it) in classes]
        return z3.Or(*gs) if gs else z3.BoolVal(False)

    def count(mods, *classes):
        classes = [_py(c_) for c_ in classes]
        gs = [z3.If(g, 1, 0) for g, it in items_of(mods) if cls_of(it) in classes]
        return z3.Sum(*gs) if gs else z3.IntVal(0)

    def each(mods, classes, pred):
        """Every present item of the given classes satisfies pred(item) (a z3 Bool built in Python)."""
        classes = _py(classes)
        cs = [z3.Implies(g, pred(it)) for g, it in items_of(mods) if cls_of(it) in classes]
        return z3.And(*cs) if cs else z3.BoolVal(True)

    def shape(mods, paired):
        """Single-end: every item is one modifier; paired: a pair-level modifier or a tuple (R1 modifier|None, R2 modifier|None)."""
        cs = []
        for g, it in items_of(mods):
            if isinstance(it, TupV):
                cs.append(z3.Implies(g, paired))
                continue
            from pyvc import verify
            w = verify.world()
            tag = sides(it)[0][2].fields["__cls__"]
            is_pairlevel = z3.Or(*[tag == w.cls_tag(nm) for nm in ("PairedAdapterCutter", "PairedReverseComplementer", "PairedEndRenamer")])
            cs.append(z3.Implies(g, is_pairlevel == paired))
        return z3.And(*cs) if cs else z3.BoolVal(True)

    def in_glist(v, glist):
        return z3.Or(*[z3.And(g, x == v) for g, x in glist.items]) if glist.items else z3.BoolVal(False)

    def side_present(it, side):
        for k, p, m in sides(it):
            if k == side:
                return p
        return z3.BoolVal(False)

    def side_arg(it, side, name):
        for k, p, m in sides(it):
            if k == side:
                return m.fields.get(name)
        return None

    def eq_opt(a, b):
        return a == b

    def cut_rule(mods, args, paired):
        def pred(it):
            if isinstance(it, TupV):
                r1, r2 = side_present(it, 1), side_present(it, 2)
                a1, a2 = side_arg(it, 1, "a0"), side_arg(it, 2, "a0")
                c = [z3.Xor(r1, r2)]
                if a1 is not None:
                    c.append(z3.Implies(r1, z3.And(a1 != 0, in_glist(a1, args.fields["cut"]))))
                if a2 is not None:
                    c.append(z3.Implies(r2, z3.And(a2 != 0, in_glist(a2, args.fields["cut2"]))))
                return z3.And(*c)
            a = side_arg(it, 0, "a0")
            return z3.And(a != 0, in_glist(a, args.fields["cut"]))
        n1 = z3.Sum(*[z3.If(z3.And(g, x != 0), 1, 0) for g, x in args.fields["cut"].items])
        n2 = z3.Sum(*[z3.If(z3.And(g, x != 0), 1, 0) for g, x in args.fields["cut2"].items])
        return z3.And(each(mods, ["UnconditionalCutter"], pred),
                      count(mods, "UnconditionalCutter") == n1 + z3.If(paired, n2, 0))

    def both_sides_same(mods, classes, argname, expected):
        argname = _py(argname)

        def pred(it):
            if isinstance(it, TupV):
                a1, a2 = side_arg(it, 1, argname), side_arg(it, 2, argname)
                return z3.And(side_present(it, 1), side_present(it, 2), veq(a1, expected), veq(a2, expected))
            return veq(side_arg(it, 0, argname), expected)
        return each(mods, classes, pred)

    def both_sides_present(mods, classes):
        def pred(it):
            if isinstance(it, TupV):
                return z3.And(side_present(it, 1), side_present(it, 2))
            return z3.BoolVal(True)
        return each(mods, classes, pred)

    def polya_rule(mods):
        def pred(it):
            if isinstance(it, TupV):
                r2 = [m for k, p, m in sides(it) if k == 2][0]
                r1 = [m for k, p, m in sides(it) if k == 1][0]
                return z3.And(side_present(it, 1), side_present(it, 2), boolify(r2.fields.get("kw_revcomp", z3.BoolVal(False))),
                              z3.Not(boolify(r1.fields.get("kw_revcomp", z3.BoolVal(False)))))
            return z3.Not(boolify(sides(it)[0][2].fields.get("kw_revcomp", z3.BoolVal(False))))
        return each(mods, ["PolyATrimmer"], pred)

    def shortener_rule(mods, args):
        l1, l2 = args.fields["length"], args.fields["length2"]

        def pred(it):
            if isinstance(it, TupV):
                r1, r2 = side_present(it, 1), side_present(it, 2)
                a1, a2 = side_arg(it, 1, "a0"), side_arg(it, 2, "a0")
                c = [r1 == z3.Not(l1.none), r2]
                if a1 is not None:
                    c.append(z3.Implies(r1, veq(a1, l1)))
                c.append(z3.If(z3.Not(l2.none), veq(a2, l2), veq(a2, l1)))
                return z3.And(*c)
            return z3.And(z3.Not(l1.none), veq(side_arg(it, 0, "a0"), l1))
        return each(mods, ["Shortener"], pred)

    def quality_rule(mods, args):
        q1, q2 = args.fields["quality_cutoff"], args.fields["quality_cutoff2"]
        from pyvc.engine import str_eq
        given = lambda q: z3.And(z3.Not(q.none), z3.Not(str_eq(q.val, PyConst("0"))))

        def cut(q):
            s = as_str(q.val)
            return PARSE0(s.arr, s.n), PARSE1(s.arr, s.n)

        def pred(it):
            if isinstance(it, TupV):
                r1, r2 = side_present(it, 1), side_present(it, 2)
                c = [r1 == given(q1)]
                a10, a11 = side_arg(it, 1, "a0"), side_arg(it, 1, "a1")
                a20, a21 = side_arg(it, 2, "a0"), side_arg(it, 2, "a1")
                if a10 is not None:
                    c.append(z3.Implies(r1, z3.And(a10 == cut(q1)[0], a11 == cut(q1)[1])))
                if a20 is not None:
                    # -Q given: its own cutoffs; -Q not given and -q given: a copy of R1's
                    c.append(z3.Implies(z3.And(r2, z3.Not(q2.none)), z3.And(given(q2), a20 == cut(q2)[0], a21 == cut(q2)[1])))
                    c.append(z3.Implies(z3.And(r2, q2.none), z3.And(given(q1), a20 == cut(q1)[0], a21 == cut(q1)[1])))
                    c.append(r2 == z3.Or(given(q2), z3.And(q2.none, given(q1))))
                else:
                    c.append(z3.Not(z3.Or(given(q2), z3.And(q2.none, given(q1)))))
                return z3.And(*c)
            return z3.And(given(q1), side_arg(it, 0, "a0") == cut(q1)[0], side_arg(it, 0, "a1") == cut(q1)[1])
        return each(mods, ["QualityTrimmer"], pred)

    cx.spec.update(ranks_sorted=ranks_sorted, present=present, count=count, shape=shape, cut_rule=cut_rule,
                   both_sides_same=both_sides_same, both_sides_present=both_sides_present, polya_rule=polya_rule,
                   shortener_rule=shortener_rule, quality_rule=quality_rule,
                   truthy=lambda v: boolify(v))


ArgsT = ObjT("Namespace", cut=GListT(Int, 3), cut2=GListT(Int, 3), nextseq_trim=OptT(Int), quality_base=Int,
             quality_cutoff=OptT(Str), quality_cutoff2=OptT(Str), pair_adapters=Bool, times=Int, reverse_complement=Bool,
             rename=OptT(Str), index=Bool, poly_a=Bool, length=OptT(Int), length2=OptT(Int), trim_n=Bool,
             length_tag=OptT(Str), strip_suffix=GListT(Str, 2), prefix=OptT(Str), suffix=OptT(Str), zero_cap=Bool)


@contract("cli.py", "make_pipeline_from_args", props=["C10", "C13"], name="make_pipeline_from_args:modifiers")
def builder_modifiers(c):
    """The segment of make_pipeline_from_args that assembles the modifier list (`modifiers = []` ... end)."""
    c.replay_grid = ["C10"]
    c.body_from = "modifiers = []"
    c.types(args=ArgsT, paired=Bool, adapters=SeqT(ObjT("Adapter")), adapters2=SeqT(ObjT("Adapter")), action=OptT(Str),
            steps=ObjT("StepList"))
    c.spec(order_spec)
    c.requires(single_end_has_no_R2_options="implies(not paired, len(adapters2) == 0 and len(args.cut2) == 0 and is_none(args.quality_cutoff2) and is_none(args.length2))",
               pair_adapters_needs_paired_input="implies(args.pair_adapters, paired)")
    c.raises("CommandLineError", when=None)
    M = "modifiers"
    c.ensures(
        fixed_order_cut_nextseq_quality_adapter_polyA_length_trimN_lengthtag_stripsuffix_prefixsuffix_then_zerocap_rename=f"ranks_sorted({M})",
        paired_items_are_pairs_single_items_single=f"shape({M}, paired)",
        cut_lowercase_u_on_R1_uppercase_U_on_R2=f"cut_rule({M}, args, paired)",
        nextseq_trim_on_both_reads=f"present({M}, 'NextseqQualityTrimmer') == (not is_none(args.nextseq_trim)) and "
                                   f"implies(not is_none(args.nextseq_trim), both_sides_same({M}, ['NextseqQualityTrimmer'], 'a0', val(args.nextseq_trim))) and "
                                   f"count({M}, 'NextseqQualityTrimmer') <= 1",
        quality_q_on_R1_and_on_R2_unless_Q_given=f"quality_rule({M}, args) and count({M}, 'QualityTrimmer') <= 1",
        polyA_on_R1_polyT_on_R2=f"present({M}, 'PolyATrimmer') == args.poly_a and polya_rule({M}) and count({M}, 'PolyATrimmer') <= 1",
        length_l_on_both_unless_L_given=f"shortener_rule({M}, args) and count({M}, 'Shortener') <= 1 and "
                                        f"present({M}, 'Shortener') == (not is_none(args.length) or (paired and not is_none(args.length2)))",
        shared_options_on_both_reads=f"both_sides_present({M}, ['NEndTrimmer', 'LengthTagModifier', 'SuffixRemover', 'PrefixSuffixAdder', 'ZeroCapper']) and "
                                     f"present({M}, 'NEndTrimmer') == args.trim_n and present({M}, 'ZeroCapper') == args.zero_cap and "
                                     f"present({M}, 'LengthTagModifier') == truthy(args.length_tag) and "
                                     f"count({M}, 'SuffixRemover') == len(args.strip_suffix) and "
                                     f"present({M}, 'PrefixSuffixAdder') == (truthy(args.prefix) or truthy(args.suffix))",
        one_adapter_stage=f"count({M}, 'AdapterCutter', 'PairedAdapterCutter', 'ReverseComplementer', 'PairedReverseComplementer') <= 1",
    )
    c.mutant("(PolyATrimmer(), PolyATrimmer(revcomp=True))", "(PolyATrimmer(revcomp=True), PolyATrimmer())")
    c.mutant("modifiers.append((trimmer, copy.copy(trimmer)))", "modifiers.append((trimmer, None))")
    c.mutant("modifiers.append((modifier, copy.copy(modifier)))", "modifiers.append((modifier, None))")
    c.mutant("make_shortener(args.length, args.length2, paired)", "make_shortener(args.length2, args.length, paired)")
    c.mutant("make_unconditional_cutters(args.cut, args.cut2, paired)", "make_unconditional_cutters(args.cut2, args.cut, paired)")


def extra_checks(res, tier, seed, known, log):
    from pyvc import runner
    runner.cli_grid(res, "C10", tier, seed, known, quick=30, thorough=300)
    # the rename function of the single-end renamer is generated code (exec): runtime contract as the bounded stand-in
    runner.runtime_standin(res, "C10", "cnames", "renamer", seed, 3000 if tier == "quick" else 40000, 60 if tier == "quick" else 600, prefix="C10:",
                           label="renamers: the template is expanded from the header as it is when the renamer runs (bounded)")
