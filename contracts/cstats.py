"""`Statistics.__iadd__` (report.py): how the per-chunk statistics of the worker processes are merged in the main process.
C06 says the report is the same for any number of cores: the merge must be the point-wise sum, and for the per-filter
counts also the union of the keys (a filter that discarded nothing in one chunk is still listed).  Under contract: the
first half of the method (read count, paired flag, reverse-complemented count, per-filter counts); the per-read-end half
(base totals, adapter statistics, poly-A histograms) is covered by the command-line grid only."""
import z3
from pyvc import api
from pyvc.api import contract, Int, Bool, OptT, ObjT, SeqT, schema
from pyvc.values import *  # noqa
from pyvc.calls import Mut

TRUSTED = [
    "dict iteration visits every key exactly once (the ghost fields `keys`/`pos` of a count dictionary enumerate its key set); "
    "filter names are identified by an integer id; ReadLengthStatistics.__iadd__ is abstract here",
]

AIB = z3.ArraySort(I, B)
schema("RLStatsAbstract")


def mk_countdict(name, inv):
    has, val = fresh(name + ".has", AIB), fresh(name + ".val", AII)
    keys = SeqV(fresh(name + ".keys", AII), fresh(name + ".nkeys", I), None)
    pos = fresh(name + ".pos", AII)
    j, k = z3.Int("j!cd"), z3.Int("k!cd")
    inv += [keys.n >= 0,
            z3.ForAll([j], z3.Implies(z3.And(0 <= j, j < keys.n), z3.And(has[keys.arr[j]], pos[keys.arr[j]] == j)), patterns=[keys.arr[j]]),
            z3.ForAll([k], z3.Implies(has[k], z3.And(0 <= pos[k], pos[k] < keys.n, keys.arr[pos[k]] == k)), patterns=[has[k]])]
    return ObjV("CountDict", {"has": has, "val": val, "keys": keys, "pos": pos})


class CountDictT(api.T):
    pass


_mk = api.mk


def _mk_ext(t, name, inv):
    if isinstance(t, CountDictT):
        return mk_countdict(name, inv)
    return _mk(t, name, inv)


api.mk = _mk_ext


def install(world):
    def items(ex, st, d, args, kwargs, node, spec):
        val = d.fields["val"]
        return SeqV(d.fields["keys"].arr, d.fields["keys"].n, lambda key: TupV((key, val[key])))
    world.handlers[("CountDict", "items")] = items

    def getitem(ex, st, d, idx, node, spec):
        k = idx if is_z3(idx) else z3.IntVal(idx)
        return z3.If(d.fields["has"][k], d.fields["val"][k], 0)          # defaultdict(int): a missing key reads as 0
    world.handlers[("CountDict", "__getitem__")] = getitem

    def setitem(ex, st, d, idx, v, node):
        k = idx if is_z3(idx) else z3.IntVal(idx)
        return ObjV("CountDict", {**d.fields, "has": z3.Store(d.fields["has"], k, z3.BoolVal(True)), "val": z3.Store(d.fields["val"], k, v)})
    world.handlers[("CountDict", "__setitem__")] = setitem
    world.handlers[("RLStatsAbstract", "__iadd__")] = lambda ex, st, o, a, k, n, s: Mut(o, o)


def stats_spec(cx):
    k = z3.Int("k!st")

    def has(d, key):
        return d.fields["has"][key]

    def val(d, key):
        return z3.If(d.fields["has"][key], d.fields["val"][key], 0)

    def merged_upto(new, old, other, upto):
        """`new` = `old` plus the entries of `other` whose position in other's iteration order is below `upto`"""
        done = z3.And(other.fields["has"][k], other.fields["pos"][k] < upto)
        return z3.ForAll([k], z3.And(new.fields["has"][k] == z3.Or(old.fields["has"][k], done),
                                      val(new, k) == val(old, k) + z3.If(done, other.fields["val"][k], 0)),
                         patterns=[new.fields["has"][k]])

    cx.spec.update(merged_upto=merged_upto, nkeys=lambda d: d.fields["keys"].n)


StatsT = ObjT("Statistics", n=Int, paired=OptT(Bool), reverse_complemented=OptT(Int), filtered=CountDictT(),
              read_length_statistics=ObjT("RLStatsAbstract"))


@contract("report.py", "Statistics.__iadd__", props=["C06", "C04"], name="Statistics.__iadd__:counts")
def statistics_iadd(c):
    c.body_until = "for i in (0, 1)"
    c.types(self=StatsT, other=StatsT)
    c.modifies = ["self"]
    c.runtime = {"module": "cstats", "name": "iadd"}
    c.spec(stats_spec)
    c.raises("ValueError", when="not is_none(self.paired) and (is_none(other.paired) or val(self.paired) != val(other.paired))")
    c.loop(1, head="for filter_name, count in other.filtered.items()",
           inv=["0 <= __k1 <= nkeys(other.filtered)", "merged_upto(self.filtered, old(self.filtered), other.filtered, __k1)",
                "self.n == old(self.n) + other.n"])
    c.ensures(
        read_counts_add_up="self.n == old(self.n) + other.n",
        every_filter_of_either_side_is_listed_with_the_sum_of_its_counts="merged_upto(self.filtered, old(self.filtered), other.filtered, nkeys(other.filtered))",
        reverse_complemented_counts_add_up="is_none(self.reverse_complemented) == (is_none(old(self.reverse_complemented)) and is_none(other.reverse_complemented)) and "
                                           "implies(not is_none(self.reverse_complemented), val(self.reverse_complemented) == "
                                           "(0 if is_none(old(self.reverse_complemented)) else val(old(self.reverse_complemented))) + "
                                           "(0 if is_none(other.reverse_complemented) else val(other.reverse_complemented)))",
        paired_flag_taken_over="implies(is_none(old(self.paired)), is_none(self.paired) == is_none(other.paired))",
    )
    c.mutant("self.filtered[filter_name] += count", "self.filtered[filter_name] = count")
    c.mutant("self.n += other.n", "self.n = other.n")


# ------------------------------------------------------------------------------ Statistics._collect_modifier
from pyvc.api import FixedListT, Str

TRUSTED.append("the per-adapter statistics lists (adapter_stats) are abstract in _collect_modifier: only which modifier they come from is tracked")
schema("StatsDict")
schema("AdapterStatsList", source=Int)
PAIR = FixedListT(OptT(Int), 2)
CollectT = ObjT("Statistics", with_adapters=PAIR, quality_trimmed_bp=PAIR, poly_a_trimmed_lengths=FixedListT(OptT(ObjT("Histogram")), 2),
                adapter_stats=FixedListT(ObjT("AdapterStatsList"), 2), reverse_complemented=OptT(Int))
_install_prev = install


def install(world):
    _install_prev(world)
    world.handlers[("StatsDict", "values")] = lambda ex, st, d, a, k, n, s: ObjV("AdapterStatsList", {"source": d.fields["__id__"], "__id__": fresh("id.list", I)})
    LCAT = z3.Function("LIST_CONCAT", I, I, I)
    world.handlers[("AdapterStatsList", "__iadd__")] = lambda ex, st, l, a, k, n, s: ObjV(
        "AdapterStatsList", {"source": LCAT(l.fields["source"], a[0].fields["source"]), "__id__": fresh("id.list", I)})
    prev_list = world.builtins["list"]

    def b_list(ex, st, args, kwargs, node, spec):
        if args and isinstance(args[0], ObjV) and args[0].cls == "AdapterStatsList":
            return args[0]
        return prev_list(ex, st, args, kwargs, node, spec)
    world.builtins["list"] = b_list


def collect_spec(cx):
    def lift(v):
        if isinstance(v, Opt):
            return v
        if v is None:
            return Opt(z3.BoolVal(True), z3.IntVal(0))
        return Opt(z3.BoolVal(False), v)

    def added(new, old, amount):
        """Optional[int] `new` is `old` (None counting as absent) plus amount"""
        new, old = lift(new), lift(old)
        return z3.And(z3.Not(new.none), new.val == z3.If(old.none, 0, old.val) + amount)

    def same(new, old):
        new, old = lift(new), lift(old)
        return z3.And(new.none == old.none, z3.Implies(z3.Not(old.none), new.val == old.val))

    cx.spec.update(added=added, same=same)


SAME_OTHERS = "same(self.with_adapters[0], old(self.with_adapters)[0]) and same(self.with_adapters[1], old(self.with_adapters)[1])"
SAME_Q = "same(self.quality_trimmed_bp[{k}], old(self.quality_trimmed_bp)[{k}])"
SAME_RC = "same(self.reverse_complemented, old(self.reverse_complemented))"


def collect_instance(tag, mtype, ensures, mutants=()):
    @contract("report.py", "Statistics._collect_modifier", props=["C04", "C20"], name=f"Statistics._collect_modifier@{tag}")
    def _c(c):
        c.types(self=CollectT, m=mtype)
        c.modifies = ["self"]
        c.spec(collect_spec)
        c.ensures(**ensures)
        for old, new in mutants:
            c.mutant(old, new)
    return _c


QT = ObjT("QualityTrimmer", trimmed_bases=Int)
collect_quality = collect_instance("QualityTrimmer", QT, dict(
    removed_bases_of_a_single_end_quality_trimmer_go_to_read_1="added(self.quality_trimmed_bp[0], old(self.quality_trimmed_bp)[0], m.trimmed_bases) and " + SAME_Q.format(k=1),
    nothing_else_changes=SAME_OTHERS + " and " + SAME_RC),
    mutants=[("self.quality_trimmed_bp[i] = add_if_not_none(self.quality_trimmed_bp[i], modifier.trimmed_bases)",
              "self.quality_trimmed_bp[i] = modifier.trimmed_bases")])
collect_wrapper = collect_instance("PairedEndModifierWrapper", ObjT("PairedEndModifierWrapper", _modifier1=OptT(QT), _modifier2=OptT(QT)), dict(
    each_mate_gets_the_bases_removed_by_its_own_trimmer=
    "implies(not is_none(m._modifier1), added(self.quality_trimmed_bp[0], old(self.quality_trimmed_bp)[0], val(m._modifier1).trimmed_bases)) and "
    "implies(is_none(m._modifier1), " + SAME_Q.format(k=0) + ") and "
    "implies(not is_none(m._modifier2), added(self.quality_trimmed_bp[1], old(self.quality_trimmed_bp)[1], val(m._modifier2).trimmed_bases)) and "
    "implies(is_none(m._modifier2), " + SAME_Q.format(k=1) + ")",
    nothing_else_changes=SAME_OTHERS + " and " + SAME_RC),
    mutants=[("modifiers_list = [(0, m._modifier1), (1, m._modifier2)]", "modifiers_list = [(0, m._modifier2), (1, m._modifier1)]")])
AC = ObjT("AdapterCutter", with_adapters=Int, adapter_statistics=ObjT("StatsDict"))
collect_cutter = collect_instance("AdapterCutter", AC, dict(
    reads_with_adapters_of_a_single_end_cutter_go_to_read_1="added(self.with_adapters[0], old(self.with_adapters)[0], m.with_adapters) and same(self.with_adapters[1], old(self.with_adapters)[1])",
    nothing_else_changes=SAME_Q.format(k=0) + " and " + SAME_Q.format(k=1) + " and " + SAME_RC),
    mutants=[("self.with_adapters[i] += modifier.with_adapters", "self.with_adapters[i] = modifier.with_adapters")])
collect_paired_cutter = collect_instance("PairedAdapterCutter", ObjT("PairedAdapterCutter", with_adapters=Int, adapter_statistics=FixedListT(ObjT("StatsDict"), 2)), dict(
    pairs_with_adapters_reported_for_both_mates="not is_none(self.with_adapters[0]) and val(self.with_adapters[0]) == m.with_adapters and "
                                                "not is_none(self.with_adapters[1]) and val(self.with_adapters[1]) == m.with_adapters",
    each_mate_gets_its_own_adapter_statistics="self.adapter_stats[0].source == m.adapter_statistics[0].__id__ and self.adapter_stats[1].source == m.adapter_statistics[1].__id__",
    nothing_else_changes=SAME_Q.format(k=0) + " and " + SAME_Q.format(k=1) + " and " + SAME_RC),
    mutants=[("self.adapter_stats[i] = list(m.adapter_statistics[i].values())", "self.adapter_stats[i] = list(m.adapter_statistics[0].values())")])
RC = ObjT("ReverseComplementer", adapter_cutter=AC, reverse_complemented=Int)
collect_revcomp = collect_instance("ReverseComplementer", RC, dict(
    reads_with_adapters_come_from_the_wrapped_cutter="added(self.with_adapters[0], old(self.with_adapters)[0], m.adapter_cutter.with_adapters)",
    reverse_complemented_count_taken_over="added(self.reverse_complemented, old(self.reverse_complemented), m.reverse_complemented) or "
                                          "(is_none(old(self.with_adapters)[0]) and val(self.reverse_complemented) == m.reverse_complemented)"),
    mutants=[("self.reverse_complemented = modifier.reverse_complemented", "self.reverse_complemented = modifier.adapter_cutter.with_adapters")])


# ------------------------------------------------------------------------------ Statistics.collect
CollectAllT = ObjT("Statistics", n=Int, total_bp=FixedListT(Int, 2), paired=OptT(Bool), _collected=Bool, other=Int)
schema("AnyStep")
schema("AnyModifier")


@contract("report.py", "Statistics._collect_step", props=[], name="Statistics._collect_step@abstract")
def collect_step_abstract(c):
    """call-site contract inside collect(): touches the per-step figures only"""
    c.types(self=CollectAllT, step=ObjT("AnyStep"))
    c.modifies = ["self.other"]


@contract("report.py", "Statistics._collect_modifier", props=[], name="Statistics._collect_modifier@abstract")
def collect_modifier_abstract(c):
    c.types(self=CollectAllT, m=ObjT("AnyModifier"))
    c.modifies = ["self.other"]


@contract("report.py", "Statistics.collect", props=["C04"])
def statistics_collect(c):
    """The totals handed over by the pipeline (number of reads, bases of R1 and R2) are stored unchanged; statistics can be
    collected once only."""
    c.types(self=CollectAllT, n=Int, total_bp1=Int, total_bp2=OptT(Int), modifiers=SeqT(ObjT("AnyModifier")), steps=SeqT(ObjT("AnyStep")))
    c.modifies = ["self"]
    c.raises("ValueError", when="self._collected")
    KEEP = ("self.n == n and self.total_bp[0] == total_bp1 and not is_none(self.paired) and val(self.paired) == (not is_none(total_bp2)) and "
            "implies(not is_none(total_bp2), self.total_bp[1] == val(total_bp2)) and not self._collected")
    c.loop(1, head="for step in steps", inv=[KEEP])
    c.loop(2, head="for modifier in modifiers", inv=[KEEP])
    c.ensures(
        read_count_and_base_totals_are_those_of_the_pipeline="self.n == n and self.total_bp[0] == total_bp1 and implies(not is_none(total_bp2), self.total_bp[1] == val(total_bp2))",
        paired_iff_a_second_total_is_given="not is_none(self.paired) and val(self.paired) == (not is_none(total_bp2))",
        marked_as_collected="self._collected",
    )
    c.mutant("self.total_bp[1] = total_bp2", "self.total_bp[0] = total_bp2")
    c.mutant("self.n = n", "self.n += n")


api.BY_NAME["Statistics._collect_step"] = collect_step_abstract


# ------------------------------------------------------------------------------ Statistics.__iadd__, per-read-end half
from pyvc.api import MapT
schema("AdapterStatsObj")
MERGED = z3.Function("MERGED_ADAPTER_STATS", I, I, I)
EndsT = ObjT("Statistics", total_bp=FixedListT(Int, 2), with_adapters=PAIR, quality_trimmed_bp=PAIR,
             poly_a_trimmed_lengths=FixedListT(OptT(MapT(Int)), 2), adapter_stats=FixedListT(SeqT(ObjT("AdapterStatsObj")), 2))
_install_prev2 = install


def install(world):
    _install_prev2(world)
    world.handlers[("AdapterStatsObj", "__iadd__")] = lambda ex, st, o, a, k, n, s: ObjV(
        "AdapterStatsObj", {"__id__": MERGED(o.fields["__id__"], a[0].fields["__id__"])})


def ends_spec(cx):
    collect_spec(cx)
    t_ = z3.Int("t!es")

    def opt_sum(new, a, b):
        """Optional[int]: None only if both are None, otherwise the sum with None counting as 0"""
        return z3.And(new.none == z3.And(a.none, b.none),
                      z3.Implies(z3.Not(new.none), new.val == z3.If(a.none, 0, a.val) + z3.If(b.none, 0, b.val)))

    def hist_sum(new, a, b):
        """Optional histogram: the other one if one is None, the point-wise sum otherwise"""
        k = z3.Int("k!hs")
        both = z3.And(z3.Not(a.none), z3.Not(b.none))
        return z3.And(new.none == z3.And(a.none, b.none),
                      z3.Implies(z3.And(z3.Not(a.none), b.none), new.val.arr == a.val.arr),
                      z3.Implies(z3.And(a.none, z3.Not(b.none)), new.val.arr == b.val.arr),
                      z3.Implies(both, z3.ForAll([k], new.val.arr[k] == a.val.arr[k] + b.val.arr[k])))

    def stats_merged_upto(new, a, b, upto):
        """elements below `upto` are merged pairwise, the others are still those of `a`; same length"""
        return z3.And(new.n == a.n, z3.ForAll([t_], z3.Implies(z3.And(0 <= t_, t_ < a.n), new.arr[t_] == z3.If(
            t_ < upto, MERGED(a.arr[t_], b.arr[t_]), a.arr[t_]))))

    def stats_merged(new, a, b):
        """both non-empty: pairwise merge; only the other one non-empty: taken over; otherwise unchanged"""
        return z3.And(z3.Implies(z3.And(a.n > 0, b.n > 0), stats_merged_upto(new, a, b, a.n)),
                      z3.Implies(z3.And(a.n == 0, b.n > 0), z3.And(new.n == b.n, new.arr == b.arr)),
                      z3.Implies(b.n == 0, z3.And(new.n == a.n, new.arr == a.arr)))

    cx.spec.update(opt_sum=opt_sum, hist_sum=hist_sum, stats_merged_upto=stats_merged_upto, stats_merged=stats_merged,
                   same_seq=lambda x, y: z3.And(x.n == y.n, x.arr == y.arr))


@contract("report.py", "Statistics.__iadd__", props=["C06", "C20"], name="Statistics.__iadd__:per_read_end")
def statistics_iadd_ends(c):
    """Second half of the merge: for R1 and R2 separately, base totals, reads with adapters and quality-trimmed bases add up
    (None = not collected), poly-A histograms add point-wise, per-adapter statistics are merged adapter by adapter."""
    c.body_from = "for i in (0, 1)"
    c.body_until = "return self"
    c.types(self=EndsT, other=EndsT)
    c.modifies = ["self"]
    c.runtime = {"module": "cstats", "name": "iadd"}
    c.spec(ends_spec)
    c.raises("ValueError", when=None)
    c.requires(counts_not_negative="True")
    c.loop(2, head="for j in range(len(self.adapter_stats[i]))", inv=[
        "0 <= j_next <= len(self.adapter_stats[i]) and len(other.adapter_stats[i]) == len(old(self.adapter_stats)[i]) and len(old(self.adapter_stats)[i]) > 0",
        "stats_merged_upto(self.adapter_stats[i], old(self.adapter_stats)[i], other.adapter_stats[i], j_next)",
        "implies(i == 0, same_seq(self.adapter_stats[1], old(self.adapter_stats)[1]))",
        "implies(i == 1, stats_merged(self.adapter_stats[0], old(self.adapter_stats)[0], other.adapter_stats[0]))",
    ])
    ens = {}
    for k in (0, 1):
        ens[f"read_{k + 1}_base_totals_add_up"] = f"self.total_bp[{k}] == old(self.total_bp)[{k}] + other.total_bp[{k}]"
        ens[f"read_{k + 1}_reads_with_adapters_and_quality_trimmed_bases_add_up"] = (
            f"opt_sum(self.with_adapters[{k}], old(self.with_adapters)[{k}], other.with_adapters[{k}]) and "
            f"opt_sum(self.quality_trimmed_bp[{k}], old(self.quality_trimmed_bp)[{k}], other.quality_trimmed_bp[{k}])")
        ens[f"read_{k + 1}_poly_a_histograms_add_pointwise"] = f"hist_sum(self.poly_a_trimmed_lengths[{k}], old(self.poly_a_trimmed_lengths)[{k}], other.poly_a_trimmed_lengths[{k}])"
        ens[f"read_{k + 1}_adapter_statistics_merged_adapter_by_adapter"] = f"stats_merged(self.adapter_stats[{k}], old(self.adapter_stats)[{k}], other.adapter_stats[{k}])"
    c.ensures(**ens)
    c.mutant("self.total_bp[i] += other.total_bp[i]", "self.total_bp[i] += other.total_bp[0]")
    c.mutant("self.adapter_stats[i][j] += other.adapter_stats[i][j]", "self.adapter_stats[i][j] += other.adapter_stats[i][0]")


# ------------------------------------------------------------------------------ per-adapter statistics: __iadd__
from pyvc.api import KwDictT, Real
schema("EndStatsAbs")
MERGED_END = z3.Function("MERGED_END_STATISTICS", I, I, I)
_install_prev3 = install


def install(world):
    _install_prev3(world)
    world.handlers[("EndStatsAbs", "__iadd__")] = lambda ex, st, o, a, k, n, s: ObjV(
        "EndStatsAbs", {"__id__": MERGED_END(o.fields["__id__"], a[0].fields["__id__"])})


def adapter_stats_iadd(cls, ends):
    fields = {e: ObjT("EndStatsAbs") for e in ends}
    T_ = ObjT(cls, reverse_complemented=Int, **fields)

    @contract("adapters.py", f"{cls}.__iadd__", props=["C20", "C06"])
    def _c(c):
        """merging the statistics of two chunks: each end with the same end of the other, counts add up"""
        c.types(self=T_, other=T_)
        c.returns(T_)
        c.modifies = ["self"]
        c.spec(lambda cx: cx.spec.update(merged_end=lambda a, b: MERGED_END(a.fields["__id__"], b.fields["__id__"])))
        c.raises("ValueError", when=None)
        ens = {f"{e}_statistics_merged_with_the_others_{e}": f"self.{e}.__id__ == merged_end(old(self.{e}), other.{e})" for e in ends}
        ens["reverse_complemented_counts_add_up"] = "self.reverse_complemented == old(self.reverse_complemented) + other.reverse_complemented"
        c.ensures(**ens)
        if len(ends) == 2:
            c.mutant("self.back += other.back", "self.back += other.front")
        else:
            c.mutant("self.reverse_complemented += other.reverse_complemented", "self.reverse_complemented = other.reverse_complemented")
    return _c


single_stats_iadd = adapter_stats_iadd("SingleAdapterStatistics", ["end"])
linked_stats_iadd = adapter_stats_iadd("LinkedAdapterStatistics", ["front", "back"])
anywhere_stats_iadd = adapter_stats_iadd("AnywhereAdapterStatistics", ["front", "back"])

BasesT = KwDictT(**{k: Int for k in ("A", "C", "G", "T", "")})
EndT2 = ObjT("EndStatistics", max_error_rate=Real, sequence=Str, effective_length=Int, indels=Bool, adjacent_bases=BasesT)


@contract("adapters.py", "EndStatistics.__iadd__", props=["C20", "C06"], name="EndStatistics.__iadd__:adjacent_bases")
def end_stats_iadd(c):
    """first part of the merge of two end statistics: only statistics of the same adapter are merged, and the counts of the
    bases adjacent to 3' matches add up base by base (the length x errors histogram is merged by the loop that follows,
    which is covered by the command-line comparison of core counts only)"""
    c.body_until = "for length, error_dict in other.errors.items()"
    c.types(self=EndT2, other=EndT2)
    c.modifies = ["self.adjacent_bases"]
    c.raises("ValueError", when=None)
    c.raises("RuntimeError", when="self.max_error_rate != other.max_error_rate or not seq_eq(self.sequence, other.sequence) or "
                                   "self.effective_length != other.effective_length or self.indels != other.indels")
    c.requires(all_five_keys_present=" and ".join(f"'{k}' in self.adjacent_bases and '{k}' in other.adjacent_bases" for k in ("A", "C", "G", "T", "")))
    c.ensures(**{("adjacent_" + (k or "none") + "_counts_add_up"): f"self.adjacent_bases['{k}'] == old(self.adjacent_bases)['{k}'] + other.adjacent_bases['{k}']"
                 for k in ("A", "C", "G", "T", "")})
    c.mutant("self.adjacent_bases[base] += other.adjacent_bases[base]", "self.adjacent_bases[base] = other.adjacent_bases[base]")


# ------------------------------------------------------------------------------ EndStatistics.__iadd__: length x errors histogram
A2 = z3.ArraySort(I, AII)


class Hist2DT(api.T):
    """defaultdict(length -> defaultdict(errors -> count)) in the total-map view (absent = 0) together with the enumeration
    of its keys that iterating over it follows (outer keys, and for each outer key its inner keys)"""


def mk_hist2d(name, inv, enumerated=True):
    val = fresh(name + ".val", A2)
    okeys = SeqV(fresh(name + ".okeys", AII), fresh(name + ".nokeys", I), None)
    opos = fresh(name + ".opos", AII)
    ikeys, ilen, ipos = fresh(name + ".ikeys", A2), fresh(name + ".ilen", AII), fresh(name + ".ipos", A2)
    if enumerated:
        j, l, e = z3.Int("j!h2"), z3.Int("l!h2"), z3.Int("e!h2")
        inv += [okeys.n >= 0,
                z3.ForAll([j], z3.Implies(z3.And(0 <= j, j < okeys.n), opos[okeys.arr[j]] == j), patterns=[okeys.arr[j]]),
                z3.ForAll([l], ilen[l] >= 0, patterns=[ilen[l]]),
                z3.ForAll([l, j], z3.Implies(z3.And(0 <= j, j < ilen[l]), ipos[l][ikeys[l][j]] == j), patterns=[ikeys[l][j]]),
                # every non-zero cell is reached by the iteration
                z3.ForAll([l, e], z3.Implies(val[l][e] != 0, z3.And(0 <= opos[l], opos[l] < okeys.n, okeys.arr[opos[l]] == l,
                                                                      0 <= ipos[l][e], ipos[l][e] < ilen[l], ikeys[l][ipos[l][e]] == e)),
                          patterns=[val[l][e]])]
    return ObjV("Hist2D", {"val": val, "okeys": okeys, "opos": opos, "ikeys": ikeys, "ilen": ilen, "ipos": ipos})


_mk2 = api.mk


def _mk_ext2(t, name, inv):
    if isinstance(t, Hist2DT):
        return mk_hist2d(name, inv)
    return _mk2(t, name, inv)


api.mk = _mk_ext2
_install_prev4 = install


def install(world):
    _install_prev4(world)

    def h_items(ex, st, h, args, kwargs, node, spec):
        f = h.fields
        return SeqV(f["okeys"].arr, f["okeys"].n, lambda l: TupV((l, ObjV("HistRow", {"arr": f["val"][l], "keys": f["ikeys"][l], "nkeys": f["ilen"][l]}))))
    world.handlers[("Hist2D", "items")] = h_items
    world.handlers[("Hist2D", "__getitem__")] = lambda ex, st, h, idx, node, spec: ObjV("HistRow", {
        "arr": h.fields["val"][idx], "keys": h.fields["ikeys"][idx], "nkeys": h.fields["ilen"][idx]})
    world.handlers[("Hist2D", "__setitem__")] = lambda ex, st, h, idx, v, node: ObjV("Hist2D", {**h.fields, "val": z3.Store(h.fields["val"], idx, v.fields["arr"])})
    world.handlers[("HistRow", "__getitem__")] = lambda ex, st, r, idx, node, spec: r.fields["arr"][idx]
    world.handlers[("HistRow", "__setitem__")] = lambda ex, st, r, idx, v, node: ObjV("HistRow", {**r.fields, "arr": z3.Store(r.fields["arr"], idx, v)})
    world.handlers[("HistRow", "__iter__")] = lambda ex, st, r, a, k, n, s: SeqV(r.fields["keys"], r.fields["nkeys"], None)


def hist_spec(cx):
    l, e = z3.Int("l!hs"), z3.Int("e!hs")

    def merged_cells(new, old, other, k1, k2):
        """every cell of `new` is the cell of `old` plus the cell of `other` if the iteration has passed it: outer position
        below k1, or outer position k1 and inner position below k2"""
        o = other.fields
        done = z3.Or(o["opos"][l] < k1, z3.And(o["opos"][l] == k1, o["ipos"][l][e] < k2))
        reached = z3.And(o["val"][l][e] != 0, done)
        return z3.ForAll([l, e], new.fields["val"][l][e] == old.fields["val"][l][e] + z3.If(reached, o["val"][l][e], 0),
                         patterns=[new.fields["val"][l][e]])

    def sum_of_cells(new, old, other):
        return z3.ForAll([l, e], new.fields["val"][l][e] == old.fields["val"][l][e] + other.fields["val"][l][e],
                         patterns=[new.fields["val"][l][e]])

    cx.spec.update(merged_cells=merged_cells, sum_of_cells=sum_of_cells, n_outer=lambda h: h.fields["okeys"].n)


HistEndT = ObjT("EndStatistics", errors=Hist2DT())


@contract("adapters.py", "EndStatistics.__iadd__", props=["C20", "C06"], name="EndStatistics.__iadd__:histogram")
def end_stats_iadd_hist(c):
    """second part: the removed-length x error-count histogram of the other chunk is added cell by cell"""
    c.body_from = "for length, error_dict in other.errors.items()"
    c.body_until = "return self"
    c.types(self=HistEndT, other=HistEndT)
    c.modifies = ["self.errors"]
    c.spec(hist_spec)
    c.loop(1, head="for length, error_dict in other.errors.items()",
           inv=["0 <= __k1 <= n_outer(other.errors)", "merged_cells(self.errors, old(self.errors), other.errors, __k1, 0)"])
    c.loop(2, head="for errors in error_dict",
           inv=["0 <= __k1 < n_outer(other.errors) and __k2 >= 0", "merged_cells(self.errors, old(self.errors), other.errors, __k1, __k2)"])
    c.ensures(every_cell_is_the_sum_of_the_two_cells="sum_of_cells(self.errors, old(self.errors), other.errors)")
    c.mutant("self.errors[length][errors] += other.errors[length][errors]", "self.errors[length][errors] = other.errors[length][errors]")
    c.mutant("self.errors[length][errors] += other.errors[length][errors]", "self.errors[errors][length] += other.errors[length][errors]")


# ------------------------------------------------------------------------------ ReadLengthStatistics.__iadd__
RLStatsT = ObjT("ReadLengthStatistics", _written_lengths1=CountDictT(), _written_lengths2=CountDictT())


@contract("statistics.py", "ReadLengthStatistics.__iadd__", props=["C06", "C04"])
def read_length_statistics_iadd(c):
    """merging the histograms of written read lengths of two chunks: for R1 and for R2 every length is listed with the sum
    of its two counts (so the written-reads and written-bases figures of the report add up over the chunks)"""
    c.types(self=RLStatsT, other=RLStatsT)
    c.runtime = {"module": "cstats", "name": "read_length_iadd"}
    c.returns(RLStatsT)
    c.modifies = ["self"]
    c.spec(stats_spec)
    c.inline.update({"ReadLengthStatistics.written_lengths"})
    c.loop(1, head="for length, count in written_lengths1.items()",
           inv=["0 <= __k1 <= nkeys(other._written_lengths1)",
                "merged_upto(self._written_lengths1, old(self._written_lengths1), other._written_lengths1, __k1)",
                "merged_upto(self._written_lengths2, old(self._written_lengths2), other._written_lengths2, 0)"])
    c.loop(2, head="for length, count in written_lengths2.items()",
           inv=["0 <= __k2 <= nkeys(other._written_lengths2)",
                "merged_upto(self._written_lengths1, old(self._written_lengths1), other._written_lengths1, nkeys(other._written_lengths1))",
                "merged_upto(self._written_lengths2, old(self._written_lengths2), other._written_lengths2, __k2)"])
    c.ensures(read_1_lengths_add_up="merged_upto(self._written_lengths1, old(self._written_lengths1), other._written_lengths1, nkeys(other._written_lengths1))",
              read_2_lengths_add_up="merged_upto(self._written_lengths2, old(self._written_lengths2), other._written_lengths2, nkeys(other._written_lengths2))")
    c.mutant("self._written_lengths2[length] += count", "self._written_lengths1[length] += count")
