"""`Statistics.__iadd__` (report.py): how the per-chunk statistics of the worker processes are merged in the main process.
C06 says the report is the same for any number of cores: the merge must be the point-wise sum, and for the per-filter
counts also the union of the keys (a filter that discarded nothing in one chunk is still listed).  Under contract: the
first half of the method (read count, paired flag, reverse-complemented count, per-filter counts); the per-read-end half
(base totals, adapter statistics, poly-A histograms) is covered by the command-line grid only."""
import z3
from pyvc import api
from pyvc.api import contract, Int, Bool, OptT, ObjT, SeqT, schema
from pyvc.values import *  # noqa
from pyvc.calls import Mut

TRUSTED = [
    "dict iteration visits every key exactly once (the ghost fields `keys`/`pos` of a count dictionary enumerate its key set); "
    "filter names are identified by an integer id; ReadLengthStatistics.__iadd__ is abstract here",
]

AIB = z3.ArraySort(I, B)
schema("RLStatsAbstract")


def mk_countdict(name, inv):
    has, val = fresh(name + ".has", AIB), fresh(name + ".val", AII)
    keys = SeqV(fresh(name + ".keys", AII), fresh(name + ".nkeys", I), None)
    pos = fresh(name + ".pos", AII)
    j, k = z3.Int("j!cd"), z3.Int("k!cd")
    inv += [keys.n >= 0,
            z3.ForAll([j], z3.Implies(z3.And(0 <= j, j < keys.n), z3.And(has[keys.arr[j]], pos[keys.arr[j]] == j)), patterns=[keys.arr[j]]),
            z3.ForAll([k], z3.Implies(has[k], z3.And(0 <= pos[k], pos[k] < keys.n, keys.arr[pos[k]] == k)), patterns=[has[k]])]
    return ObjV("CountDict", {"has": has, "val": val, "keys": keys, "pos": pos})


class CountDictT(api.T):
    pass


_mk = api.mk


def _mk_ext(t, name, inv):
    if isinstance(t, CountDictT):
        return mk_countdict(name, inv)
    return _mk(t, name, inv)


api.mk = _mk_ext


def install(world):
    def items(ex, st, d, args, kwargs, node, spec):
        val = d.fields["val"]
        return SeqV(d.fields["keys"].arr, d.fields["keys"].n, lambda key: TupV((key, val[key])))
    world.handlers[("CountDict", "items")] = items

    def getitem(ex, st, d, idx, node, spec):
        k = idx if is_z3(idx) else z3.IntVal(idx)
        return z3.If(d.fields["has"][k], d.fields["val"][k], 0)          # defaultdict(int): a missing key reads as 0
    world.handlers[("CountDict", "__getitem__")] = getitem

    def setitem(ex, st, d, idx, v, node):
        k = idx if is_z3(idx) else z3.IntVal(idx)
        return ObjV("CountDict", {**d.fields, "has": z3.Store(d.fields["has"], k, z3.BoolVal(True)), "val": z3.Store(d.fields["val"], k, v)})
    world.handlers[("CountDict", "__setitem__")] = setitem
    world.handlers[("RLStatsAbstract", "__iadd__")] = lambda ex, st, o, a, k, n, s: Mut(o, o)


def stats_spec(cx):
    k = z3.Int("k!st")

    def has(d, key):
        return d.fields["has"][key]

    def val(d, key):
        return z3.If(d.fields["has"][key], d.fields["val"][key], 0)

    def merged_upto(new, old, other, upto):
        """`new` = `old` plus the entries of `other` whose position in other's iteration order is below `upto`"""
        done = z3.And(other.fields["has"][k], other.fields["pos"][k] < upto)
        return z3.ForAll([k], z3.And(new.fields["has"][k] == z3.Or(old.fields["has"][k], done),
                                      val(new, k) == val(old, k) + z3.If(done, other.fields["val"][k], 0)),
                         patterns=[new.fields["has"][k]])

    cx.spec.update(merged_upto=merged_upto, nkeys=lambda d: d.fields["keys"].n)


StatsT = ObjT("Statistics", n=Int, paired=OptT(Bool), reverse_complemented=OptT(Int), filtered=CountDictT(),
              read_length_statistics=ObjT("RLStatsAbstract"))


@contract("report.py", "Statistics.__iadd__", props=["C06", "C04"], name="Statistics.__iadd__:counts")
def statistics_iadd(c):
    c.body_until = "for i in (0, 1)"
    c.types(self=StatsT, other=StatsT)
    c.modifies = ["self"]
    c.runtime = {"module": "cstats", "name": "iadd"}
    c.spec(stats_spec)
    c.raises("ValueError", when="not is_none(self.paired) and (is_none(other.paired) or val(self.paired) != val(other.paired))")
    c.loop(1, head="for filter_name, count in other.filtered.items()",
           inv=["0 <= __k1 <= nkeys(other.filtered)", "merged_upto(self.filtered, old(self.filtered), other.filtered, __k1)",
                "self.n == old(self.n) + other.n"])
    c.ensures(
        read_counts_add_up="self.n == old(self.n) + other.n",
        every_filter_of_either_side_is_listed_with_the_sum_of_its_counts="merged_upto(self.filtered, old(self.filtered), other.filtered, nkeys(other.filtered))",
        reverse_complemented_counts_add_up="is_none(self.reverse_complemented) == (is_none(old(self.reverse_complemented)) and is_none(other.reverse_complemented)) and "
                                           "implies(not is_none(self.reverse_complemented), val(self.reverse_complemented) == "
                                           "(0 if is_none(old(self.reverse_complemented)) else val(old(self.reverse_complemented))) + "
                                           "(0 if is_none(other.reverse_complemented) else val(other.reverse_complemented)))",
        paired_flag_taken_over="implies(is_none(old(self.paired)), is_none(self.paired) == is_none(other.paired))",
    )
    c.mutant("self.filtered[filter_name] += count", "self.filtered[filter_name] = count")
    c.mutant("self.n += other.n", "self.n = other.n")
