"""C15 — demultiplexing puts every read into the file of its adapter."""
import z3
from pyvc import api, heap
from pyvc.api import contract, Int, Bool, Str, OptT, ObjT, TupT, SeqT, schema
from pyvc.values import *  # noqa
from .common import Record
from .shapes import MatchT, InfoT
from .c04 import WriterT, RLS, step_spec, G0, WROTE_ONE, NO_WRITE

TRUSTED = [
    "the writer dictionaries map adapter names (name pairs) to writer objects: uninterpreted functions WRITER_FOR / WRITER_FOR2 "
    "with membership HAS_WRITER / HAS_WRITER2; str.replace is an uninterpreted function of its arguments",
    "adapter names of all matches are among the names the demultiplexer was built with (adapters_from_args)",
]

schema("WritersMap")
schema("WritersMap2")
WFOR = z3.Function("WRITER_FOR", I, AII, I, I)
WHAS = z3.Function("HAS_WRITER", I, AII, I, B)
WFOR2 = z3.Function("WRITER_FOR2", I, B, AII, I, B, AII, I, I)
WHAS2 = z3.Function("HAS_WRITER2", I, B, AII, I, B, AII, I, B)


def _key2(k):
    out = []
    for it in k.items:
        if it is None:
            out += [z3.BoolVal(True), z3.K(I, z3.IntVal(0)), z3.IntVal(0)]
        elif isinstance(it, Opt):
            s = as_str(it.val)
            out += [it.none, z3.If(it.none, z3.K(I, z3.IntVal(0)), s.arr), z3.If(it.none, 0, s.n)]
        else:
            s = as_str(it)
            out += [z3.BoolVal(False), s.arr, s.n]
    return out


def wm_get(ex, st, m, idx, node, spec):
    s = as_str(idx)
    if not spec:
        ex.cx.pending.append((z3.Not(WHAS(m.fields["__id__"], s.arr, s.n)), "KeyError"))
    return ObjV("Writer", {"__id__": WFOR(m.fields["__id__"], s.arr, s.n)})


def wm2_get(ex, st, m, idx, node, spec):
    k = _key2(idx)
    if not spec:
        ex.cx.pending.append((z3.Not(WHAS2(m.fields["__id__"], *k)), "KeyError"))
    return ObjV("Writer", {"__id__": WFOR2(m.fields["__id__"], *k)})


def demux_spec(cx):
    step_spec(cx)
    if "writer_for" in cx.spec:
        return
    cx.spec["writer_for"] = lambda m, name: ObjV("Writer", {"__id__": WFOR(m.fields["__id__"], as_str(name).arr, as_str(name).n)})
    cx.spec["has_writer"] = lambda m, name: WHAS(m.fields["__id__"], as_str(name).arr, as_str(name).n)
    cx.spec["writer_for2"] = lambda m, a, b: ObjV("Writer", {"__id__": WFOR2(m.fields["__id__"], *_key2(TupV((a, b))))})
    cx.spec["has_writer2"] = lambda m, a, b: WHAS2(m.fields["__id__"], *_key2(TupV((a, b))))

    def contains(ex, x, y, st):
        if isinstance(y, ObjV) and y.cls == "WritersMap2":
            return WHAS2(y.fields["__id__"], *_key2(x))
        if isinstance(y, ObjV) and y.cls == "WritersMap":
            return WHAS(y.fields["__id__"], as_str(x).arr, as_str(x).n)
        return None

    cx.spec["__contains__"] = contains


def install(world):
    world.handlers[("WritersMap", "__getitem__")] = wm_get
    world.handlers[("WritersMap2", "__getitem__")] = wm2_get


LAST = lambda info: f"elem({info}.matches, len({info}.matches) - 1).adapter.name"

DemuxT = ObjT("Demultiplexer", _writers=ObjT("WritersMap"), _untrimmed_writer=OptT(WriterT), _statistics=RLS, _filtered=Int)


@contract("steps.py", "Demultiplexer.__call__", props=["C15", "C04"])
def demultiplexer_call(c):
    c.types(self=DemuxT, read=Record, info=InfoT)
    c.returns(OptT(Record))
    c.modifies = ["self"]
    c.spec(demux_spec)
    c.requires(adapter_names_have_files=f"implies(len(info.matches) > 0, has_writer(self._writers, {LAST('info')}))")
    c.ghost(G0, at_start=True)
    STAT1 = "lengths_plus_one(self._statistics._written_lengths1, old(self._statistics._written_lengths1), len(read.sequence))"
    c.ensures(
        consumes_every_read="is_none(result)",
        trimmed_read_goes_to_the_file_of_its_last_match=f"implies(len(info.matches) > 0, {WROTE_ONE('writer_for(self._writers, ' + LAST('info') + ')', 'read')} and {STAT1} and self._filtered == old(self._filtered))",
        untrimmed_read_goes_to_the_untrimmed_file=f"implies(len(info.matches) == 0 and not is_none(self._untrimmed_writer), {WROTE_ONE('val(self._untrimmed_writer)', 'read')} and {STAT1} and self._filtered == old(self._filtered))",
        untrimmed_read_discarded_and_counted_without_untrimmed_file=f"implies(len(info.matches) == 0 and is_none(self._untrimmed_writer), {NO_WRITE} and self._filtered == old(self._filtered) + 1 and "
                                                                    "map_same(self._statistics._written_lengths1, old(self._statistics._written_lengths1)))",
    )
    c.mutant("info.matches[-1]", "info.matches[0]")
    c.mutant("self._filtered += 1", "pass")
    c.mutant("elif self._untrimmed_writer is not None:", "if self._untrimmed_writer is not None:")


PDemuxT = ObjT("PairedDemultiplexer", _writers=ObjT("WritersMap"), _untrimmed_writer=OptT(WriterT), _statistics=RLS, _filtered=Int)


@contract("steps.py", "PairedDemultiplexer.__call__", props=["C15", "C04", "C05"])
def paired_demultiplexer_call(c):
    c.types(self=PDemuxT, read1=Record, read2=Record, info1=InfoT, info2=InfoT)
    c.returns(OptT(TupT(Record, Record)))
    c.modifies = ["self"]
    c.spec(demux_spec)
    c.requires(adapter_names_have_files=f"implies(len(info1.matches) > 0, has_writer(self._writers, {LAST('info1')}))")
    c.ghost(G0, at_start=True)
    STAT2 = ("lengths_plus_one(self._statistics._written_lengths1, old(self._statistics._written_lengths1), len(read1.sequence)) and "
             "lengths_plus_one(self._statistics._written_lengths2, old(self._statistics._written_lengths2), len(read2.sequence))")
    c.ensures(
        consumes_every_pair="is_none(result)",
        pair_goes_to_the_files_of_the_last_R1_match=f"implies(len(info1.matches) > 0, {WROTE_ONE('writer_for(self._writers, ' + LAST('info1') + ')', 'read1', 'read2')} and {STAT2})",
        untrimmed_pair_goes_to_the_untrimmed_files=f"implies(len(info1.matches) == 0 and not is_none(self._untrimmed_writer), {WROTE_ONE('val(self._untrimmed_writer)', 'read1', 'read2')} and {STAT2})",
        untrimmed_pair_discarded_and_counted=f"implies(len(info1.matches) == 0 and is_none(self._untrimmed_writer), {NO_WRITE} and self._filtered == old(self._filtered) + 1)",
    )
    c.mutant("self._writers[name].write(read1, read2)", "self._writers[name].write(read2, read1)")
    c.mutant("if info1.matches:", "if info2.matches:")


CDemuxT = ObjT("CombinatorialDemultiplexer", _writers=ObjT("WritersMap2"), _statistics=RLS, _filtered=Int)
N1 = f"({LAST('info1')} if len(info1.matches) > 0 else None)"
N2 = f"({LAST('info2')} if len(info2.matches) > 0 else None)"


@contract("steps.py", "CombinatorialDemultiplexer.__call__", props=["C15", "C04", "C05"])
def combinatorial_demultiplexer_call(c):
    c.types(self=CDemuxT, read1=Record, read2=Record, info1=InfoT, info2=InfoT)
    c.returns(OptT(TupT(Record, Record)))
    c.modifies = ["self"]
    c.spec(demux_spec)
    c.ghost(G0, at_start=True)
    HAS = f"has_writer2(self._writers, {N1}, {N2})"
    c.ensures(
        consumes_every_pair="is_none(result)",
        pair_goes_to_the_file_of_its_name_combination=f"implies({HAS}, {WROTE_ONE('writer_for2(self._writers, ' + N1 + ', ' + N2 + ')', 'read1', 'read2')} and "
                                                      "lengths_plus_one(self._statistics._written_lengths1, old(self._statistics._written_lengths1), len(read1.sequence)) and "
                                                      "lengths_plus_one(self._statistics._written_lengths2, old(self._statistics._written_lengths2), len(read2.sequence)) and "
                                                      "self._filtered == old(self._filtered))",
        unmatched_combination_counted_as_discarded=f"implies(not {HAS}, {NO_WRITE} and self._filtered == old(self._filtered) + 1)",
    )
    c.mutant("name2 = info2.matches[-1].adapter.name if info2.matches else None", "name2 = info1.matches[-1].adapter.name if info1.matches else None")
    c.mutant("self._filtered += 1", "pass")


@contract("cli.py", "determine_demultiplex_mode", props=["C15"])
def determine_demultiplex_mode(c):
    c.types(output=OptT(Str), paired_output=OptT(Str))
    N = lambda s: f"(not is_none({s}) and '{{name}}' in val({s}))"
    N1 = lambda s: f"(not is_none({s}) and '{{name1}}' in val({s}))"
    N2 = lambda s: f"(not is_none({s}) and '{{name2}}' in val({s}))"
    COMB = f"({N1('output')} and {N2('output')} and {N1('paired_output')} and {N2('paired_output')})"
    MISMATCH = f"(not is_none(paired_output) and {N('output')} != {N('paired_output')})"
    c.raises("CommandLineError", when=f"{MISMATCH} or ({N('output')} and {COMB})")
    c.ensures(
        normal_iff_name_placeholder=f"seq_eq_or_false(result, 'normal') == {N('output')}",
        combinatorial_iff_both_placeholders_in_both_paths=f"seq_eq_or_false(result, 'combinatorial') == (not {N('output')} and {COMB})",
        otherwise_false=f"implies(not {N('output')} and not {COMB}, is_false(result))",
    )
    c.mutant("'{name2}' in paired_output", "'{name1}' in paired_output")
    c.mutant("if demultiplex:", "if demultiplex_combinatorial:")


def _mode_spec(cx):
    from pyvc.engine import str_eq
    def seq_eq_or_false(v, const):
        if isinstance(v, PyConst) and isinstance(v.v, str):
            return z3.BoolVal(v.v == const.v)
        if isinstance(v, (StrV,)):
            return str_eq(v, const)
        return z3.BoolVal(False)
    cx.spec["seq_eq_or_false"] = seq_eq_or_false
    cx.spec["is_false"] = lambda v: z3.BoolVal(isinstance(v, z3.BoolRef) and z3.is_false(v))


determine_demultiplex_mode.specs.append(_mode_spec)


def extra_checks(res, tier, seed, known, log):
    from pyvc import runner
    runner.cli_grid(res, "C15", tier, seed, known)
    # CombinatorialDemultiplexer._open_writers (itertools.product, pair keys) is not under a static contract: runtime form
    runner.runtime_standin(res, "C15", "cdemux", "combinatorial_open_writers", seed, 3000 if tier == "quick" else 40000, 60 if tier == "quick" else 300,
                           label="CombinatorialDemultiplexer._open_writers: a writer for every name combination on the path named after it (bounded)")
