"""C09 — best adapter, rounds, linked adapters."""
import z3
from pyvc import api, heap
from pyvc.api import contract, Int, Bool, Str, OptT, ObjT, TupT, SeqT, schema
from pyvc.values import *  # noqa
from pyvc.engine import str_slice
from .shapes import MatchT, SingleMatchT, InfoT, AdapterT, match_spec, match_spec2, record_spec, tags

TRUSTED = [
    "each adapter's match_to is a deterministic function of (adapter, sequence) — modelled by the uninterpreted function MT",
    "the two parts of a LinkedAdapter are a 5' and a 3' single adapter (their matches are RemoveBeforeMatch resp. RemoveAfterMatch); "
    "established by parser._make_linked_adapter",
]

schema("Matchable", name=Str, __cls__=Int)
MatchableT = ObjT("Matchable")
MultipleT = ObjT("MultipleAdapters", _adapters=SeqT(MatchableT))

MT_ID = z3.Function("MT.id", I, AII, I, I)         # id of the match object adapter `id` reports on string (arr, n)
MT_NONE = z3.Function("MT.none", I, AII, I, B)     # ... or None
ONLY_RB = z3.Function("only_front_matches", I, B)
ONLY_RA = z3.Function("only_back_matches", I, B)


def mt_spec(cx):
    match_spec2(cx)
    if "mt_none" in cx.spec:
        return
    from pyvc import verify
    w = verify.world()
    RB, RA, LM = tags(w)
    LA = w.cls_tag("LinkedAdapter")

    def mt_none(adapter, s):
        s = as_str(s)
        return MT_NONE(adapter.fields["__id__"], s.arr, s.n)

    def mt(adapter, s):
        s = as_str(s)
        return heap.read(MatchT, "Match", "", MT_ID(adapter.fields["__id__"], s.arr, s.n))

    def heap_bound(m):
        """The object's fields are the heap's fields for its id (objects are immutable)."""
        out = []
        heap.facts(MatchT, "Match", "", m.fields["__id__"], m, out)
        return z3.And(*out)

    def score_of(m):
        t = m.fields["__cls__"]
        f, b = m.fields["front_match"], m.fields["back_match"]
        return z3.If(t == LM, z3.If(z3.Not(f.none), f.val.fields["score"], 0) + z3.If(z3.Not(b.none), b.val.fields["score"], 0),
                     m.fields["score"])

    def errors_of(m):
        t = m.fields["__cls__"]
        f, b = m.fields["front_match"], m.fields["back_match"]
        return z3.If(t == LM, z3.If(z3.Not(f.none), f.val.fields["errors"], 0) + z3.If(z3.Not(b.none), b.val.fields["errors"], 0),
                     m.fields["errors"])

    def better(a, b):
        """a is strictly preferred to b: higher score, then fewer errors."""
        return z3.Or(score_of(a) > score_of(b), z3.And(score_of(a) == score_of(b), errors_of(a) < errors_of(b)))

    def not_worse(a, b):
        return z3.Or(score_of(a) > score_of(b), z3.And(score_of(a) == score_of(b), errors_of(a) <= errors_of(b)))

    def no_linked(multi):
        seq = multi.fields["_adapters"]
        t = z3.Int("t!nl")
        a = heap.named_array(cx, seq.arr)
        return z3.ForAll([t], z3.Implies(z3.And(0 <= t, t < seq.n), heap.seq_elem(seq, a[t]).fields["__cls__"] != LA), patterns=[a[t]])

    cx.spec.update(no_linked=no_linked, mt_none=mt_none, mt=mt, heap_bound=heap_bound, score_of=score_of, errors_of=errors_of, better=better,
                   not_worse=not_worse, LA=lambda: z3.IntVal(LA),
                   only_rb=lambda a: ONLY_RB(a.fields["__id__"]), only_ra=lambda a: ONLY_RA(a.fields["__id__"]))


@contract("adapters.py", "Matchable.match_to", props=[], name="Matchable.match_to")
def matchable_match_to(c):
    """Abstract contract of every match_to (assumed here; each concrete class is checked against it in C01/C08)."""
    c.types(self=MatchableT, sequence=Str)
    c.returns(OptT(MatchT))
    c.spec(mt_spec)
    c.covers_subclasses = True
    c.ensures(
        deterministic="is_none(result) == mt_none(self, sequence) and implies(not is_none(result), "
                      "val(result).__id__ == mt(self, sequence).__id__ and heap_bound(val(result)))",
        wellformed_on_this_string="implies(not is_none(result), wf(val(result)) and mlen(val(result)) == len(sequence))",
        linked_only_from_linked="implies(not is_none(result) and self.__cls__ != LA(), val(result).__cls__ != LM())",
        front_types="implies(not is_none(result) and only_rb(self), val(result).__cls__ == RB())",
        back_types="implies(not is_none(result) and only_ra(self), val(result).__cls__ == RA())",
    )


@contract("adapters.py", "MultipleAdapters.match_to", props=["C09"])
def multiple_match_to(c):
    c.runtime = {"module": "cmods", "name": "best_match", "replay_count": 3000}
    c.types(self=MultipleT, sequence=Str)
    c.returns(OptT(MatchT))
    c.spec(mt_spec)
    c.ghost_results = ["w"]
    c.local_types["best_match"] = OptT(MatchT)
    c.ghost("w = -1", at_start=True)
    c.ghost("w = __k1", before="best_match = match")
    A = "self._adapters"
    M = lambda t: f"mt(elem({A}, {t}), sequence)"
    NONE = lambda t: f"mt_none(elem({A}, {t}), sequence)"
    INV = [
        f"0 <= __k1 <= len({A})",
        f"is_none(best_match) == forall(t, 0, __k1, {NONE('t')})",
        f"implies(not is_none(best_match), 0 <= w < __k1 and not {NONE('w')} and val(best_match).__id__ == {M('w')}.__id__ and heap_bound(val(best_match)))",
        f"implies(not is_none(best_match), forall(t, 0, __k1, implies(not {NONE('t')}, not_worse({M('w')}, {M('t')}))))",
        f"implies(not is_none(best_match), forall(t, 0, w, implies(not {NONE('t')}, better({M('w')}, {M('t')}))))",
        f"implies(not is_none(best_match), wf(val(best_match)) and mlen(val(best_match)) == len(sequence))",
        f"implies(not is_none(best_match) and no_linked(self), val(best_match).__cls__ != LM())",
    ]
    c.loop(1, head="for adapter in self._adapters", inv=INV)
    c.ensures(
        none_iff_no_adapter_matches=f"is_none(result) == forall(t, 0, len({A}), {NONE('t')})",
        result_is_the_match_of_adapter_w=f"implies(not is_none(result), 0 <= w < len({A}) and not {NONE('w')} and val(result).__id__ == {M('w')}.__id__)",
        highest_score_then_fewest_errors=f"implies(not is_none(result), forall(t, 0, len({A}), implies(not {NONE('t')}, not_worse({M('w')}, {M('t')}))))",
        first_adapter_wins_ties=f"implies(not is_none(result), forall(t, 0, w, implies(not {NONE('t')}, better({M('w')}, {M('t')}))))",
        found_match_is_wellformed_on_this_string="implies(not is_none(result), wf(val(result)) and mlen(val(result)) == len(sequence))",
        linked_matches_only_from_linked_adapters="implies(not is_none(result) and no_linked(self), val(result).__cls__ != LM())",
    )
    c.mutant("match.errors < best_match.errors", "match.errors <= best_match.errors")
    c.mutant("match.score > best_match.score", "match.score >= best_match.score")
    c.mutant("match.score == best_match.score and", "")
    c.mutant("if match is None:\n            continue", "if match is None:\n            break")


LinkedAdapterT = ObjT("LinkedAdapter", front_adapter=MatchableT, back_adapter=MatchableT, front_required=Bool, back_required=Bool,
                      name=Str, __cls__=Int)


@contract("adapters.py", "LinkedAdapter.match_to", props=["C09"])
def linked_match_to(c):
    c.runtime = {"module": "cmods", "name": "linked", "replay_count": 6000}
    c.types(self=LinkedAdapterT, sequence=Str)
    c.returns(OptT(ObjT("LinkedMatch")))
    c.spec(mt_spec)
    c.requires(front_is_a_5p_adapter="only_rb(self.front_adapter)", back_is_a_3p_adapter="only_ra(self.back_adapter)")
    F = "mt(self.front_adapter, old(sequence))"
    FN = "mt_none(self.front_adapter, old(sequence))"
    REST = f"(old(sequence) if {FN} else old(sequence)[{F}.rstop:])"
    BN = f"mt_none(self.back_adapter, {REST})"
    B_ = f"mt(self.back_adapter, {REST})"
    c.ensures(
        none_iff_a_required_part_is_missing=f"is_none(result) == ((self.front_required and {FN}) or ({BN} and (self.back_required or {FN})))",
        front_part_is_the_front_adapters_match=f"implies(not is_none(result), is_none(val(result).front_match) == {FN} and "
                                               f"implies(not {FN}, val(val(result).front_match).__id__ == {F}.__id__))",
        back_part_searched_only_in_what_remains_after_the_front_part=f"implies(not is_none(result), is_none(val(result).back_match) == {BN} and "
                                                                     f"implies(not {BN}, val(val(result).back_match).__id__ == {B_}.__id__))",
    )
    c.mutant("sequence = sequence[front_match.trim_slice()]", "pass")
    c.mutant("self.back_required or front_match is None", "self.back_required")
    c.mutant("if self.front_required and front_match is None", "if front_match is None")


@contract("adapters.py", "LinkedMatch.score", props=["C09"], name="LinkedMatch.score")
def linked_score(c):
    c.runtime = {"module": "cmods", "name": "linked", "replay_count": 6000}
    from .shapes import LinkedT
    c.types(self=LinkedT)
    c.returns(Int)
    c.ensures(sum_of_parts="result == (val(self.front_match).score if not is_none(self.front_match) else 0) + "
                           "(val(self.back_match).score if not is_none(self.back_match) else 0)")
    c.inline.add("LinkedMatch.score")
    c.mutant("s += self.back_match.score", "s = self.back_match.score")


@contract("adapters.py", "LinkedMatch.errors", props=["C09"], name="LinkedMatch.errors")
def linked_errors(c):
    c.runtime = {"module": "cmods", "name": "linked", "replay_count": 6000}
    from .shapes import LinkedT
    c.types(self=LinkedT)
    c.returns(Int)
    c.ensures(sum_of_parts="result == (val(self.front_match).errors if not is_none(self.front_match) else 0) + "
                           "(val(self.back_match).errors if not is_none(self.back_match) else 0)")
    c.inline.add("LinkedMatch.errors")
    c.mutant("e += self.front_match.errors", "e += self.front_match.score")
