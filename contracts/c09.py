"""C09 — best adapter, rounds, linked adapters."""
import z3
from pyvc import api, heap
from pyvc.api import contract, Int, Bool, Str, OptT, ObjT, TupT, SeqT
from pyvc.values import *  # noqa
from .shapes import MatchT, SingleMatchT, InfoT, AdapterT, match_spec, match_spec2, record_spec

MultipleT = ObjT("MultipleAdapters", has_linked=api.Bool)   # has_linked: ghost, "some adapter is a LinkedAdapter"


@contract("adapters.py", "MultipleAdapters.match_to", props=[], name="MultipleAdapters.match_to@abstract")
def multiple_match_to_abstract(c):
    """What callers (C03/C16/C17/C20) need from the best-of search; the full contract is below (C09)."""
    c.types(self=MultipleT, sequence=Str)
    c.returns(OptT(MatchT))
    c.spec(match_spec)
    c.ensures(found_match_is_wellformed_on_this_string="implies(not is_none(result), wf(val(result)) and mlen(val(result)) == len(sequence))",
              linked_matches_only_from_linked_adapters="implies(not is_none(result) and not self.has_linked, val(result).__cls__ != LM())")


api.BY_NAME["MultipleAdapters.match_to"] = multiple_match_to_abstract
