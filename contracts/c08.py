"""C08 — an adapter index changes only speed, never what is found."""
import z3
from pyvc import api
from pyvc.api import contract, Int, Bool, Real, Str, OptT, ObjT, TupT, SeqT, ConstT, schema
from pyvc.values import *  # noqa
from .shapes import SingleMatchT, match_spec
from .c09 import mt_spec, MatchableT

TRUSTED = [
    "the index dictionary is an abstract map from strings to (adapter, errors, matches): uninterpreted IDX_HAS / IDX_ADAPTER / IDX_E / IDX_M",
    "hamming_sphere / edit_environment and the construction of the index (_make_index) are covered by the bounded stand-in only",
]

schema("IndexedAdapter", name=Str, sequence=Str, __cls__=Int)
IndexedAdapterT = ObjT("IndexedAdapter")
IDX_HAS = z3.Function("IDX_HAS", I, AII, I, B)
IDX_AD = z3.Function("IDX_ADAPTER", I, AII, I, I)
IDX_E = z3.Function("IDX_E", I, AII, I, I)
IDX_M = z3.Function("IDX_M", I, AII, I, I)
schema("IndexDict")


def _named(cx, s):
    from pyvc import heap
    s = as_str(s)
    return StrV(heap.named_array(cx, s.arr), s.n)


def idx_get(ex, st, m, idx, node, spec):
    s = _named(ex.cx, idx)
    i = m.fields["__id__"]
    if not spec:
        ex.cx.pending.append((z3.Not(IDX_HAS(i, s.arr, s.n)), "KeyError"))
    from pyvc import heap
    ad = heap.read(IndexedAdapterT, "IndexedAdapter", "", IDX_AD(i, s.arr, s.n))
    return TupV((ad, IDX_E(i, s.arr, s.n), IDX_M(i, s.arr, s.n)))


def install(world):
    world.handlers[("IndexDict", "__getitem__")] = idx_get
    api.BY_NAME["IndexedAdapter.match_to"] = api.BY_NAME["Matchable.match_to"]


def idx_spec(cx):
    mt_spec(cx)
    if "idx_has" in cx.spec:
        return
    cx.spec["idx_has"] = lambda d, s: IDX_HAS(d.fields["__id__"], _named(cx, s).arr, as_str(s).n)
    cx.spec["idx_e"] = lambda d, s: IDX_E(d.fields["__id__"], _named(cx, s).arr, as_str(s).n)
    cx.spec["idx_m"] = lambda d, s: IDX_M(d.fields["__id__"], _named(cx, s).arr, as_str(s).n)
    cx.spec["idx_adapter"] = lambda d, s: IDX_AD(d.fields["__id__"], _named(cx, s).arr, as_str(s).n)
    from pyvc.world import map_str, UPPER
    cx.spec["upper"] = lambda s: (cx.__dict__.__setitem__("need_char_axioms", True), map_str(cx, UPPER, as_str(s)))[1]


def index_type(prefix):
    from pyvc.values import FuncV
    return ObjT("AdapterIndex", _index=ObjT("IndexDict"), _length=Int, _lengths=SeqT(Int),
                _make_affix=ConstT(FuncV("_make_prefix" if prefix else "_make_suffix")),
                _make_match=ConstT(FuncV("_make_prefix_match" if prefix else "_make_suffix_match")))


def one_length(prefix):
    side = "prefix" if prefix else "suffix"

    @contract("adapters.py", "AdapterIndex._match_to_one_length", props=["C08", "C03"], name=f"AdapterIndex._match_to_one_length@{side}")
    def _c(c):
        c.types(self=index_type(prefix), sequence=Str)
        c.returns(OptT(SingleMatchT))
        c.spec(idx_spec)
        c.requires(length="self._length >= 1",
                   keys_have_the_indexed_length="forall_keys_len(self)")
        AFF = "upper(sequence)[:self._length]" if prefix else "upper(sequence)[-self._length:]"
        c.ensures(
            found_iff_the_affix_is_in_the_index=f"implies(not ('N' in {AFF}), is_none(result) == (not idx_has(self._index, {AFF})))",
            coordinates_lie_inside_the_read="implies(not is_none(result), 0 <= val(result).rstart <= val(result).rstop <= len(sequence))",
            removed_affix_is_the_looked_up_key="implies(not is_none(result), val(result).rstop - val(result).rstart == self._length and "
                                               + ("val(result).rstart == 0" if prefix else "val(result).rstop == len(sequence)") + ")",
            errors_and_score_come_from_the_index_entry=f"implies(not is_none(result) and not ('N' in {AFF}), val(result).errors == idx_e(self._index, {AFF}) and val(result).score == idx_m(self._index, {AFF}) and "
                                                       f"val(result).adapter.__id__ == idx_adapter(self._index, {AFF}))",
        )
        c.mutant("self._make_match(adapter, self._length, m, e, sequence)", "self._make_match(adapter, self._length, e, m, sequence)")
    return _c


def keys_spec(cx):
    idx_spec(cx)
    a = z3.Const("a!ks", AII)
    n = z3.Int("n!ks")

    def forall_keys_len(self_):
        i = self_.fields["_index"].fields["__id__"]
        return z3.ForAll([a, n], z3.Implies(IDX_HAS(i, a, n), n == self_.fields["_length"]), patterns=[IDX_HAS(i, a, n)])
    cx.spec["forall_keys_len"] = forall_keys_len


one_length_prefix = one_length(True)
one_length_suffix = one_length(False)
for _c in (one_length_prefix, one_length_suffix):
    _c.specs.append(keys_spec)


def multiple_lengths(prefix):
    side = "prefix" if prefix else "suffix"

    @contract("adapters.py", "AdapterIndex._match_to_multiple_lengths", props=["C08", "C03"], name=f"AdapterIndex._match_to_multiple_lengths@{side}")
    def _c(c):
        c.types(self=index_type(prefix), sequence=Str)
        c.returns(OptT(SingleMatchT))
        c.spec(idx_spec)
        c.local_types.update(best_adapter=OptT(IndexedAdapterT))
        c.requires(lengths_positive="forall(t, 0, len(self._lengths), self._lengths[t] >= 1)",
                   lengths_strictly_decreasing="forall(t, 1, len(self._lengths), self._lengths[t] < self._lengths[t - 1])",
                   lengths_strictly_decreasing_pairwise="forall(t, 0, len(self._lengths), forall(u, t + 1, len(self._lengths), self._lengths[u] < self._lengths[t]))",
                   matches_at_most_key_length="forall_keys_m(self)")
        # ghost: the best (most matches, then fewest errors) among the index hits examined so far
        c.ghost("g_ex = defaultdict(int)", at_start=True)
        c.ghost("g_ex[__k1] = 1", before="affix = self._make_affix(affix, length)")
        c.ghost("g_m = -1", at_start=True)
        c.ghost("g_e = 1000", at_start=True)
        for site in ("adapter, e, m = result", "adapter, e, m = self._index[affix]"):
            # (inserted right after the anchor, so the second statement listed runs first)
            c.ghost("g_m = max(g_m, m)", after=site)
            c.ghost("g_e = e if m > g_m else (min(g_e, e) if m == g_m else g_e)", after=site)
        c.loop(1, head="for length in self._lengths", inv=[
            "0 <= __k1 <= len(self._lengths)",
            "best_m == -1 or (1 <= best_length <= len(sequence) and not is_none(best_adapter))",
            "best_m == g_m and best_e == g_e",
            "forall(t, 0, __k1, implies(self._lengths[t] <= len(sequence), g_ex[t] == 1))",
        ])
        c.ensures(
            coordinates_lie_inside_the_read="implies(not is_none(result), 0 <= val(result).rstart <= val(result).rstop <= len(sequence))",
            every_indexed_length_that_fits_the_read_and_could_still_win_is_looked_up=
            "forall(t, 0, len(self._lengths), implies(self._lengths[t] <= len(sequence) and self._lengths[t] >= (val(result).score if not is_none(result) else 0), g_ex[t] == 1))",
            most_matches_then_fewest_errors_among_the_examined_hits="implies(not is_none(result), val(result).score == g_m and val(result).errors == g_e)",
            removed_affix_has_an_indexed_length="implies(not is_none(result), val(result).rstop - val(result).rstart >= 1 and "
                                                + ("val(result).rstart == 0" if prefix else "val(result).rstop == len(sequence)") + ")",
        )
        c.mutant("m > best_m or (m == best_m and e < best_e)", "m >= best_m")
    return _c


def keys_m_spec(cx):
    idx_spec(cx)
    a = z3.Const("a!km", AII)
    n = z3.Int("n!km")

    def forall_keys_m(self_):
        i = self_.fields["_index"].fields["__id__"]
        return z3.ForAll([a, n], z3.Implies(IDX_HAS(i, a, n), z3.And(0 <= IDX_M(i, a, n), IDX_M(i, a, n) <= n, IDX_E(i, a, n) >= 0)),
                         patterns=[IDX_HAS(i, a, n)])
    cx.spec["forall_keys_m"] = forall_keys_m


multi_prefix = multiple_lengths(True)
multi_suffix = multiple_lengths(False)
for _c in (multi_prefix, multi_suffix):
    _c.specs.append(keys_m_spec)


def extra_checks(res, tier, seed, known, log):
    from pyvc import runner
    runner.runtime_standin(res, "C08", "c08", "environments", seed, 1500 if tier == "quick" else 20000, 15 if tier == "quick" else 600,
                           label="hamming_sphere / edit_environment enumerate exactly the neighbourhood with exact error counts")
    runner.runtime_standin(res, "C08", "c08", "index", seed, 3000 if tier == "quick" else 60000, 25 if tier == "quick" else 900,
                           label="indexed vs one-by-one search and genuineness of indexed matches")


# ------------------------------------------------------------------------------ reads with N: the re-done alignment
@contract("adapters.py", "AdapterIndex._lookup_with_n", props=["C08"])
def lookup_with_n(c):
    """An affix containing N is looked up with N replaced by A; what is reported for it are the errors and the score of the
    adapter's own alignment to the affix as it is, and only if that alignment spans the whole affix (otherwise the numbers
    belong to a shorter occurrence, and the affix length reported by the caller would not be the aligned length)."""
    c.types(self=ObjT("AdapterIndex", _index=ObjT("IndexDict")), affix=Str)
    c.runtime = {"module": "c08", "name": "index", "replay_count": 20000}
    c.returns(OptT(TupT(IndexedAdapterT, Int, Int)))
    c.spec(idx_spec)
    KEY = "affix.replace('N', 'A')"
    AD = "val(result)[0]"
    c.ensures(
        nothing_without_an_index_entry=f"implies(not idx_has(self._index, {KEY}), is_none(result))",
        adapter_is_the_one_of_the_index_entry=f"implies(not is_none(result), {AD}.__id__ == idx_adapter(self._index, {KEY}))",
        numbers_are_those_of_the_adapters_own_alignment_to_the_affix=
        f"implies(not is_none(result), not mt_none({AD}, affix) and val(result)[1] == errors_of(mt({AD}, affix)) and val(result)[2] == score_of(mt({AD}, affix)))",
        that_alignment_spans_the_whole_affix=
        f"implies(not is_none(result), mt({AD}, affix).rstop - mt({AD}, affix).rstart == len(affix))",
    )
    c.mutant("match.rstop - match.rstart != len(affix)", "match.rstop - match.rstart > len(affix)")
    c.mutant("return adapter, match.errors, match.score", "return adapter, result[1], match.score")
