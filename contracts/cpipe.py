"""The per-read driver loops (`SingleEndPipeline.process_reads`, `PairedEndPipeline.process_reads`): every input read
(pair) enters exactly one chain of calls; the chain runs through the modifiers and then the steps in list order, each call
gets exactly what the previous call returned ("filters see the fully modified read"), and the chain ends at the first call
that returns None ("the first filter that applies consumes the read ... no later filter or output sees it") or after the
last step.  Shared by C10 (order of modification), C11 (order of filters) and C04/C05 (each read is handled once).
The modifiers and steps themselves are abstract here (class + state); what each one does is C03/C13/C14/C04/C11."""
import z3
from pyvc import api
from pyvc.api import contract, Int, Bool, Str, OptT, ObjT, TupT, SeqT, schema
from pyvc.values import *  # noqa
from .common import Record

TRUSTED = [
    "InputFiles.open() yields each record (pair) of the input once, in file order (dnaio); modifiers and steps are arbitrary "
    "callables at this level: a call may return a record or None and may change the callee's own state only",
]

schema("PipelineStep")
SINK = z3.Function("ALWAYS_CONSUMES", I, B)       # a step that returns None for every read it gets (the sinks and demultiplexers, C04/C15)
schema("InputFiles")
schema("Progress")
StepT = ObjT("PipelineStep")
PairT = TupT(Record, Record)


def FORALL(vs, body, patterns=None):
    """z3.ForAll with the given patterns where they are legal (an array that is an if-then-else of arrays after a join
    cannot occur in a pattern: then the solver chooses)."""
    if patterns:
        try:
            return z3.ForAll(vs, body, patterns=patterns)
        except z3.Z3Exception:
            pass
    return z3.ForAll(vs, body)


def _innermost(st, depth=0):
    ks = sorted((int(k[3:]) for k in st.env if k.startswith("__k") and k[3:].isdigit()), reverse=True)
    return st.env["__k%d" % ks[depth]]


def _append(st, name, term):
    cur = st.env[name]
    st.env[name] = SeqV(z3.Store(cur.arr, st.env["$ncalls"], term), cur.n, None)      # indexed by the call counter


def install(world):
    def step_call(ex, st, step, args, kwargs, node, spec):
        """One call of a modifier or step: logged in the ghost sequences; returns None or a fresh record (pair)."""
        paired = len(args) == 4
        args = [ex.need_not_none(a, st, node, "argument of a step") if isinstance(a, Opt) else a for a in args]
        out_none = fresh("step.returns_none", B)
        st.pc.append(z3.Implies(SINK(step.fields["__id__"]), out_none))
        st.env["$nconsumed"] = st.env["$nconsumed"] + z3.If(out_none, 1, 0)
        inv = []
        if paired:
            out = TupV((api.mk(Record, "step.out1", inv), api.mk(Record, "step.out2", inv)))
            in_id, in2_id = args[0].fields["__id__"], args[1].fields["__id__"]
            out_id, out2_id = out.items[0].fields["__id__"], out.items[1].fields["__id__"]
        else:
            out = api.mk(Record, "step.out", inv)
            in_id, in2_id = args[0].fields["__id__"], z3.IntVal(-1)
            out_id, out2_id = out.fields["__id__"], z3.IntVal(-1)
        st.pc += inv
        _append(st, "$c_step", _innermost(st))
        _append(st, "$c_obj", step.fields["__id__"])
        _append(st, "$c_in", in_id)
        _append(st, "$c_in2", in2_id)
        _append(st, "$c_none", z3.If(out_none, 1, 0))
        _append(st, "$c_out", out_id)
        _append(st, "$c_out2", out2_id)
        st.env["$ncalls"] = st.env["$ncalls"] + 1
        # the chain that this call starts (step index 0) belongs to the input read the outer loop is at
        cs_, r_ = st.env["$chain_start"], _innermost(st, 1)
        st.env["$chain_start"] = SeqV(z3.Store(cs_.arr, r_, z3.If(_innermost(st) == 0, st.env["$ncalls"] - 1, cs_.arr[r_])), cs_.n, None)
        return Opt(out_none, out)
    world.handlers[("PipelineStep", "__call__")] = step_call

    def infiles_open(ex, st, f, args, kwargs, node, spec):
        return ex.cx.entry.env["reader"]        # the ghost parameter `reader`: what the input yields
    world.handlers[("InputFiles", "open")] = infiles_open
    world.handlers[("InputFiles", "close")] = lambda ex, st, f, a, k, n, s: None
    world.handlers[("Progress", "update")] = lambda ex, st, f, a, k, n, s: None

    def mod_info(ex, st, args, kwargs, node, spec):
        return ObjV("ModificationInfoStub", {"__id__": fresh("id.info", I), "read": args[0].fields["__id__"]})
    world.ctor_handlers.setdefault("ModificationInfo", mod_info)


def log_spec(cx):
    c_, t_ = z3.Int("c!log"), z3.Int("t!log")

    def G(st, name):
        return st.env["$" + name]

    def at(st, name, i):
        name = name.v if isinstance(name, PyConst) else name
        return st.env["$" + name].arr[i]

    def seq_len(steps):
        return steps.n

    def chained(st, n_calls, L, paired=False):
        """A: a call of step j > 0 directly follows the call of step j-1 of the same chain, which did not return None, and
        gets exactly what that call returned.  C: step indices are in range and name the list element that was called."""
        s, nn, i1, i2, o1, o2 = (G(st, k).arr for k in ("c_step", "c_none", "c_in", "c_in2", "c_out", "c_out2"))
        return FORALL([c_], z3.Implies(z3.And(0 <= c_, c_ < n_calls), z3.And(
            0 <= s[c_], s[c_] < L, z3.Or(nn[c_] == 0, nn[c_] == 1),
            z3.Or(s[c_] == 0, z3.And(c_ > 0, s[c_] == s[c_ - 1] + 1, nn[c_ - 1] == 0, i1[c_] == o1[c_ - 1],
                                  *([i2[c_] == o2[c_ - 1]] if paired else []))),
            z3.Implies(z3.And(s[c_] == 0, c_ > 0), z3.Or(nn[c_ - 1] == 1, s[c_ - 1] == L - 1)))), patterns=[s[c_]])

    def called_objects(st, n_calls, steps):
        s, ob, nn = G(st, "c_step").arr, G(st, "c_obj").arr, G(st, "c_none").arr
        return FORALL([c_], z3.Implies(z3.And(0 <= c_, c_ < n_calls), z3.And(ob[c_] == steps.arr[s[c_]], z3.Implies(SINK(ob[c_]), nn[c_] == 1))),
                      patterns=[ob[c_]])

    def complete_before(st, upto, n_calls, L):
        """D: a chain is not cut short: unless a call returned None or was the last step, the next step is called next."""
        s, nn = G(st, "c_step").arr, G(st, "c_none").arr
        return FORALL([c_], z3.Implies(z3.And(0 <= c_, c_ < upto, nn[c_] == 0, s[c_] < L - 1),
                                          z3.And(c_ + 1 < n_calls, s[c_ + 1] == s[c_] + 1)), patterns=[s[c_]])

    def one_chain_per_read(st, r, n_calls, reader, second):
        """B: input read t (t < r) starts exactly one chain, at call chain_start[t], in input order, with that record."""
        s, i1, i2, cs = G(st, "c_step").arr, G(st, "c_in").arr, G(st, "c_in2").arr, G(st, "chain_start").arr
        from pyvc import heap
        body = [0 <= cs[t_], cs[t_] < n_calls, s[cs[t_]] == 0, z3.Implies(t_ > 0, cs[t_ - 1] < cs[t_])]
        if second is None:
            body.append(i1[cs[t_]] == reader.arr[t_])
        else:
            el = heap.seq_elem(reader, reader.arr[t_])
            body += [i1[cs[t_]] == el.items[0].fields["__id__"], i2[cs[t_]] == el.items[1].fields["__id__"]]
        return FORALL([t_], z3.Implies(z3.And(0 <= t_, t_ < r), z3.And(*body)), patterns=[cs[t_]])

    def starts_are_these(st, r, n_calls):
        """every chain start in the log is the start of one of the first r input reads"""
        s, cs = G(st, "c_step").arr, G(st, "chain_start").arr
        owner = z3.Function("chain_owner", I, I)
        return FORALL([c_], z3.Implies(z3.And(0 <= c_, c_ < n_calls, s[c_] == 0),
                                          z3.And(0 <= owner(c_), owner(c_) < r, cs[owner(c_)] == c_)))

    cx.spec["__stateful__"] = dict(cx.spec.get("__stateful__") or {})
    cx.spec["__stateful__"].update(chained=chained, chained2=lambda st, n, L: chained(st, n, L, True), called_objects=called_objects, complete_before=complete_before,
                                   one_chain_per_read=lambda st, r, n, reader: one_chain_per_read(st, r, n, reader, None),
                                   one_chain_per_pair=lambda st, r, n, reader: one_chain_per_read(st, r, n, reader, True),
                                   at=at)
    cx.spec["seq_len"] = seq_len
    SUML = z3.Function("SUM_OF_LENGTHS", AII, I, I, I)      # (record ids, which mate (0: single/R1, 1: R2), how many)

    def sum_len(reader, upto, mate=0):
        """total number of bases of the first `upto` input reads (recurrence instantiated for this reader)"""
        from pyvc import heap
        mate = mate if isinstance(mate, int) else z3.simplify(mate).as_long()
        key = ("sumlen", reader.arr.get_id(), mate)
        if key not in cx.__dict__.setdefault("_sumlen", set()):
            cx._sumlen.add(key)
            n_ = z3.Int("n!sl")
            el = heap.seq_elem(reader, reader.arr[n_ - 1])
            rec = el.items[mate] if isinstance(el, TupV) else el
            cx.axioms += [SUML(reader.arr, mate, 0) == 0,
                          z3.ForAll([n_], z3.Implies(n_ > 0, SUML(reader.arr, mate, n_) == SUML(reader.arr, mate, n_ - 1) + rec.fields["sequence"].n),
                                    patterns=[SUML(reader.arr, mate, n_)])]
        return SUML(reader.arr, mate, upto)
    cx.spec["sum_len"] = sum_len
    cx.spec["elem_id"] = lambda seq, k: seq.arr[k]
    cx.spec["always_consumes"] = lambda step_id: SINK(step_id)

    def pair_id(reader, k, mate):
        from pyvc import heap
        mate = mate if isinstance(mate, int) else z3.simplify(mate).as_long()
        return heap.seq_elem(reader, reader.arr[k]).items[mate].fields["__id__"]
    cx.spec["pair_id"] = pair_id
    j_ = z3.Int("j!cat")
    cx.spec["is_concat"] = lambda ms, a, b: z3.And(ms.n == a.n + b.n, FORALL([j_], z3.Implies(
        z3.And(0 <= j_, j_ < ms.n), ms.arr[j_] == z3.If(j_ < a.n, a.arr[j_], b.arr[j_ - a.n])), patterns=[ms.arr[j_]]))


SingleT = ObjT("SingleEndPipeline", _modifiers=SeqT(StepT), _steps=SeqT(StepT))
N, L = "gcount('ncalls')", "(len(self._modifiers) + len(self._steps))"


@contract("pipeline.py", "SingleEndPipeline.process_reads", props=["C10", "C11", "C04"])
def single_process_reads(c):
    c.types(self=SingleT, infiles=ObjT("InputFiles"), progress=OptT(ObjT("Progress")), reader=SeqT(Record))
    c.returns(TupT(Int, Int, OptT(Int)))
    c.runtime = {"module": "cpipe", "name": "process_reads"}
    c.spec(log_spec)
    c.ghost_seqs = ["c_step", "c_obj", "c_in", "c_in2", "c_none", "c_out", "c_out2", "chain_start"]
    c.local_types["read"] = OptT(Record)
    c.requires(empty_log=f"{N} == 0 and gcount('nconsumed') == 0", at_least_the_sink="len(self._steps) >= 1",
               the_last_step_is_a_sink="always_consumes(elem_id(self._steps, len(self._steps) - 1))")
    c.loop(1, head="for i, step in enumerate(self._steps, 1)", inv=["True"])
    OUTER = [f"n == __k2 and {N} >= 0 and 0 <= __k2 <= len(reader) and total_bp == sum_len(reader, __k2) and gcount('nconsumed') == __k2",
             f"chained({N}, {L})", f"called_objects({N}, modifiers_and_steps)", f"complete_before({N}, {N}, {L})",
             f"one_chain_per_read(__k2, {N}, reader)",
             f"len(modifiers_and_steps) == {L}"]
    c.loop(2, head="for read in reader", inv=OUTER)
    INNER = [f"n == __k2 + 1 and gcount('nconsumed') == __k2 and total_bp == sum_len(reader, __k2 + 1) and {N} >= 0 and 0 <= __k2 < len(reader) and len(modifiers_and_steps) == {L} and 0 <= __k3 <= {L}",
             f"chained({N}, {L})", f"called_objects({N}, modifiers_and_steps)", f"complete_before({N} - 1, {N}, {L})",
             f"one_chain_per_read(__k2 + (1 if __k3 > 0 else 0), {N}, reader)",
             "not is_none(read)",
             f"implies(__k3 == 0, val(read).__id__ == elem_id(reader, __k2) and ({N} == 0 or at('c_none', {N} - 1) == 1 or at('c_step', {N} - 1) == {L} - 1))",
             f"implies(__k3 > 0, {N} >= 1 and at('c_step', {N} - 1) == __k3 - 1 and at('c_none', {N} - 1) == 0 and at('c_out', {N} - 1) == val(read).__id__)"]
    c.loop(3, head="for step in modifiers_and_steps", inv=INNER)
    c.ensures(
        every_read_is_counted="result[0] == len(reader) and result[1] == sum_len(reader, len(reader)) and is_none(result[2])",
        every_read_is_consumed_by_exactly_one_step="gcount('nconsumed') == len(reader)",
        calls_run_through_modifiers_then_steps_in_list_order_each_on_the_previous_result=f"chained({N}, {L}) and called_objects({N}, modifiers_and_steps) and is_concat(modifiers_and_steps, self._modifiers, self._steps)",
        a_chain_ends_only_at_the_first_none_or_after_the_last_step=f"complete_before({N}, {N}, {L})",
        every_input_read_starts_exactly_one_chain_in_input_order=f"one_chain_per_read(len(reader), {N}, reader)",
    )
    c.mutant("if read is None:", "if read is not None:")
    c.mutant("read = step(read, info)", "step(read, info)")
    c.mutant("total_bp += len(read)", "total_bp += len(read) + 1")
    c.mutant("modifiers_and_steps = self._modifiers + self._steps", "modifiers_and_steps = self._steps + self._modifiers")


PairedPipeT = ObjT("PairedEndPipeline", _modifiers=SeqT(StepT), _steps=SeqT(StepT))


@contract("pipeline.py", "PairedEndPipeline.process_reads", props=["C10", "C11", "C05"])
def paired_process_reads(c):
    """The same for pairs: both mates travel together through every call (each call gets exactly the pair the previous one
    returned), and a None ends the chain for both."""
    c.types(self=PairedPipeT, infiles=ObjT("InputFiles"), progress=OptT(ObjT("Progress")), reader=SeqT(PairT))
    c.returns(TupT(Int, Int, OptT(Int)))
    c.runtime = {"module": "cpipe", "name": "process_reads"}
    c.modifies = ["self._infiles", "self._reader"]
    c.spec(log_spec)
    c.ghost_seqs = ["c_step", "c_obj", "c_in", "c_in2", "c_none", "c_out", "c_out2", "chain_start"]
    c.local_types["reads"] = OptT(PairT)
    c.requires(empty_log=f"{N} == 0 and gcount('nconsumed') == 0", at_least_the_sink="len(self._steps) >= 1",
               the_last_step_is_a_sink="always_consumes(elem_id(self._steps, len(self._steps) - 1))")
    OUTER = [f"gcount('nconsumed') == __k1 and n == __k1 and {N} >= 0 and 0 <= __k1 <= len(reader) and total1_bp == sum_len(reader, __k1, 0) and total2_bp == sum_len(reader, __k1, 1)",
             f"chained2({N}, {L})", f"called_objects({N}, modifiers_and_steps)", f"complete_before({N}, {N}, {L})",
             f"one_chain_per_pair(__k1, {N}, reader)",
             f"len(modifiers_and_steps) == {L}"]
    c.loop(1, head="for reads in self._reader", inv=OUTER)
    INNER = [f"gcount('nconsumed') == __k1 and n == __k1 + 1 and total1_bp == sum_len(reader, __k1 + 1, 0) and total2_bp == sum_len(reader, __k1 + 1, 1) and {N} >= 0 and "
             f"0 <= __k1 < len(reader) and len(modifiers_and_steps) == {L} and 0 <= __k2 <= {L}",
             f"chained2({N}, {L})", f"called_objects({N}, modifiers_and_steps)", f"complete_before({N} - 1, {N}, {L})",
             f"one_chain_per_pair(__k1 + (1 if __k2 > 0 else 0), {N}, reader)",
             "not is_none(reads)",
             f"implies(__k2 == 0, val(reads)[0].__id__ == pair_id(reader, __k1, 0) and val(reads)[1].__id__ == pair_id(reader, __k1, 1) and "
             f"({N} == 0 or at('c_none', {N} - 1) == 1 or at('c_step', {N} - 1) == {L} - 1))",
             f"implies(__k2 > 0, {N} >= 1 and at('c_step', {N} - 1) == __k2 - 1 and at('c_none', {N} - 1) == 0 and "
             f"at('c_out', {N} - 1) == val(reads)[0].__id__ and at('c_out2', {N} - 1) == val(reads)[1].__id__)"]
    c.loop(2, head="for step in modifiers_and_steps", inv=INNER)
    c.ensures(
        every_pair_is_consumed_by_exactly_one_step="gcount('nconsumed') == len(reader)",
        every_pair_is_counted="result[0] == len(reader) and result[1] == sum_len(reader, len(reader), 0) and val(result[2]) == sum_len(reader, len(reader), 1)",
        calls_run_through_modifiers_then_steps_in_list_order_each_on_the_pair_the_previous_call_returned=
        f"chained2({N}, {L}) and called_objects({N}, modifiers_and_steps) and is_concat(modifiers_and_steps, self._modifiers, self._steps)",
        a_chain_ends_only_at_the_first_none_or_after_the_last_step=f"complete_before({N}, {N}, {L})",
        every_input_pair_starts_exactly_one_chain_in_input_order=f"one_chain_per_pair(len(reader), {N}, reader)",
    )
    c.mutant("if reads is None:", "if reads is not None:")
    c.mutant("reads = step(*reads, info1, info2)", "step(*reads, info1, info2)")
    c.mutant("total2_bp += len(read2)", "total2_bp += len(read1)")
