"""C20, the report side: report.histogram_rows turns the tally of one adapter end (lengths: removed length -> number of
matches; errors: removed length -> error count -> number of matches) into the rows of the "length / count / max.err / error
counts" table of the text report and of `trimmed_lengths` in the JSON report.  Under contract: every row that is yielded
carries, for its removed length, exactly the tallied count, and its list of error counts is the tally cell for cell - no cell
with a non-zero tally lies beyond the end of the list - and its max.err column is int(rate * min(length, effective length))."""
import z3
from pyvc import api
from pyvc.api import contract, Int, Bool, Str, Real, ObjT, SeqT
from pyvc.values import *  # noqa
from .cstats import CountDictT, Hist2DT

TRUSTED = [
    "sorted(d) over the tally dict enumerates exactly its keys (each once); max over the keys of one tally row returns one of "
    "them that no other exceeds; EndStatistics.random_match_probabilities returns len(sequence) + 1 probabilities (float "
    "arithmetic, not under contract); a dataclass constructor stores its arguments; rows are observed where they are yielded "
    "(ghost assertion before `yield row`), not through the generator protocol",
]

RowsEndT = ObjT("EndStatisticsForRows", lengths=CountDictT(), errors=Hist2DT(), sequence=Str, max_error_rate=Real, effective_length=Int)


def install(world):
    def b_sorted(prev):
        def f(ex, st, args, kwargs, node, spec):
            v = args[0]
            if isinstance(v, ObjV) and v.cls == "CountDict" and not kwargs:
                # some enumeration of exactly the keys (the order is not used by the contract)
                return SeqV(v.fields["keys"].arr, v.fields["keys"].n, None)
            if prev is None:
                raise Unsupported("sorted()")
            return prev(ex, st, args, kwargs, node, spec)
        return f
    world.builtins["sorted"] = b_sorted(world.builtins.get("sorted"))

    def b_max(prev):
        def f(ex, st, args, kwargs, node, spec):
            if len(args) == 1 and isinstance(args[0], SeqV) and args[0].elem is None:
                s = args[0]
                ex.oblige("max_of_nonempty_sequence", "safety", st, s.n > 0, node)
                m, p, t = fresh("max", I), fresh("max.pos", I), z3.Int("t!mx")
                st.pc += [0 <= p, p < s.n, s.arr[p] == m, z3.ForAll([t], z3.Implies(z3.And(0 <= t, t < s.n), s.arr[t] <= m), patterns=[s.arr[t]])]
                return m
            return prev(ex, st, args, kwargs, node, spec)
        return f
    world.builtins["max"] = b_max(world.builtins["max"])
    world.handlers[("HistRow", "keys")] = lambda ex, st, r, a, k, n, s: SeqV(r.fields["keys"], r.fields["nkeys"], None)
    world.ctor_handlers["HistogramRow"] = lambda ex, st, args, kwargs, node, spec: ObjV("HistogramRow", dict(kwargs))

    def probabilities(ex, st, o, args, kwargs, node, spec):
        n = as_str(o.fields["sequence"]).n
        return SeqV(fresh("match_probabilities", z3.ArraySort(I, z3.RealSort())), n + 1, None)
    world.handlers[("EndStatisticsForRows", "random_match_probabilities")] = probabilities


def rows_spec(cx):
    k = z3.Int("k!rw")

    def count_of(d, key):
        return z3.If(d.fields["has"][key], d.fields["val"][key], 0)

    def cell(h, length, e):
        return h.fields["val"][length][e]

    def keys_nonneg(d):
        return z3.ForAll([k], z3.Implies(d.fields["has"][k], k >= 0), patterns=[d.fields["has"][k]])

    def row_nonempty(h, d):
        """every removed length that was tallied has at least one tallied error count, and error counts are not negative"""
        f = h.fields
        e = z3.Int("e!rw")
        return z3.And(z3.ForAll([k], z3.Implies(d.fields["has"][k], f["ilen"][k] > 0), patterns=[d.fields["has"][k]]),
                      z3.ForAll([k, e], z3.Implies(z3.And(0 <= e, e < f["ilen"][k]), f["ikeys"][k][e] >= 0), patterns=[f["ikeys"][k][e]]),
                      z3.ForAll([k, e], z3.Implies(f["val"][k][e] != 0, e >= 0), patterns=[f["val"][k][e]]))

    cx.spec.update(count_of=count_of, cell=cell, keys_nonneg=keys_nonneg, row_nonempty=row_nonempty)


@contract("report.py", "histogram_rows", props=["C20"])
def histogram_rows(c):
    c.types(end_statistics=RowsEndT, n=Int, gc_content=Real)
    c.spec(rows_spec)
    c.runtime = {"module": "cmods", "name": "report_histogram"}
    c.requires(removed_lengths_are_not_negative="keys_nonneg(end_statistics.lengths)",
               a_tallied_length_has_a_tallied_error_count="row_nonempty(end_statistics.errors, end_statistics.lengths)",
               rate="end_statistics.max_error_rate >= 0 and end_statistics.effective_length >= 0 and n >= 0")
    c.loop(1, head="for length in sorted(d)", inv=["0 <= __k1 <= len(end_statistics.lengths.keys)"])
    c.ghost("__assert__(row.length == length and row.count == count_of(end_statistics.lengths, length), 'row_carries_the_tallied_count_of_its_length')\n"
            "__assert__(forall(e, 0, len(row.error_counts), row.error_counts[e] == cell(end_statistics.errors, length, e)), 'error_counts_are_the_tally_cell_for_cell')\n"
            "__assert__(forall(e, len(row.error_counts), 1000000, cell(end_statistics.errors, length, e) == 0), 'no_tallied_error_count_beyond_the_end_of_the_list')\n"
            "__assert__(row.max_err == int(end_statistics.max_error_rate * min(length, end_statistics.effective_length)), 'max_err_column')",
            before="yield row")
    c.mutant("range(max_errors + 1)", "range(max_errors)")
    c.mutant("count = d[length]", "count = d[length] + 1")
    c.mutant("errors[length][e] for e", "errors[e][length] for e")
