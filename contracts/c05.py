"""C05 — paired outputs stay synchronised; pairs are filtered as a unit."""
import z3
from pyvc import api, heap
from pyvc.api import contract, Int, Bool, Str, OptT, ObjT, TupT, SeqT, schema
from pyvc.values import *  # noqa
from .common import Record
from .shapes import MatchT, InfoT
from .c09 import mt_spec, MatchableT
from .c03 import PairedCutterT

TRUSTED = [
    "SingleEndModifier.__call__ is a deterministic function of (modifier, read, info) returning a record (uninterpreted MODIFIED); "
    "each concrete modifier is proved against its own contract in C03/C13/C14",
]

schema("SingleEndModifier", __cls__=Int)
ModT = ObjT("SingleEndModifier")
MODR = z3.Function("MODIFIED", I, I, I, I)


def mod_spec(cx):
    mt_spec(cx)
    cx.spec.setdefault("modified", lambda m, r, i: MODR(m.fields["__id__"], r.fields["__id__"], i.fields["__id__"]))


@contract("modifiers.py", "SingleEndModifier.__call__", props=[], name="SingleEndModifier.__call__")
def single_end_modifier_abstract(c):
    c.types(self=ModT, read=Record, info=InfoT)
    c.returns(Record)
    c.covers_subclasses = True
    c.modifies = ["self", "info"]
    c.spec(mod_spec)
    c.ensures(deterministic="result.__id__ == modified(old(self), read, old(info))")


@contract("modifiers.py", "PairedEndModifierWrapper.__call__", props=["C05", "C10", "C03"])
def paired_wrapper_call(c):
    c.types(self=ObjT("PairedEndModifierWrapper", _modifier1=OptT(ModT), _modifier2=OptT(ModT)),
            read1=Record, read2=Record, info1=InfoT, info2=InfoT)
    c.returns(TupT(Record, Record))
    c.modifies = ["self", "info1", "info2"]
    c.spec(mod_spec)
    c.requires(not_both_none="not is_none(self._modifier1) or not is_none(self._modifier2)")
    c.ensures(
        r1_modified_by_the_R1_modifier_only="result[0].__id__ == (modified(val(old(self._modifier1)), read1, old(info1)) if not is_none(old(self._modifier1)) else read1.__id__)",
        r2_modified_by_the_R2_modifier_only="result[1].__id__ == (modified(val(old(self._modifier2)), read2, old(info2)) if not is_none(old(self._modifier2)) else read2.__id__)",
    )
    c.mutant("return (read1, self._modifier2(read2, info2))", "return (read1, self._modifier2(read1, info2))")
    c.mutant("return (self._modifier1(read1, info1), read2)", "return (self._modifier1(read1, info1), read1)")
    c.mutant("self._modifier2(read2, info2))", "self._modifier2(read2, info1))", occurrence=2)


PairsT = SeqT(TupT(MatchableT, MatchableT))


@contract("modifiers.py", "PairedAdapterCutter._find_best_match_pair", props=["C05"])
def find_best_match_pair(c):
    c.runtime = {"module": "cmods", "name": "pair_adapters", "replay_count": 6000}
    c.types(self=ObjT("PairedAdapterCutter", _adapter_pairs=SeqT(TupT(MatchableT, MatchableT))),
            sequence1=Str, sequence2=Str)
    c.returns(OptT(TupT(MatchT, MatchT)))
    c.spec(mt_spec)
    c.local_types.update(best=OptT(TupT(MatchT, MatchT)), best_score=OptT(Int), best_errors=OptT(Int))
    c.ghost_results = ["w"]
    c.ghost("w = -1", at_start=True)
    c.ghost("w = __k1", before="best = (match1, match2)")
    P = "self._adapter_pairs"
    N1 = lambda t: f"mt_none(elem({P}, {t})[0], sequence1)"
    N2 = lambda t: f"mt_none(elem({P}, {t})[1], sequence2)"
    BOTH = lambda t: f"(not {N1(t)} and not {N2(t)})"
    SC = lambda t: f"(score_of(mt(elem({P}, {t})[0], sequence1)) + score_of(mt(elem({P}, {t})[1], sequence2)))"
    ER = lambda t: f"(errors_of(mt(elem({P}, {t})[0], sequence1)) + errors_of(mt(elem({P}, {t})[1], sequence2)))"
    c.loop(1, head="for adapter1, adapter2 in self._adapter_pairs", inv=[
        f"0 <= __k1 <= len({P})",
        f"is_none(best) == forall(t, 0, __k1, not {BOTH('t')})",
        f"implies(not is_none(best), 0 <= w < __k1 and {BOTH('w')} and val(best)[0].__id__ == mt(elem({P}, w)[0], sequence1).__id__ and "
        f"val(best)[1].__id__ == mt(elem({P}, w)[1], sequence2).__id__ and not is_none(best_score) and not is_none(best_errors) and "
        f"val(best_score) == {SC('w')} and val(best_errors) == {ER('w')})",
        f"implies(not is_none(best), forall(t, 0, __k1, implies({BOTH('t')}, {SC('w')} > {SC('t')} or ({SC('w')} == {SC('t')} and {ER('w')} <= {ER('t')}))))",
        f"implies(not is_none(best), forall(t, 0, w, implies({BOTH('t')}, {SC('w')} > {SC('t')} or ({SC('w')} == {SC('t')} and {ER('w')} < {ER('t')}))))",
        f"implies(not is_none(best), wf(val(best)[0]) and wf(val(best)[1]) and mlen(val(best)[0]) == len(sequence1) and mlen(val(best)[1]) == len(sequence2))",
    ])
    c.ensures(
        none_iff_no_rank_matches_on_both_mates=f"is_none(result) == forall(t, 0, len({P}), not {BOTH('t')})",
        both_matches_come_from_adapters_of_the_same_rank=f"implies(not is_none(result), 0 <= w < len({P}) and {BOTH('w')} and "
            f"val(result)[0].__id__ == mt(elem({P}, w)[0], sequence1).__id__ and val(result)[1].__id__ == mt(elem({P}, w)[1], sequence2).__id__)",
        best_total_score_then_fewest_errors_then_first=f"implies(not is_none(result), forall(t, 0, len({P}), implies({BOTH('t')}, {SC('w')} > {SC('t')} or "
            f"({SC('w')} == {SC('t')} and {ER('w')} <= {ER('t')}))) and forall(t, 0, w, implies({BOTH('t')}, {SC('w')} > {SC('t')} or ({SC('w')} == {SC('t')} and {ER('w')} < {ER('t')}))))",
        both_wellformed_on_their_reads="implies(not is_none(result), wf(val(result)[0]) and wf(val(result)[1]) and "
                                       "mlen(val(result)[0]) == len(sequence1) and mlen(val(result)[1]) == len(sequence2))",
    )
    c.mutant("total_score == best_score and total_errors < best_errors", "total_score == best_score and total_errors <= best_errors")
    c.mutant("match2 = adapter2.match_to(sequence2)", "match2 = adapter1.match_to(sequence2)")
    c.mutant("total_score > best_score", "total_score >= best_score")


def extra_checks(res, tier, seed, known, log):
    from pyvc import runner
    runner.cli_grid(res, "C05", tier, seed, known, quick=40, thorough=400, kinds=["C05", "C15"])
