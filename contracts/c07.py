"""C07 — the k-mer prefilter never changes which adapter match is found."""
import z3
from pyvc import api
from pyvc.api import contract, lemma, Int, Bool, Real, Str, OptT, ObjT, TupT, CArrT
from pyvc.values import *  # noqa
from pyvc.state import CArr
from pyvc.engine import slice_bounds

TRUSTED = [
    "shift_and_multiple_is_present is memory-safe under its stated precondition (proved below) and answers whether one of the packed "
    "words occurs in the window (its bit-parallel functional correctness is covered by the bounded stand-in only)",
    "the relation 'prefilter says no => the aligner finds nothing' (pigeonhole argument over all alignments) is covered by the "
    "bounded stand-in only",
]

PRESENT = z3.Function("WORD_PRESENT", AII, I, I, AII, I, I, I, B)   # (haystack, from, length, masks, mask offset, init, found)


def kmer_spec(cx):
    if "present" in cx.spec:
        return

    def present(h, length, masks, init, found):
        return PRESENT(h.arr, h.off, length, masks.arr, masks.off, init, found)

    def py_slice_lo(n, start):
        return slice_bounds(n, start, None)[0]

    def py_slice_hi(n, start, stop):
        """Upper bound of sequence[start:stop] with stop == 0 standing for None."""
        a, b_none = slice_bounds(n, start, None)
        a2, b = slice_bounds(n, start, stop)
        return z3.If(stop == 0, b_none, b)

    def present_in(seq, lo, length, masks, moff, init, found):
        seq = as_str(seq)
        return PRESENT(seq.arr, lo, length, masks.arr, masks.off + moff, init, found)

    cx.spec.update(present=present, py_slice_lo=py_slice_lo, py_slice_hi=py_slice_hi, present_in=present_in)
    bit = z3.Function("bitop", I, I, I, I)
    cx.spec["__bitop__"] = lambda opname, l, r: bit({"BitAnd": 1, "BitOr": 2, "LShift": 3, "RShift": 4, "BitXor": 5}[opname], l, r)


@contract("_kmer_finder.pyx", "shift_and_multiple_is_present", props=["C07"])
def shift_and(c):
    c.types(haystack=CArrT("haystack", byte=True), haystack_length=Int, needle_mask=CArrT("needle_mask"), init_mask=Int, found_mask=Int)
    c.returns(Bool)
    c.spec(kmer_spec)
    c.requires(window_inside_the_string="0 <= off(haystack) and 0 <= haystack_length and off(haystack) + haystack_length <= len(haystack)",
               mask_table="0 <= off(needle_mask) and off(needle_mask) + 256 <= len(needle_mask)")
    c.loop(1, head="for i in range(haystack_length)", inv=["0 <= i_next <= haystack_length"])
    c.ensures(memory_safe="True")
    c.mutant("range(haystack_length)", "range(haystack_length + 1)")


FinderT = ObjT("KmerFinder", number_of_searches=Int,
               search_entries=CArrT("search_entries", fields=["mask_offset", "search_start", "search_stop", "init_mask", "found_mask"]),
               search_masks=CArrT("search_masks"))


@contract("_kmer_finder.pyx", "shift_and_multiple_is_present", props=[], name="shift_and_multiple_is_present@abstract")
def shift_and_abstract(c):
    """Contract used at the call site in kmers_present: memory-safety precondition + uninterpreted answer."""
    c.types(haystack=CArrT("haystack", byte=True), haystack_length=Int, needle_mask=CArrT("needle_mask"), init_mask=Int, found_mask=Int)
    c.returns(Bool)
    c.spec(kmer_spec)
    c.requires(window_inside_the_string="0 <= off(haystack) and 0 <= haystack_length and off(haystack) + haystack_length <= len(haystack)",
               mask_table="0 <= off(needle_mask) and off(needle_mask) + 256 <= len(needle_mask)")
    c.ensures(answer="result == present(haystack, haystack_length, needle_mask, init_mask, found_mask)")


api.BY_NAME["shift_and_multiple_is_present"] = shift_and_abstract


@contract("_kmer_finder.pyx", "KmerFinder.kmers_present", props=["C07"])
def kmers_present(c):
    c.types(self=FinderT, sequence=Str)
    c.returns(Bool)
    c.spec(kmer_spec)
    c.requires(entries="0 <= self.number_of_searches and len(self.search_entries) == self.number_of_searches",
               masks="forall(t, 0, self.number_of_searches, 0 <= field(self.search_entries, 'mask_offset', t) and "
                     "field(self.search_entries, 'mask_offset', t) + 256 <= len(self.search_masks))")
    c.ghost("__assert__(start == py_slice_lo(seq_length, entry.search_start) and start + search_length == py_slice_hi(seq_length, entry.search_start, entry.search_stop), "
            "'searched_window_is_the_python_slice')", before="search_ptr = seq + start")
    E = "self.search_entries"
    LO = f"py_slice_lo(len(sequence), field({E}, 'search_start', t))"
    HI = f"py_slice_hi(len(sequence), field({E}, 'search_start', t), field({E}, 'search_stop', t))"
    # entry t finds one of its words in its window sequence[search_start:search_stop] (stop == 0 standing for the end)
    WIN = (f"({HI} > {LO} and present_in(sequence, {LO}, {HI} - {LO}, self.search_masks, field({E}, 'mask_offset', t), "
           f"field({E}, 'init_mask', t), field({E}, 'found_mask', t)))")
    c.loop(1, head="for i in range(self.number_of_searches)",
           inv=["0 <= i_next <= self.number_of_searches and seq_length == len(sequence)",
                f"forall(t, 0, i_next, not {WIN})"])
    c.ensures(no_out_of_bounds_read="True",
              true_iff_some_entry_finds_a_word_in_its_python_slice_window=f"result == (not forall(t, 0, self.number_of_searches, not {WIN}))")
    c.runtime = {"module": "c07", "name": "kmers_present", "asan": True}
    c.mutant("stop = seq_length + stop", "stop = seq_length + stop + 1")
    c.mutant("if start < 0:\n                start = 0", "if start < 0:\n                start = 1")
    c.mutant("elif stop == 0:\n            stop = seq_length", "elif stop == 0:\n            stop = seq_length - 1")


def classify_loss(f):
    """Known classes of prefilter losses (see known_findings.jsonl); anything else is a new violation."""
    inp = f.get("input") or {}
    obs = f.get("observed", "")
    kind = inp.get("kind")
    if kind == "anywhere" and len(inp.get("read", "")) < len(inp.get("adapter", "")):
        return "bounded:prefilter:anywhere_read_shorter_than_adapter"
    if kind in ("prefix", "suffix", "front_ni", "back_ni") and inp.get("indels"):
        return "bounded:prefilter:anchored_or_noninternal_with_indels"
    return None


def extra_checks(res, tier, seed, known, log):
    from pyvc import runner
    runner.runtime_standin(res, "C07", "c07", "kmers_present", seed, 3000 if tier == "quick" else 40000, 40 if tier == "quick" else 300,
                           asan=True, label="kmers_present vs Python slice semantics under AddressSanitizer")
    runner.runtime_standin(res, "C07", "c01", "match_to", seed, 6000 if tier == "quick" else 100000, 60 if tier == "quick" else 900,
                           prefix="C07:", classify=classify_loss, known=known,
                           label="match_to with the k-mer prefilter vs with the always-true finder, all eight adapter types")
