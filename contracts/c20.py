"""C20 — per-adapter statistics describe exactly the matches that were applied."""
import z3
from pyvc import api, heap
from pyvc.api import contract, Int, Bool, Real, Str, OptT, ObjT, TupT, SeqT, MapT, schema
from pyvc.values import *  # noqa
from pyvc.calls import Mut
from .shapes import MatchT, SingleMatchT, LinkedT, match_spec2, record_spec
from .c09 import mt_spec

TRUSTED = [
    "dict semantics of the adjacent-base table: keys 'A','C','G','T','' exist, any other key raises KeyError",
    "defaultdict(int) / defaultdict(defaultdict(int)) = total maps with default 0",
]

schema("AdjBases", A=Int, C=Int, G=Int, T=Int, empty=Int)
schema("EndStatistics", errors=MapT(MapT()), adjacent_bases=ObjT("AdjBases"))
EndT = ObjT("EndStatistics")
_KEYS = [("A", 65), ("C", 67), ("G", 71), ("T", 84)]


def adj_get(ex, st, m, idx, node, spec):
    s = as_str(idx)
    valid = z3.Or(s.n == 0, z3.And(s.n == 1, z3.Or(*[s.arr[0] == c for _, c in _KEYS])))
    if not spec:
        ex.cx.pending.append((z3.Not(valid), "KeyError"))
    res = m.fields["empty"]
    for k, c in _KEYS:
        res = z3.If(z3.And(s.n == 1, s.arr[0] == c), m.fields[k], res)
    return res


def adj_set(ex, st, m, idx, v, node):
    s = as_str(idx)
    f = dict(m.fields)
    for k, c in _KEYS:
        f[k] = z3.If(z3.And(s.n == 1, s.arr[0] == c), v, m.fields[k])
    f["empty"] = z3.If(s.n == 0, v, m.fields["empty"])
    return ObjV("AdjBases", f)


def install(world):
    world.handlers[("AdjBases", "__getitem__")] = adj_get
    world.handlers[("AdjBases", "__setitem__")] = adj_set


def stat_spec(cx):
    mt_spec(cx)
    if "cell_plus_one" in cx.spec:
        return

    def cell_plus_one(new, old, l, e):
        """new == old except that cell [l][e] is one larger."""
        return new.arr == z3.Store(old.arr, l, z3.Store(old.arr[l], e, old.arr[l][e] + 1))

    def adj_plus_one(new, old, base):
        """new == old except that the bucket of `base` (a 0/1-character string; non-ACGT counts as '') is one larger."""
        b = as_str(base)
        conds = []
        hit_any = z3.BoolVal(False)
        for k, c in _KEYS:
            hit = z3.And(b.n == 1, b.arr[0] == c)
            hit_any = z3.Or(hit_any, hit)
            conds.append(new.fields[k] == old.fields[k] + z3.If(hit, 1, 0))
        conds.append(new.fields["empty"] == old.fields["empty"] + z3.If(hit_any, 0, 1))
        return z3.And(*conds)

    def adj_same(new, old):
        return z3.And(*[new.fields[k] == old.fields[k] for k in ("A", "C", "G", "T", "empty")])

    def end_same(new, old):
        return z3.And(new.fields["errors"].arr == old.fields["errors"].arr, adj_same(new.fields["adjacent_bases"], old.fields["adjacent_bases"]))

    cx.spec.update(cell_plus_one=cell_plus_one, adj_plus_one=adj_plus_one, adj_same=adj_same, end_same=end_same)


SINGLE_WF = "wf_single(match)"
ADJ = "(match.sequence[match.rstart - 1:match.rstart])"   # the base before a 3' match ('' at the read start)


@contract("adapters.py", "FrontAdapterStatistics.add_match", props=["C20"])
def front_add_match(c):
    c.runtime = {"module": "cmods", "name": "report_histogram", "replay_count": 4000}
    c.types(self=ObjT("FrontAdapterStatistics", end=EndT, reverse_complemented=Int), match=SingleMatchT)
    c.spec(stat_spec)
    c.modifies = ["self"]
    c.requires(wf=SINGLE_WF, five_prime_match="match.__cls__ == RB()")
    c.ensures(
        one_cell_removed_length_by_errors="cell_plus_one(self.end.errors, old(self.end.errors), match.rstop, match.errors)",
        nothing_else_changes="adj_same(self.end.adjacent_bases, old(self.end.adjacent_bases)) and self.reverse_complemented == old(self.reverse_complemented)",
    )
    c.mutant("match.removed_sequence_length()", "match.removed_sequence_length() + 1")
    c.mutant("+= 1", "+= 2")


@contract("adapters.py", "BackAdapterStatistics.add_match", props=["C20"])
def back_add_match(c):
    c.runtime = {"module": "cmods", "name": "report_histogram", "replay_count": 4000}
    c.types(self=ObjT("BackAdapterStatistics", end=EndT, reverse_complemented=Int), match=SingleMatchT)
    c.spec(stat_spec)
    c.modifies = ["self"]
    c.requires(wf=SINGLE_WF, three_prime_match="match.__cls__ == RA()")
    c.ensures(
        one_cell_removed_length_by_errors="cell_plus_one(self.end.errors, old(self.end.errors), len(match.sequence) - match.rstart, match.errors)",
        adjacent_base_bucket=f"adj_plus_one(self.end.adjacent_bases, old(self.end.adjacent_bases), {ADJ})",
        nothing_else_changes="self.reverse_complemented == old(self.reverse_complemented)",
    )
    c.mutant("self.end.adjacent_bases[''] += 1", "pass")
    c.mutant("self.end.errors[match.removed_sequence_length()][match.errors] += 1", "self.end.errors[match.errors][match.removed_sequence_length()] += 1")


AnyT = ObjT("AnywhereAdapterStatistics", front=EndT, back=EndT, reverse_complemented=Int)


@contract("adapters.py", "AnywhereAdapterStatistics.add_match", props=["C20"])
def anywhere_add_match(c):
    c.runtime = {"module": "cmods", "name": "report_histogram", "replay_count": 4000}
    c.types(self=AnyT, match=SingleMatchT)
    c.spec(stat_spec)
    c.modifies = ["self"]
    c.requires(wf=SINGLE_WF, tag="match.__cls__ == RB() or match.__cls__ == RA()")
    c.ensures(
        five_prime_match_counted_in_front="implies(match.__cls__ == RB(), cell_plus_one(self.front.errors, old(self.front.errors), match.rstop, match.errors) and "
                                          "end_same(self.back, old(self.back)) and adj_same(self.front.adjacent_bases, old(self.front.adjacent_bases)))",
        three_prime_match_counted_in_back=f"implies(match.__cls__ == RA(), cell_plus_one(self.back.errors, old(self.back.errors), len(match.sequence) - match.rstart, match.errors) and "
                                          f"end_same(self.front, old(self.front)) and adj_plus_one(self.back.adjacent_bases, old(self.back.adjacent_bases), {ADJ}))",
        nothing_else_changes="self.reverse_complemented == old(self.reverse_complemented)",
    )
    c.mutant("self.front.errors[match.removed_sequence_length()][match.errors] += 1", "self.back.errors[match.removed_sequence_length()][match.errors] += 1")
    c.mutant("self.back.errors[match.removed_sequence_length()][match.errors] += 1", "self.back.errors[match.removed_sequence_length()][match.errors] += 2", occurrence=1)


LStatT = ObjT("LinkedAdapterStatistics", front=EndT, back=EndT, reverse_complemented=Int)


@contract("adapters.py", "LinkedAdapterStatistics.add_match", props=["C20"])
def linked_add_match(c):
    c.runtime = {"module": "cmods", "name": "report_histogram", "replay_count": 4000}
    c.types(self=LStatT, match=LinkedT)
    c.spec(stat_spec)
    c.modifies = ["self"]
    from .c03 import LINKED_WF
    c.requires(**{k: v.replace("self.", "match.") for k, v in LINKED_WF.items()})
    F, B_ = "val(match.front_match)", "val(match.back_match)"
    BADJ = f"({B_}.sequence[{B_}.rstart - 1:{B_}.rstart])"
    c.ensures(
        front_part_counted_once=f"implies(not is_none(match.front_match), cell_plus_one(self.front.errors, old(self.front.errors), {F}.rstop, {F}.errors))",
        no_front_part_no_front_count="implies(is_none(match.front_match), end_same(self.front, old(self.front)))",
        back_part_counted_once=f"implies(not is_none(match.back_match), cell_plus_one(self.back.errors, old(self.back.errors), len({B_}.sequence) - {B_}.rstart, {B_}.errors) and "
                               f"adj_plus_one(self.back.adjacent_bases, old(self.back.adjacent_bases), {BADJ}))",
        no_back_part_no_back_count="implies(is_none(match.back_match), end_same(self.back, old(self.back)))",
        front_has_no_adjacent_base="adj_same(self.front.adjacent_bases, old(self.front.adjacent_bases))",
    )
    c.mutant("if match.back_match:", "if match.back_match and match.front_match:")
    c.mutant("match.front_match.errors", "match.back_match.errors", occurrence=1)


def extra_checks(res, tier, seed, known, log):
    from pyvc import runner
    r = runner.run_native("c20_error_ranges.py", {"maxlen": 40 if tier == "quick" else 120}, timeout=1800)
    js = r["json"]
    if js is None:
        res.errors.append(("crash", "c20_error_ranges.py: " + r["stderr"][-800:]))
        return
    res.native.append({"name": "ErrorRanges.lengths() vs int(L*rate) for every L", "bounded": True, "cases": js["cases"],
                       "distinct_nontrivial": js["distinct_nontrivial"], "bounds": js["bounds"], "exhaustive_within_bounds": True,
                       "failures": js["failures"], "samples": js["samples"]})
    if js["failures"]:
        k = runner.match_known(known, "C20", "bounded:ErrorRanges")
        if k is not None:
            class _O:
                oid = "bounded:ErrorRanges"
            res.known.append((k, _O()))
        else:
            path = runner.write_replay("C20", "ErrorRanges", {"property": "C20", "obligation": "bounded:ErrorRanges",
                                                              "failing_input": js["failures"][0], "count": js["nfailures"], "all": js["failures"]})
            res.violations.append({"replay": path})
    # the report side (histogram_rows and the JSON assembled from it) is a generator over dicts of dicts with float columns:
    # runtime contract "the histogram in the report equals the tally of the applied matches" as the bounded stand-in
    runner.runtime_standin(res, "C20", "cmods", "report_histogram", seed, 2000 if tier == "quick" else 40000, 60 if tier == "quick" else 600, prefix="C20:",
                           label="report: histogram by removed length and error count equals the tally of the applied matches (bounded)")
    runner.runtime_standin(res, "C20", "cmods", "revcomp", seed, 1500 if tier == "quick" else 20000, 60 if tier == "quick" else 300, prefix="C20:",
                           label="--revcomp: matches in the per-adapter statistics equal the applied matches (bounded)")
