"""C15: the writers a demultiplexer opens when it is built - one per adapter name, on the path obtained from the template by
replacing {name}, plus the file for reads without match: none with --discard-untrimmed, the --untrimmed-output file if
given, otherwise the template with {name} = unknown.  ("A file is created for every adapter name even if it stays empty.")"""
import z3
from pyvc import api
from pyvc.api import contract, Int, Bool, Str, OptT, ObjT, TupT, schema
from pyvc.values import *  # noqa
from pyvc.engine import str_eq

TRUSTED = [
    "a dict keyed by strings is a total map from (characters, length) to (present, value); adapter names are in canonical form "
    "(no characters beyond their length), so equal names are equal keys; str.replace is an uninterpreted function of its three "
    "arguments; OutputFiles.open_record_writer returns a new writer for the path(s) it is given (what it opens: C19)",
]

KEYMAP_HAS = z3.ArraySort(AII, I, B)
KEYMAP_VAL = z3.ArraySort(AII, I, I)
NAME_ARR = z3.Function("NAME.arr", I, AII)
NAME_N = z3.Function("NAME.n", I, I)
WPATH_ARR = [z3.Function(f"WRITER_PATH{k}.arr", I, AII) for k in (1, 2)]
WPATH_N = [z3.Function(f"WRITER_PATH{k}.n", I, I) for k in (1, 2)]
schema("OutFilesAbs")


class NamesT(api.T):
    """sequence of adapter names (strings in canonical form)"""


_mk = api.mk


def _mk_ext(t, name, inv):
    if isinstance(t, NamesT):
        ids = fresh(name + ".ids", AII)
        n = fresh(name + ".n", I)
        j, k = z3.Int("j!nm"), z3.Int("k!nm")
        inv += [n >= 0, z3.ForAll([j], z3.And(NAME_N(ids[j]) >= 0, z3.ForAll([k], z3.Implies(z3.Or(k < 0, k >= NAME_N(ids[j])), NAME_ARR(ids[j])[k] == 0))))]
        return SeqV(ids, n, lambda i: StrV(NAME_ARR(i), NAME_N(i)))
    return _mk(t, name, inv)


api.mk = _mk_ext


def install(world):
    def new_dict(ex, st, args, kwargs, node, spec):
        if args or kwargs:
            raise Unsupported("dict(...) with arguments")
        return ObjV("StrKeyDict", {"has": z3.K(AII, z3.K(I, z3.BoolVal(False))) if False else fresh("emptydict.has", KEYMAP_HAS),
                                   "val": fresh("emptydict.val", KEYMAP_VAL), "empty": z3.BoolVal(True)})
    prev_dict = world.builtins.get("dict")

    def b_dict(ex, st, args, kwargs, node, spec):
        if not args and not kwargs and getattr(ex.cx.c, "string_key_dicts", False):
            d = new_dict(ex, st, args, kwargs, node, spec)
            a, n = z3.Const("a!ed", AII), z3.Int("n!ed")
            st.pc.append(z3.ForAll([a, n], z3.Not(z3.Select(d.fields["has"], a, n)), patterns=[z3.Select(d.fields["has"], a, n)]))
            return d
        return prev_dict(ex, st, args, kwargs, node, spec)
    world.builtins["dict"] = b_dict

    def setitem(ex, st, d, idx, v, node):
        s = as_str(idx)
        return ObjV("StrKeyDict", {"has": z3.Store(d.fields["has"], s.arr, s.n, z3.BoolVal(True)),
                                   "val": z3.Store(d.fields["val"], s.arr, s.n, v.fields["__id__"]), "empty": z3.BoolVal(False)})
    world.handlers[("StrKeyDict", "__setitem__")] = setitem

    def open_writer(ex, st, o, args, kwargs, node, spec):
        wid = fresh("id.writer", I)
        for k, a in enumerate(args[:2]):
            a = ex.need_not_none(a, st, node, "path") if isinstance(a, Opt) else a
            s = as_str(a)
            st.pc += [WPATH_ARR[k](wid) == s.arr, WPATH_N[k](wid) == s.n]
        return ObjV("Writer", {"__id__": wid})
    world.handlers[("OutFilesAbs", "open_record_writer")] = open_writer


def demux_open_spec(cx):
    def has(d, name):
        s = as_str(name)
        return z3.Select(d.fields["has"], s.arr, s.n)

    def writer_path_is(d, name, path, k=0):
        """the writer stored under `name` was opened on `path` (as its k-th file)"""
        s, p = as_str(name), as_str(path)
        wid = z3.Select(d.fields["val"], s.arr, s.n)
        k = k if isinstance(k, int) else z3.simplify(k).as_long()
        return z3.And(WPATH_ARR[k](wid) == p.arr, WPATH_N[k](wid) == p.n)

    def opened_on(w, path, k=0):
        p = as_str(path)
        w = w.val if isinstance(w, Opt) else w
        k = k if isinstance(k, int) else z3.simplify(k).as_long()
        return z3.And(WPATH_ARR[k](w.fields["__id__"]) == p.arr, WPATH_N[k](w.fields["__id__"]) == p.n)

    def name_at(names, j):
        return StrV(NAME_ARR(names.arr[j]), NAME_N(names.arr[j]))

    cx.spec.update(has=has, writer_path_is=writer_path_is, opened_on=opened_on, name_at=name_at)


@contract("steps.py", "Demultiplexer._open_writers", props=["C15"])
def demux_open_writers(c):
    c.types(adapter_names=NamesT(), template=Str, untrimmed_output=OptT(Str), discard_untrimmed=Bool, outfiles=ObjT("OutFilesAbs"))
    c.string_key_dicts = True
    c.spec(demux_open_spec)
    ALL = lambda upto: (f"forall(t, 0, {upto}, has(writers, name_at(adapter_names, t)) and "
                        f"writer_path_is(writers, name_at(adapter_names, t), template.replace('{{name}}', name_at(adapter_names, t))))")
    c.loop(1, head="for name in adapter_names", inv=["0 <= __k1 <= len(adapter_names)", ALL("__k1")])
    c.ensures(
        a_file_for_every_adapter_name_on_the_path_named_after_it=ALL("len(adapter_names)").replace("writers", "result[0]"),
        no_file_for_unmatched_reads_when_they_are_discarded="is_none(result[1]) == discard_untrimmed",
        unmatched_reads_go_to_the_untrimmed_output_or_the_unknown_file=
        "implies(not discard_untrimmed and truthy(untrimmed_output), opened_on(result[1], val(untrimmed_output))) and "
        "implies(not discard_untrimmed and not truthy(untrimmed_output), opened_on(result[1], template.replace('{name}', 'unknown')))",
    )
    c.spec(lambda cx: cx.spec.update(truthy=lambda v: boolify(v)))
    c.mutant("if discard_untrimmed:", "if not discard_untrimmed:")
    c.mutant("untrimmed_path = template.replace('{name}', 'unknown')", "untrimmed_path = template")
    c.mutant("writers[name] = outfiles.open_record_writer(path)", "writers[name] = outfiles.open_record_writer(template)")


@contract("steps.py", "PairedDemultiplexer._open_writers", props=["C15", "C05"])
def paired_demux_open_writers(c):
    """the same for pairs: one writer per adapter name of R1 on the two paths named after it"""
    c.types(adapter_names=NamesT(), template1=Str, template2=Str, untrimmed_output=OptT(Str), untrimmed_paired_output=OptT(Str),
            discard_untrimmed=Bool, outfiles=ObjT("OutFilesAbs"))
    c.string_key_dicts = True
    c.spec(demux_open_spec)
    NM = "name_at(adapter_names, t)"
    ALL = lambda upto, d: (f"forall(t, 0, {upto}, has({d}, {NM}) and writer_path_is({d}, {NM}, template1.replace('{{name}}', {NM}), 0) and "
                           f"writer_path_is({d}, {NM}, template2.replace('{{name}}', {NM}), 1))")
    c.loop(1, head="for name in adapter_names", inv=["0 <= __k1 <= len(adapter_names)", ALL("__k1", "demultiplex_out")])
    c.ensures(
        a_pair_of_files_for_every_adapter_name_on_the_paths_named_after_it=ALL("len(adapter_names)", "result[0]"),
        no_files_for_unmatched_pairs_when_they_are_discarded="is_none(result[1]) == discard_untrimmed",
        unmatched_pairs_go_to_the_untrimmed_outputs_or_the_unknown_files=
        "implies(not discard_untrimmed, "
        "opened_on(result[1], val(untrimmed_output) if not is_none(untrimmed_output) else template1.replace('{name}', 'unknown'), 0) and "
        "opened_on(result[1], val(untrimmed_paired_output) if not is_none(untrimmed_paired_output) else template2.replace('{name}', 'unknown'), 1))",
    )
    c.mutant("path2 = template2.replace('{name}', name)", "path2 = template1.replace('{name}', name)")
    c.mutant("untrimmed_path2 = untrimmed_paired_output", "untrimmed_path2 = untrimmed_output")
