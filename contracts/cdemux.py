"""C15: the writers a demultiplexer opens when it is built - one per adapter name, on the path obtained from the template by
replacing {name}, plus the file for reads without match: none with --discard-untrimmed, the --untrimmed-output file if
given, otherwise the template with {name} = unknown.  ("A file is created for every adapter name even if it stays empty.")"""
import z3
from pyvc import api
from pyvc.api import contract, Int, Bool, Str, OptT, ObjT, TupT, schema
from pyvc.values import *  # noqa
from pyvc.engine import str_eq

TRUSTED = [
    "a dict keyed by strings is a total map from (characters, length) to (present, value); adapter names are in canonical form "
    "(no characters beyond their length), so equal names are equal keys; str.replace is an uninterpreted function of its three "
    "arguments; OutputFiles.open_record_writer returns a new writer for the path(s) it is given (what it opens: C19)",
]

KEYMAP_HAS = z3.ArraySort(AII, I, B)
KEYMAP_VAL = z3.ArraySort(AII, I, I)
NAME_ARR = z3.Function("NAME.arr", I, AII)
NAME_N = z3.Function("NAME.n", I, I)
WPATH_ARR = [z3.Function(f"WRITER_PATH{k}.arr", I, AII) for k in (1, 2)]
WPATH_N = [z3.Function(f"WRITER_PATH{k}.n", I, I) for k in (1, 2)]
schema("OutFilesAbs")


class NamesT(api.T):
    """sequence of adapter names (strings in canonical form)"""


_mk = api.mk


def _mk_ext(t, name, inv):
    if isinstance(t, NamesT):
        ids = fresh(name + ".ids", AII)
        n = fresh(name + ".n", I)
        j, k = z3.Int("j!nm"), z3.Int("k!nm")
        inv += [n >= 0, z3.ForAll([j], z3.And(NAME_N(ids[j]) >= 0, z3.ForAll([k], z3.Implies(z3.Or(k < 0, k >= NAME_N(ids[j])), NAME_ARR(ids[j])[k] == 0))))]
        return SeqV(ids, n, lambda i: StrV(NAME_ARR(i), NAME_N(i)))
    return _mk(t, name, inv)


api.mk = _mk_ext


def install(world):
    def new_dict(ex, st, args, kwargs, node, spec):
        if args or kwargs:
            raise Unsupported("dict(...) with arguments")
        return ObjV("StrKeyDict", {"has": z3.K(AII, z3.K(I, z3.BoolVal(False))) if False else fresh("emptydict.has", KEYMAP_HAS),
                                   "val": fresh("emptydict.val", KEYMAP_VAL), "empty": z3.BoolVal(True)})
    prev_dict = world.builtins.get("dict")

    def b_dict(ex, st, args, kwargs, node, spec):
        if not args and not kwargs and getattr(ex.cx.c, "string_key_dicts", False):
            d = new_dict(ex, st, args, kwargs, node, spec)
            a, n = z3.Const("a!ed", AII), z3.Int("n!ed")
            st.pc.append(z3.ForAll([a, n], z3.Not(z3.Select(d.fields["has"], a, n)), patterns=[z3.Select(d.fields["has"], a, n)]))
            return d
        return prev_dict(ex, st, args, kwargs, node, spec)
    world.builtins["dict"] = b_dict

    def setitem(ex, st, d, idx, v, node):
        s = as_str(idx)
        return ObjV("StrKeyDict", {"has": z3.Store(d.fields["has"], s.arr, s.n, z3.BoolVal(True)),
                                   "val": z3.Store(d.fields["val"], s.arr, s.n, v.fields["__id__"]), "empty": z3.BoolVal(False)})
    world.handlers[("StrKeyDict", "__setitem__")] = setitem

    def open_writer(ex, st, o, args, kwargs, node, spec):
        wid = fresh("id.writer", I)
        for k, a in enumerate(args[:2]):
            a = ex.need_not_none(a, st, node, "path") if isinstance(a, Opt) else a
            s = as_str(a)
            st.pc += [WPATH_ARR[k](wid) == s.arr, WPATH_N[k](wid) == s.n]
        return ObjV("Writer", {"__id__": wid})
    world.handlers[("OutFilesAbs", "open_record_writer")] = open_writer


def demux_open_spec(cx):
    def has(d, name):
        s = as_str(name)
        return z3.Select(d.fields["has"], s.arr, s.n)

    def writer_path_is(d, name, path, k=0):
        """the writer stored under `name` was opened on `path` (as its k-th file)"""
        s, p = as_str(name), as_str(path)
        wid = z3.Select(d.fields["val"], s.arr, s.n)
        k = k if isinstance(k, int) else z3.simplify(k).as_long()
        return z3.And(WPATH_ARR[k](wid) == p.arr, WPATH_N[k](wid) == p.n)

    def opened_on(w, path, k=0):
        p = as_str(path)
        w = w.val if isinstance(w, Opt) else w
        k = k if isinstance(k, int) else z3.simplify(k).as_long()
        return z3.And(WPATH_ARR[k](w.fields["__id__"]) == p.arr, WPATH_N[k](w.fields["__id__"]) == p.n)

    def name_at(names, j):
        return StrV(NAME_ARR(names.arr[j]), NAME_N(names.arr[j]))

    cx.spec.update(has=has, writer_path_is=writer_path_is, opened_on=opened_on, name_at=name_at)


@contract("steps.py", "Demultiplexer._open_writers", props=["C15"])
def demux_open_writers(c):
    c.types(adapter_names=NamesT(), template=Str, untrimmed_output=OptT(Str), discard_untrimmed=Bool, outfiles=ObjT("OutFilesAbs"))
    c.string_key_dicts = True
    c.spec(demux_open_spec)
    ALL = lambda upto: (f"forall(t, 0, {upto}, has(writers, name_at(adapter_names, t)) and "
                        f"writer_path_is(writers, name_at(adapter_names, t), template.replace('{{name}}', name_at(adapter_names, t))))")
    c.loop(1, head="for name in adapter_names", inv=["0 <= __k1 <= len(adapter_names)", ALL("__k1")])
    c.ensures(
        a_file_for_every_adapter_name_on_the_path_named_after_it=ALL("len(adapter_names)").replace("writers", "result[0]"),
        no_file_for_unmatched_reads_when_they_are_discarded="is_none(result[1]) == discard_untrimmed",
        unmatched_reads_go_to_the_untrimmed_output_or_the_unknown_file=
        "implies(not discard_untrimmed and truthy(untrimmed_output), opened_on(result[1], val(untrimmed_output))) and "
        "implies(not discard_untrimmed and not truthy(untrimmed_output), opened_on(result[1], template.replace('{name}', 'unknown')))",
    )
    c.spec(lambda cx: cx.spec.update(truthy=lambda v: boolify(v)))
    c.mutant("if discard_untrimmed:", "if not discard_untrimmed:")
    c.mutant("untrimmed_path = template.replace('{name}', 'unknown')", "untrimmed_path = template")
    c.mutant("writers[name] = outfiles.open_record_writer(path)", "writers[name] = outfiles.open_record_writer(template)")


@contract("steps.py", "PairedDemultiplexer._open_writers", props=["C15", "C05"])
def paired_demux_open_writers(c):
    """the same for pairs: one writer per adapter name of R1 on the two paths named after it"""
    c.types(adapter_names=NamesT(), template1=Str, template2=Str, untrimmed_output=OptT(Str), untrimmed_paired_output=OptT(Str),
            discard_untrimmed=Bool, outfiles=ObjT("OutFilesAbs"))
    c.string_key_dicts = True
    c.spec(demux_open_spec)
    NM = "name_at(adapter_names, t)"
    ALL = lambda upto, d: (f"forall(t, 0, {upto}, has({d}, {NM}) and writer_path_is({d}, {NM}, template1.replace('{{name}}', {NM}), 0) and "
                           f"writer_path_is({d}, {NM}, template2.replace('{{name}}', {NM}), 1))")
    c.loop(1, head="for name in adapter_names", inv=["0 <= __k1 <= len(adapter_names)", ALL("__k1", "demultiplex_out")])
    c.ensures(
        a_pair_of_files_for_every_adapter_name_on_the_paths_named_after_it=ALL("len(adapter_names)", "result[0]"),
        no_files_for_unmatched_pairs_when_they_are_discarded="is_none(result[1]) == discard_untrimmed",
        unmatched_pairs_go_to_the_untrimmed_outputs_or_the_unknown_files=
        "implies(not discard_untrimmed, "
        "opened_on(result[1], val(untrimmed_output) if not is_none(untrimmed_output) else template1.replace('{name}', 'unknown'), 0) and "
        "opened_on(result[1], val(untrimmed_paired_output) if not is_none(untrimmed_paired_output) else template2.replace('{name}', 'unknown'), 1))",
    )
    c.mutant("path2 = template2.replace('{name}', name)", "path2 = template1.replace('{name}', name)")
    c.mutant("untrimmed_path2 = untrimmed_paired_output", "untrimmed_path2 = untrimmed_output")


# ------------------------------------------------------------------------------ CombinatorialDemultiplexer._open_writers
# The writers dict is keyed by pairs (name1 | None, name2 | None); the pairs come from itertools.product over the two name
# lists plus, unless untrimmed pairs are discarded, (None, None), (None, name2) and (name1, None).  A list of such pairs is
# modelled by its membership relation over name ids (-1 = None): product, the comprehensions, list literals and `+` build the
# relation from the code; iterating over the list enumerates exactly the members.
A2B = z3.ArraySort(I, z3.ArraySort(I, B))
NAMES_IN = z3.Function("NAMES.in", AII, I, I, B)
NAMES_POS = z3.Function("NAMES.pos", AII, I, I, I)
K0 = z3.K(I, z3.IntVal(0))
PAIRMAP_HAS = z3.ArraySort(AII, I, AII, I, B)
PAIRMAP_VAL = z3.ArraySort(AII, I, AII, I, I)
TRUSTED.append("itertools.product(a, b) enumerates exactly the pairs of an element of a and an element of b; a list enumerates exactly "
               "its elements when iterated; names are identified by integer ids (equal ids = the same string), None by -1")


def _cache(cx, name):
    return cx.__dict__.setdefault(name, {})


def _in(cx, names, a):
    """`a` is the id of one of the names; axioms once per list"""
    ids, n = names.arr, names.n
    c_ = _cache(cx, "_names_in")
    key = (ids.get_id(), n.get_id())
    if key not in c_:
        c_[key] = True
        i, x = z3.Int("i!ni"), z3.Int("x!ni")
        cx.axioms += [z3.ForAll([i], z3.Implies(z3.And(0 <= i, i < n), z3.And(NAMES_IN(ids, n, ids[i]), ids[i] >= 0)), patterns=[ids[i]]),
                      z3.ForAll([x], z3.Implies(NAMES_IN(ids, n, x), z3.And(0 <= NAMES_POS(ids, n, x), NAMES_POS(ids, n, x) < n,
                                                                               ids[NAMES_POS(ids, n, x)] == x, x >= 0)), patterns=[NAMES_IN(ids, n, x)])]
    return NAMES_IN(ids, n, a)


def _enum(cx, key, body):
    """membership array defined by `body(a, b)`, one per key"""
    c_ = _cache(cx, "_pair_enums")
    if key not in c_:
        m = fresh("pairs", A2B)
        a, b = z3.Int("a!pe"), z3.Int("b!pe")
        cx.axioms.append(z3.ForAll([a, b], m[a][b] == body(a, b), patterns=[m[a][b]]))
        c_[key] = m
    return ObjV("PairEnum", {"mem": c_[key]})


def _to_enum(cx, v):
    if isinstance(v, ObjV) and v.cls == "PairEnum":
        return v
    if isinstance(v, ListV):
        # a literal list: [] or [(None, None)] - the membership relation as a constant array, no axiom needed
        row0 = z3.K(I, z3.BoolVal(False))
        m = z3.K(I, row0)
        for g, it in v.items:
            if not (z3.is_true(z3.simplify(g)) and isinstance(it, TupV) and len(it.items) == 2 and all(x is None for x in it.items)):
                raise Unsupported("list of pairs other than (None, None) next to an enumerated pair list")
            m = z3.Store(m, z3.IntVal(-1), z3.Store(row0, z3.IntVal(-1), z3.BoolVal(True)))
        return ObjV("PairEnum", {"mem": m})
    raise Unsupported(f"pair list from {v!r}")


def _merge_pair_lists(a, b):
    ea, eb = isinstance(a, ObjV) and a.cls == "PairEnum", isinstance(b, ObjV) and b.cls == "PairEnum"
    if ea and isinstance(b, ListV):
        return a, _to_enum(None, b)
    if eb and isinstance(a, ListV):
        return _to_enum(None, a), b
    return None


MERGE_COERCIONS.append(_merge_pair_lists)


_install_prev_cd = install


def install(world):
    _install_prev_cd(world)

    def product(ex, st, args, kwargs, node, spec):
        x, y = args
        if not (isinstance(x, SeqV) and isinstance(y, SeqV)) or kwargs:
            raise Unsupported("itertools.product of other than two name lists")
        cx = ex.cx
        return _enum(cx, ("product", x.arr.get_id(), x.n.get_id(), y.arr.get_id(), y.n.get_id()), lambda a, b: z3.And(_in(cx, x, a), _in(cx, y, b)))
    world.builtins["itertools.product"] = product

    def concat(ex, st, l, r, node):
        l, r = _to_enum(ex.cx, l), _to_enum(ex.cx, r)
        ml, mr = l.fields["mem"], r.fields["mem"]
        return _enum(ex.cx, ("concat", ml.get_id(), mr.get_id()), lambda a, b: z3.Or(ml[a][b], mr[a][b]))
    world.handlers[("PairEnum", "__concat__")] = concat

    def iterate(ex, st, v, args, kwargs, node, spec):
        k1, k2, n, _ = _enumeration(ex.cx, v)
        t = z3.Int("t!it")
        return SeqV(z3.Lambda([t], t), n, lambda x: TupV((_opt_name(k1[x]), _opt_name(k2[x]))))
    world.handlers[("PairEnum", "__iter__")] = iterate

    prev_dict = world.builtins.get("dict")

    def b_dict(ex, st, args, kwargs, node, spec):
        if not args and not kwargs and getattr(ex.cx.c, "pair_key_dicts", False):
            d = ObjV("PairKeyDict", {"has": fresh("emptydict.has", PAIRMAP_HAS), "val": fresh("emptydict.val", PAIRMAP_VAL)})
            a1, n1, a2, n2 = z3.Const("a1!pd", AII), z3.Int("n1!pd"), z3.Const("a2!pd", AII), z3.Int("n2!pd")
            st.pc.append(z3.ForAll([a1, n1, a2, n2], z3.Not(z3.Select(d.fields["has"], a1, n1, a2, n2)), patterns=[z3.Select(d.fields["has"], a1, n1, a2, n2)]))
            return d
        return prev_dict(ex, st, args, kwargs, node, spec)
    world.builtins["dict"] = b_dict

    def setitem(ex, st, d, idx, v, node):
        if not (isinstance(idx, TupV) and len(idx.items) == 2):
            raise Unsupported("key of a pair-keyed dict that is not a pair")
        k = _key_part(idx.items[0]) + _key_part(idx.items[1])
        return ObjV("PairKeyDict", {"has": z3.Store(d.fields["has"], *k, z3.BoolVal(True)), "val": z3.Store(d.fields["val"], *k, v.fields["__id__"])})
    world.handlers[("PairKeyDict", "__setitem__")] = setitem


def _opt_name(i):
    return Opt(i == -1, StrV(NAME_ARR(i), NAME_N(i)))


def _key_part(x):
    """(array, length) of one component of a pair key; None is (constant array, -1)"""
    if x is None:
        return (K0, z3.IntVal(-1))
    if isinstance(x, Opt):
        s = as_str(x.val)
        return (z3.If(x.none, K0, s.arr), z3.If(x.none, -1, s.n))
    s = as_str(x)
    return (s.arr, s.n)


def _enumeration(cx, v):
    """what iterating over the pair list yields: positions 0..n-1 hold exactly the members"""
    m = v.fields["mem"]
    c_ = _cache(cx, "_pair_iter")
    if m.get_id() not in c_:
        k1, k2, n = fresh("enum.k1", AII), fresh("enum.k2", AII), fresh("enum.n", I)
        pos = z3.Function("enum.pos!%d" % len(c_), I, I, I)
        t, a, b = z3.Int("t!en"), z3.Int("a!en"), z3.Int("b!en")
        cx.axioms += [n >= 0,
                      z3.ForAll([t], z3.Implies(z3.And(0 <= t, t < n), z3.And(m[k1[t]][k2[t]], k1[t] >= -1, k2[t] >= -1)), patterns=[k1[t]]),
                      z3.ForAll([a, b], z3.Implies(m[a][b], z3.And(0 <= pos(a, b), pos(a, b) < n, k1[pos(a, b)] == a, k2[pos(a, b)] == b)),
                                patterns=[m[a][b]])]
        c_[m.get_id()] = (k1, k2, n, pos)
    return c_[m.get_id()]


def comb_spec(cx):
    demux_open_spec(cx)

    def comprehension(ex, n, st, spec, b, kind, seq):
        """[(None, x) for x in names] / [(x, None) for x in names]: membership from the element expression"""
        g = n.generators[0]
        if not (kind == "seq" and seq[0] == "plain" and not g.ifs and isinstance(g.target, ast.Name) and isinstance(n.elt, ast.Tuple) and len(n.elt.elts) == 2):
            return None
        names = seq[1]
        shape = []
        for e in n.elt.elts:
            if isinstance(e, ast.Constant) and e.value is None:
                shape.append("none")
            elif isinstance(e, ast.Name) and e.id == g.target.id:
                shape.append("var")
            else:
                return None

        def body(a, b_):
            cs = [(x == -1) if s_ == "none" else _in(cx, names, x) for s_, x in zip(shape, (a, b_))]
            if shape == ["var", "var"]:
                cs.append(a == b_)
            return z3.And(*cs)
        return _enum(cx, ("comp", tuple(shape), names.arr.get_id(), names.n.get_id()), body)
    cx.spec["__comprehension_first__"] = comprehension

    def member(g, a, b):
        return g.fields["mem"][a][b]

    def id_at(names, j):
        return names.arr[j]

    def enum_len(g):
        return _enumeration(cx, g)[2]

    def pair_at(g, t, k):
        k1, k2, _, _ = _enumeration(cx, g)
        k = k if isinstance(k, int) else z3.simplify(k).as_long()
        return _opt_name((k1, k2)[k][t])

    def name_or_none(i):
        return _opt_name(i)

    def has_pair(d, x, y):
        return z3.Select(d.fields["has"], *(_key_part(x) + _key_part(y)))

    def pair_writer_on(d, x, y, path, k):
        p = as_str(path)
        wid = z3.Select(d.fields["val"], *(_key_part(x) + _key_part(y)))
        k = k if isinstance(k, int) else z3.simplify(k).as_long()
        return z3.And(WPATH_ARR[k](wid) == p.arr, WPATH_N[k](wid) == p.n)

    cx.spec.update(member=member, id_at=id_at, enum_len=enum_len, pair_at=pair_at, has_pair=has_pair, pair_writer_on=pair_writer_on, name_or_none=name_or_none)


import ast  # noqa


@contract("steps.py", "CombinatorialDemultiplexer._open_writers", props=["C15", "C05"])
def combinatorial_open_writers(c):
    """a writer for every combination of an R1 and an R2 adapter name, opened on the two templates with {name1} / {name2}
    replaced; unless untrimmed pairs are discarded also for (None, None), (None, name2) and (name1, None), with `unknown`
    in the file names"""
    c.types(adapter_names=NamesT(), adapter_names2=NamesT(), template1=Str, template2=Str, discard_untrimmed=Bool, outfiles=ObjT("OutFilesAbs"))
    c.pair_key_dicts = True
    c.runtime = {"module": "cdemux", "name": "combinatorial_open_writers"}
    c.spec(comb_spec)
    c.ghost("g_all = list(itertools.product(adapter_names, adapter_names2)) + extra", before="loop:1")
    F = lambda x: f"(val({x}) if not is_none({x}) else 'unknown')"
    P = lambda tmpl, x, y: f"{tmpl}.replace('{{name1}}', {F(x)}).replace('{{name2}}', {F(y)})"
    AT = lambda x, y: (f"has_pair(writers, {x}, {y}) and pair_writer_on(writers, {x}, {y}, {P('template1', x, y)}, 0) and "
                       f"pair_writer_on(writers, {x}, {y}, {P('template2', x, y)}, 1)")
    K1, K2 = "pair_at(g_all, t, 0)", "pair_at(g_all, t, 1)"
    c.loop(1, head="for name1, name2 in list(itertools.product(adapter_names, adapter_names2)) + extra", inv=["0 <= __k1 <= enum_len(g_all)", f"forall(t, 0, __k1, {AT(K1, K2)})"])
    N1, N2 = "name_or_none(id_at(adapter_names, i))", "name_or_none(id_at(adapter_names2, j))"
    NONE = "name_or_none(-1)"
    R = lambda s_: s_.replace("writers", "result")
    c.ensures(
        every_combination_of_an_R1_and_an_R2_name_is_enumerated=
        f"forall(i, 0, len(adapter_names), forall(j, 0, len(adapter_names2), member(g_all, id_at(adapter_names, i), id_at(adapter_names2, j))))",
        a_writer_for_every_combination_of_an_R1_and_an_R2_name=
        f"forall(i, 0, len(adapter_names), forall(j, 0, len(adapter_names2), implies(member(g_all, id_at(adapter_names, i), id_at(adapter_names2, j)), {R(AT(N1, N2))})))",
        unless_discarded_the_unmatched_combinations_are_enumerated=
        "implies(not discard_untrimmed, member(g_all, -1, -1) and forall(j, 0, len(adapter_names2), member(g_all, -1, id_at(adapter_names2, j))) and "
        "forall(i, 0, len(adapter_names), member(g_all, id_at(adapter_names, i), -1)))",
        unless_discarded_a_writer_for_pairs_without_any_match=
        f"implies(not discard_untrimmed and member(g_all, -1, -1), {R(AT(NONE, NONE))})",
        unless_discarded_a_writer_for_every_R2_name_with_R1_unmatched=
        f"implies(not discard_untrimmed, forall(j, 0, len(adapter_names2), implies(member(g_all, -1, id_at(adapter_names2, j)), {R(AT(NONE, N2))})))",
        unless_discarded_a_writer_for_every_R1_name_with_R2_unmatched=
        f"implies(not discard_untrimmed, forall(i, 0, len(adapter_names), implies(member(g_all, id_at(adapter_names, i), -1), {R(AT(N1, NONE))})))",
    )
    c.mutant("extra += [(name1, None) for name1 in adapter_names]", "extra += [(name1, None) for name1 in adapter_names2]")
    c.mutant("path2 = template2.replace('{name1}', fname1)", "path2 = template1.replace('{name1}', fname1)")
    c.mutant("fname2 = name2 if name2 is not None else 'unknown'", "fname2 = name2 if name2 is not None else 'unknown2'")
