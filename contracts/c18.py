"""C18 — every adapter specification in the documented notation yields the documented search.

Under contract (deductive): the class table, the `...` normalisation, `make_adapter`'s dispatch, the linked and the
non-linked constructors (class, sequence, name, required flags, parameter precedence), the `file:` notation
(anchoring, file-level parameters over global ones), the placement-restriction parser and the error-count -> rate
conversion of `SingleAdapter.__init__`.
Bounded stand-in: a reference parser written from the guide's grammar, compared with the real parser on an enumerated
grammar (`native/c18_reference.py`); this is what covers `expand_braces`, `parse_search_parameters` and
`_extract_name`, whose string loops are outside the encoding.
"""
import z3
from pyvc import api
from pyvc.api import contract, Int, Bool, Real, Str, OptT, ObjT, TupT, SeqT, GListT
from pyvc.values import *  # noqa
from pyvc.engine import str_eq

TRUSTED = [
    "parse_search_parameters, expand_braces and AdapterSpecification._extract_name are abstract at their call sites "
    "(deterministic functions of their argument that may raise); what they compute is covered by the bounded reference-parser "
    "comparison only",
    "str.partition / startswith / endswith / strip / upper semantics as encoded in pyvc/world.py",
    "the adapter classes' constructors are abstract at the parser's call sites (class + constructor arguments); what an adapter "
    "of a class searches for is C01/C02/C09",
]

ADAPTER_CLASSES = ["FrontAdapter", "RightmostFrontAdapter", "BackAdapter", "AnywhereAdapter", "NonInternalFrontAdapter",
                   "NonInternalBackAdapter", "PrefixAdapter", "SuffixAdapter", "LinkedAdapter"]


def cls_spec(cx):
    def is_cls(v, name):
        name = name.v if isinstance(name, PyConst) else name
        if isinstance(v, ClsV):
            return z3.BoolVal(v.name == name)
        if isinstance(v, ChoiceV):
            hits = [g for g, o in v.options if isinstance(o, ClsV) and o.name == name]
            return z3.Or(*hits) if hits else z3.BoolVal(False)
        if isinstance(v, ObjV):
            from pyvc import verify
            tag = v.fields.get("__cls__")
            if tag is None:
                return z3.BoolVal(v.cls == name)
            return tag == verify.world().cls_tag(name)
        if isinstance(v, Opt):
            return z3.And(z3.Not(v.none), is_cls(v.val, name))
        return z3.BoolVal(False)

    def opt_is(v, text):
        """Optional[str] equals the text (None never does)"""
        text = text.v if isinstance(text, PyConst) else text
        if v is None:
            return z3.BoolVal(False)
        if isinstance(v, Opt):
            return z3.And(z3.Not(v.none), str_eq(v.val, PyConst(text)))
        return str_eq(v, PyConst(text))

    cx.spec.update(is_cls=is_cls, opt_is=opt_is)


@contract("parser.py", "AdapterSpecification._restriction_to_class", props=["C18"])
def restriction_to_class(c):
    """-a/-g/-b select 3'/5'/anywhere; ^ and $ anchor; X forbids internal matches; rightmost only for regular 5'."""
    c.types(adapter_type=Str, restriction=OptT(Str), rightmost=Bool)
    c.spec(cls_spec)
    c.requires(types="seq_eq(adapter_type, 'front') or seq_eq(adapter_type, 'back') or seq_eq(adapter_type, 'anywhere')",
               restrictions="is_none(restriction) or opt_is(restriction, 'anchored') or opt_is(restriction, 'noninternal')",
               rightmost_only_for_regular_front="implies(rightmost, seq_eq(adapter_type, 'front') and is_none(restriction))")
    c.raises("ValueError", when="seq_eq(adapter_type, 'anywhere') and not is_none(restriction)")
    c.ensures(
        g_regular="implies(seq_eq(adapter_type, 'front') and is_none(restriction) and not rightmost, is_cls(result, 'FrontAdapter'))",
        g_rightmost="implies(seq_eq(adapter_type, 'front') and rightmost, is_cls(result, 'RightmostFrontAdapter'))",
        g_anchored="implies(seq_eq(adapter_type, 'front') and opt_is(restriction, 'anchored'), is_cls(result, 'PrefixAdapter'))",
        g_noninternal="implies(seq_eq(adapter_type, 'front') and opt_is(restriction, 'noninternal'), is_cls(result, 'NonInternalFrontAdapter'))",
        a_regular="implies(seq_eq(adapter_type, 'back') and is_none(restriction), is_cls(result, 'BackAdapter'))",
        a_anchored="implies(seq_eq(adapter_type, 'back') and opt_is(restriction, 'anchored'), is_cls(result, 'SuffixAdapter'))",
        a_noninternal="implies(seq_eq(adapter_type, 'back') and opt_is(restriction, 'noninternal'), is_cls(result, 'NonInternalBackAdapter'))",
        b_regular="implies(seq_eq(adapter_type, 'anywhere'), is_cls(result, 'AnywhereAdapter'))",
    )
    c.mutant("return PrefixAdapter", "return NonInternalFrontAdapter")
    c.mutant("return SuffixAdapter", "return BackAdapter")
    c.mutant("return NonInternalBackAdapter", "return NonInternalFrontAdapter")


@contract("parser.py", "_normalize_ellipsis", props=["C18"])
def normalize_ellipsis(c):
    """-a ...ADAPTER is a 3' adapter, -a ADAPTER... and -g ADAPTER... are 5' adapters; -g ...ADAPTER and -b are errors."""
    c.types(spec1=Str, spec2=Str, adapter_type=Str)
    c.returns(TupT(Str, Str))
    c.requires(types="seq_eq(adapter_type, 'front') or seq_eq(adapter_type, 'back') or seq_eq(adapter_type, 'anywhere')",
               one_side_empty="len(spec1) == 0 or len(spec2) == 0")
    c.raises("ValueError", when="seq_eq(adapter_type, 'anywhere') or (len(spec1) == 0 and not seq_eq(adapter_type, 'back'))")
    c.ensures(
        a_dots_adapter="implies(seq_eq(adapter_type, 'back') and len(spec1) == 0, seq_eq(result[0], spec2) and seq_eq(result[1], 'back'))",
        a_adapter_dots="implies(seq_eq(adapter_type, 'back') and len(spec1) > 0, seq_eq(result[0], spec1) and seq_eq(result[1], 'front'))",
        g_adapter_dots="implies(seq_eq(adapter_type, 'front') and len(spec1) > 0, seq_eq(result[0], spec1) and seq_eq(result[1], 'front'))",
    )
    c.mutant("adapter_type = 'front'", "adapter_type = 'back'")
    c.mutant("spec = spec2", "spec = spec1")


# ------------------------------------------------------------------------------ parsed specification (abstract)
from pyvc.api import KwDictT

ParamsT = KwDictT(max_errors=Real, min_overlap=Int, anywhere=Bool, required=Bool, indels=Bool)
SearchT = KwDictT(max_errors=Real, min_overlap=Int, read_wildcards=Bool, adapter_wildcards=Bool, indels=Bool)
SpecT = ObjT("AdapterSpecification", name=OptT(Str), restriction=OptT(Str), sequence=Str, parameters=ParamsT, adapter_type=Str,
             rightmost=Bool)
PARAM_KEYS = ["max_errors", "min_overlap", "anywhere", "required", "indels"]
SEARCH_KEYS = ["max_errors", "min_overlap", "read_wildcards", "adapter_wildcards", "indels"]

_SS = (AII, I, I)           # (specification string, adapter type code: 0 front, 1 back, 2 anywhere, 3 anything else)
P_NAME_NONE = z3.Function("parsed.name.none", *_SS, B)
P_NAME_ARR = z3.Function("parsed.name.arr", *_SS, AII)
P_NAME_N = z3.Function("parsed.name.n", *_SS, I)
P_RESTR = z3.Function("parsed.restriction", *_SS, I)           # 0 none, 1 anchored, 2 noninternal
P_SEQ_ARR = z3.Function("parsed.sequence.arr", *_SS, AII)
P_SEQ_N = z3.Function("parsed.sequence.n", *_SS, I)
P_RIGHTMOST = z3.Function("parsed.rightmost", *_SS, B)
P_ABSENT = {k: z3.Function(f"parsed.parameters.{k}.absent", *_SS, B) for k in PARAM_KEYS}
P_VAL = {k: z3.Function(f"parsed.parameters.{k}", *_SS, {"max_errors": R, "min_overlap": I}.get(k, B)) for k in PARAM_KEYS}


def parsed_spec(cx):
    """`parsed(spec, type)`: what AdapterSpecification.parse returns for these two strings, as uninterpreted functions of
    them (the contracts of the constructors are stated relative to it; what it is for a given string is the reference
    parser's business)."""
    def args_of(spec, typ):
        s = as_str(spec)
        code = z3.If(str_eq(typ, PyConst("front")), 0, z3.If(str_eq(typ, PyConst("back")), 1,
                                                             z3.If(str_eq(typ, PyConst("anywhere")), 2, 3)))
        return (s.arr, s.n, code)

    def parsed(spec, typ):
        a = args_of(spec, typ)
        restr = P_RESTR(*a)
        rv = StrV(z3.If(restr == 1, as_str(PyConst("anchored")).arr, as_str(PyConst("noninternal")).arr),
                  z3.If(restr == 1, 8, 11))
        return ObjV("AdapterSpecification", {
            "name": Opt(P_NAME_NONE(*a), StrV(P_NAME_ARR(*a), P_NAME_N(*a))),
            "restriction": Opt(restr == 0, rv),
            "sequence": StrV(P_SEQ_ARR(*a), P_SEQ_N(*a)),
            "parameters": ObjV("__kwdict__", {k: Opt(P_ABSENT[k](*a), P_VAL[k](*a)) for k in PARAM_KEYS}),
            "adapter_type": as_str(typ),
            "rightmost": P_RIGHTMOST(*a),
        })

    def same_spec(x, y):
        cs = [x.fields["name"].none == y.fields["name"].none,
              z3.Implies(z3.Not(x.fields["name"].none), str_eq(x.fields["name"].val, y.fields["name"].val)),
              x.fields["restriction"].none == y.fields["restriction"].none,
              z3.Implies(z3.Not(x.fields["restriction"].none), str_eq(x.fields["restriction"].val, y.fields["restriction"].val)),
              str_eq(x.fields["sequence"], y.fields["sequence"]), str_eq(x.fields["adapter_type"], y.fields["adapter_type"]),
              x.fields["rightmost"] == y.fields["rightmost"]]
        for k in PARAM_KEYS:
            a, b = x.fields["parameters"].fields[k], y.fields["parameters"].fields[k]
            cs += [a.none == b.none, z3.Implies(z3.Not(a.none), a.val == b.val)]
        return z3.And(*cs)

    def restr_code(spec, typ):
        return P_RESTR(*args_of(spec, typ))

    cx.spec.update(parsed=parsed, same_spec=same_spec, restr_code=restr_code)


@contract("parser.py", "AdapterSpecification.parse", props=[], name="AdapterSpecification.parse@abstract")
def parse_abstract(c):
    """Call-site contract of AdapterSpecification.parse: a deterministic function of its two strings that may raise; the
    consistency facts below are proved on the real function (contract `AdapterSpecification.parse`)."""
    c.types(spec=Str, adapter_type=Str)
    c.returns(SpecT)
    c.spec(cls_spec)
    c.spec(parsed_spec)
    c.raises("ValueError", when=None)
    c.raises("KeyError", when=None)
    c.ensures(
        deterministic="same_spec(result, parsed(spec, adapter_type))",
        restriction_domain="0 <= restr_code(spec, adapter_type) <= 2",
        anywhere_has_no_restriction="implies(seq_eq(adapter_type, 'anywhere'), is_none(result.restriction))",
        rightmost_only_regular_front="implies(result.rightmost, seq_eq(adapter_type, 'front') and is_none(result.restriction))",
    )


api.BY_NAME["AdapterSpecification.parse"] = parse_abstract


def install(world):
    from .c10 import abstract_ctor
    for cls in ADAPTER_CLASSES:
        world.ctor_handlers[cls] = abstract_ctor(cls)


def ctor_spec(cx):
    def kw(obj, key):
        """constructor keyword argument of the (abstract) adapter object: Opt (none = not passed)"""
        key = key.v if isinstance(key, PyConst) else key
        v = obj.fields.get("kw_" + key)
        if v is None:
            return None
        return v

    def passed(obj, key):
        v = kw(obj, key)
        if v is None:
            return z3.BoolVal(False)
        return z3.Not(v.none) if isinstance(v, Opt) else z3.BoolVal(True)

    def kwval(obj, key):
        v = kw(obj, key)
        if v is None:
            # not an argument of this object's constructor: an arbitrary value (a clause that needs it cannot be proved)
            return StrV(fresh("absent.arr", AII), fresh("absent.n", I))
        return v.val if isinstance(v, Opt) else v

    def entry_absent(d, key):
        key = key.v if isinstance(key, PyConst) else key
        v = d.fields.get(key)
        if v is None:
            return z3.BoolVal(True)
        return v.none if isinstance(v, Opt) else z3.BoolVal(False)

    def entry_val(d, key):
        key = key.v if isinstance(key, PyConst) else key
        v = d.fields[key]
        return v.val if isinstance(v, Opt) else v

    def precedence(obj, key, *dicts):
        """The constructor gets `key` from the first dict (highest priority first) that has it, and does not get it at
        all when none has it."""
        key_ = key.v if isinstance(key, PyConst) else key
        dicts = [d for d in dicts]
        none_has = z3.And(*[entry_absent(d, key_) for d in dicts])
        cs = [passed(obj, key_) == z3.Not(none_has)]
        if kw(obj, key_) is not None:
            val = kwval(obj, key_)
            higher_absent = z3.BoolVal(True)
            for d in dicts:
                if key_ in d.fields:
                    ev = entry_val(d, key_)
                    eq = str_eq(val, ev) if isinstance(ev, (StrV, PyConst)) else (val == ev)
                    cs.append(z3.Implies(z3.And(higher_absent, z3.Not(entry_absent(d, key_))), eq))
                higher_absent = z3.And(higher_absent, entry_absent(d, key_))
        return z3.And(*cs)

    def arg0(obj):
        v = obj.fields.get("a0")
        if v is None:
            v = obj.fields.get("kw_sequence")
        return v

    cx.spec.update(passed=passed, kwval=kwval, precedence=precedence, entry_absent=entry_absent, entry_val=entry_val, arg0=arg0)


def class_table(obj, spec_obj):
    """`obj` is of the documented class for the parsed specification `spec_obj` (used with is_cls in the clauses)."""
    T = "seq_eq({s}.adapter_type, '{t}')"
    rows = [("front", "is_none({s}.restriction) and not {s}.rightmost", "FrontAdapter"),
            ("front", "{s}.rightmost", "RightmostFrontAdapter"),
            ("front", "opt_is({s}.restriction, 'anchored')", "PrefixAdapter"),
            ("front", "opt_is({s}.restriction, 'noninternal')", "NonInternalFrontAdapter"),
            ("back", "is_none({s}.restriction)", "BackAdapter"),
            ("back", "opt_is({s}.restriction, 'anchored')", "SuffixAdapter"),
            ("back", "opt_is({s}.restriction, 'noninternal')", "NonInternalBackAdapter"),
            ("anywhere", "True", "AnywhereAdapter")]
    return " and ".join(f"implies({T.format(s=spec_obj, t=t)} and ({cond.format(s=spec_obj)}), is_cls({obj}, '{cls}'))"
                        for t, cond, cls in rows)


SingleObjT = ObjT("Adapter", __cls__=Int, kw_sequence=Str, a0=Str, kw_name=OptT(Str), kw_max_errors=OptT(Real), kw_min_overlap=OptT(Int),
                  kw_indels=OptT(Bool), kw_read_wildcards=OptT(Bool), kw_adapter_wildcards=OptT(Bool), kw_force_anywhere=OptT(Bool))
LinkedObjT = ObjT("LinkedAdapter", __cls__=Int, kw_front_adapter=SingleObjT, kw_back_adapter=SingleObjT, kw_front_required=Bool,
                  kw_back_required=Bool, kw_name=OptT(Str))


AnyAdapterT = ObjT("Adapter", __cls__=Int, kw_sequence=Str, a0=Str, kw_name=OptT(Str), kw_max_errors=OptT(Real), kw_min_overlap=OptT(Int),
                   kw_indels=OptT(Bool), kw_read_wildcards=OptT(Bool), kw_adapter_wildcards=OptT(Bool), kw_force_anywhere=OptT(Bool),
                   kw_front_adapter=SingleObjT, kw_back_adapter=SingleObjT, kw_front_required=Bool, kw_back_required=Bool)


@contract("parser.py", "_make_not_linked_adapter", props=["C18"])
def make_not_linked_adapter(c):
    c.returns(SingleObjT)
    c.types(spec=Str, name=OptT(Str), adapter_type=Str, search_parameters=SearchT)
    c.runtime = {"module": "c18", "name": "specification", "replay_count": 4000}
    c.spec(cls_spec)
    c.spec(parsed_spec)
    c.spec(ctor_spec)
    c.inline.update({"AdapterSpecification.adapter_class", "AdapterSpecification._restriction_to_class"})
    c.requires(types="seq_eq(adapter_type, 'front') or seq_eq(adapter_type, 'back') or seq_eq(adapter_type, 'anywhere')")
    c.raises("ValueError", when=None)
    c.raises("KeyError", when=None)
    P = "parsed(spec, adapter_type)"
    REGULAR = "(is_cls(result, 'FrontAdapter') or is_cls(result, 'BackAdapter') or is_cls(result, 'RightmostFrontAdapter'))"
    c.ensures(
        documented_class=class_table("result", P),
        sequence_is_the_parsed_sequence=f"seq_eq(kwval(result, 'sequence'), {P}.sequence)",
        name_argument_overrides_the_name_in_the_specification=
        f"implies(not is_none(name), passed(result, 'name') and seq_eq(val(kwval(result, 'name')), val(name))) and "
        f"implies(is_none(name), passed(result, 'name') == (not is_none({P}.name)) and "
        f"implies(not is_none({P}.name), seq_eq(val(kwval(result, 'name')), val({P}.name))))",
        adapter_level_parameters_override_the_given_defaults=" and ".join(
            f"precedence(result, '{k}', {P}.parameters, search_parameters)" for k in ["max_errors", "min_overlap", "indels"]) +
        " and precedence(result, 'read_wildcards', search_parameters) and precedence(result, 'adapter_wildcards', search_parameters)",
        never_a_linked_adapter="not is_cls(result, 'LinkedAdapter')",
        anywhere_parameter_becomes_force_anywhere_for_regular_adapters_only=
        f"passed(result, 'force_anywhere') == ((not entry_absent({P}.parameters, 'anywhere')) and entry_val({P}.parameters, 'anywhere') and {REGULAR}) "
        f"and not passed(result, 'anywhere') and not passed(result, 'required')",
    )
    c.raises_when = None
    c.mutant("name=aspec.name if name is None else name", "name=name if aspec.name is None else aspec.name")
    c.mutant("parameters = search_parameters.copy()\n    parameters.update(aspec.parameters)",
             "parameters = dict(aspec.parameters)\n    parameters.update(search_parameters)")


@contract("parser.py", "_make_linked_adapter", props=["C18"])
def make_linked_adapter(c):
    """A...B: the 5' part is parsed as a -g adapter, the 3' part as a -a adapter; with -g both parts are required, with -a
    the anchored ones; an explicit required/optional wins; each part gets its own parameters over the given defaults."""
    c.types(spec1=Str, spec2=Str, name=OptT(Str), adapter_type=Str, search_parameters=SearchT)
    c.returns(LinkedObjT)
    c.runtime = {"module": "c18", "name": "specification", "replay_count": 4000}
    c.spec(cls_spec)
    c.spec(parsed_spec)
    c.spec(ctor_spec)
    c.inline.update({"AdapterSpecification.adapter_class", "AdapterSpecification._restriction_to_class"})
    c.requires(types="seq_eq(adapter_type, 'front') or seq_eq(adapter_type, 'back') or seq_eq(adapter_type, 'anywhere')")
    c.raises("ValueError", when=None)
    c.raises("KeyError", when=None)
    F, Bk = "parsed(spec1, 'front')", "parsed(spec2, 'back')"
    FA, BA = "kwval(result, 'front_adapter')", "kwval(result, 'back_adapter')"

    def required_clause(part, P):
        explicit = f"(not entry_absent({P}.parameters, 'required'))"
        return (f"implies({explicit}, kwval(result, '{part}_required') == entry_val({P}.parameters, 'required')) and "
                f"implies(not {explicit} and seq_eq(adapter_type, 'front'), kwval(result, '{part}_required')) and "
                f"implies(not {explicit} and seq_eq(adapter_type, 'back') and opt_is({P}.restriction, 'anchored'), kwval(result, '{part}_required')) and "
                f"implies(not {explicit} and seq_eq(adapter_type, 'back') and is_none({P}.restriction), not kwval(result, '{part}_required'))")

    def noninternal_clause(part, P):
        # the guide: with -a "the adapters that are anchored become required, and the non-anchored adapters become optional";
        # a non-internal (X) part is not anchored ("a less strict version of anchoring ... unlike anchored adapters")
        explicit = f"(not entry_absent({P}.parameters, 'required'))"
        return (f"implies(not {explicit} and seq_eq(adapter_type, 'back') and opt_is({P}.restriction, 'noninternal'), "
                f"not kwval(result, '{part}_required'))")

    c.ensures(
        not_for_anywhere="not seq_eq(adapter_type, 'anywhere') and is_cls(result, 'LinkedAdapter')",
        front_part_class=class_table(FA, F),
        back_part_class=class_table(BA, Bk),
        part_sequences=f"seq_eq(arg0({FA}), {F}.sequence) and seq_eq(arg0({BA}), {Bk}.sequence)",
        front_required_as_documented=required_clause("front", F),
        back_required_as_documented=required_clause("back", Bk),
        noninternal_front_part_is_optional_with_a=noninternal_clause("front", F),
        noninternal_back_part_is_optional_with_a=noninternal_clause("back", Bk),
        name_defaults_to_the_name_of_the_front_part=
        f"implies(not is_none(old(name)), seq_eq(val(kwval(result, 'name')), val(old(name)))) and "
        f"implies(is_none(old(name)), passed(result, 'name') == (not is_none({F}.name)) and "
        f"implies(not is_none({F}.name), seq_eq(val(kwval(result, 'name')), val({F}.name))))",
        each_part_gets_its_own_parameters_over_the_defaults=" and ".join(
            f"precedence({A}, '{k}', {P}.parameters, search_parameters)" for A, P in ((FA, F), (BA, Bk))
            for k in ["max_errors", "min_overlap", "indels"]) + " and " + " and ".join(
            f"precedence({A}, '{k}', search_parameters)" for A in (FA, BA) for k in ["read_wildcards", "adapter_wildcards"]) +
        f" and not passed({FA}, 'required') and not passed({BA}, 'required')",
        only_constructor_parameters_reach_the_constructors=
        f"not passed({FA}, 'anywhere') and not passed({BA}, 'anywhere') and not passed({FA}, 'rightmost') and not passed({BA}, 'rightmost')",
    )
    c.mutant("front_required = front_anchored", "front_required = True")
    c.mutant("back_required = back_parameters.pop('required', back_required)", "back_required = back_parameters.pop('required', front_required)")
    c.mutant("back_parameters.update(back_spec.parameters)", "back_parameters.update(front_spec.parameters)")


def classify_c18(f):
    """Listed findings (known_findings.jsonl); a failure with any other label is a new violation."""
    labels = f.get("failed") or []
    if not labels or not all(":KNOWN:" in x for x in labels):
        return None
    cls = labels[0].split(":KNOWN:")[1].split(":")[0]
    return {"noninternal_front_part_required": "_make_linked_adapter:post.noninternal_front_part_is_optional_with_a",
            "noninternal_back_part_required": "_make_linked_adapter:post.noninternal_back_part_is_optional_with_a",
            "anywhere_in_linked_part": "_make_linked_adapter:post.only_constructor_parameters_reach_the_constructors",
            "file_level_flag_reaches_constructor": "bounded:c18:file_level_flag_reaches_constructor"}.get(cls)


def extra_checks(res, tier, seed, known, log):
    from pyvc import runner
    runner.runtime_standin(res, "C18", "c18", "specification", seed, 3000 if tier == "quick" else 60000, 60 if tier == "quick" else 600,
                           prefix="C18:", classify=classify_c18, known=known, exhaustive=True, tier=tier,
                           label="reference parser written from the guide vs cutadapt.parser on an enumerated grammar plus random specifications")
    runner.runtime_standin(res, "C18", "c18", "cli_invalid", seed, 0, 300, prefix="C18:", exhaustive=True, tier=tier,
                           label="invalid specifications end with an error message and exit status 2 (command line)")


# ------------------------------------------------------------------------------ file: notation
FileParamsT = KwDictT(max_errors=Real, min_overlap=Int, anywhere=Bool, required=Bool, indels=Bool, rightmost=Bool)
FP_KEYS = ["max_errors", "min_overlap", "anywhere", "required", "indels", "rightmost"]
PS_ABSENT = {k: z3.Function(f"search_parameters_of.{k}.absent", AII, I, B) for k in FP_KEYS}
PS_VAL = {k: z3.Function(f"search_parameters_of.{k}", AII, I, {"max_errors": R, "min_overlap": I}.get(k, B)) for k in FP_KEYS}


def file_spec(cx):
    from pyvc.world import first_index, named_slice

    def params_of(text):
        s = as_str(text)
        return ObjV("__kwdict__", {k: Opt(PS_ABSENT[k](s.arr, s.n), PS_VAL[k](s.arr, s.n)) for k in FP_KEYS})

    def same_params(d, e):
        cs = []
        for k in FP_KEYS:
            a, b = d.fields[k], e.fields[k]
            cs += [a.none == b.none, z3.Implies(z3.Not(a.none), a.val == b.val)]
        return z3.And(*cs)

    def dict_precedence(result, key, *dicts):
        """entry `key` of the dict `result` comes from the first of `dicts` that has it (absent if none has)"""
        key = key.v if isinstance(key, PyConst) else key
        ab = cx.spec["entry_absent"]
        none_has = z3.And(*[ab(d, key) for d in dicts])
        cs = [ab(result, key) == none_has]
        higher = z3.BoolVal(True)
        for d in dicts:
            if key in d.fields and key in result.fields:
                cs.append(z3.Implies(z3.And(higher, z3.Not(ab(d, key))), cx.spec["entry_val"](result, key) == cx.spec["entry_val"](d, key)))
            higher = z3.And(higher, ab(d, key))
        return z3.And(*cs)

    def only_constructor_parameters(d):
        cs = [cx.spec["entry_absent"](d, k) for k in d.fields if k not in SEARCH_KEYS]
        return z3.And(*cs) if cs else z3.BoolVal(True)

    def yields_exactly_one(res):
        """the generator yielded exactly one adapter (decidable only where the yielded list is known)"""
        if isinstance(res, ListV):
            return z3.Sum(*[z3.If(g, 1, 0) for g, _ in res.items]) == 1 if res.items else z3.BoolVal(False)
        if isinstance(res, ObjV) and "when" in res.fields:
            return z3.And(res.fields["when"], yields_exactly_one(res.fields["items"]))
        return z3.BoolVal(False)

    cx.spec["yields_exactly_one"] = yields_exactly_one
    cx.spec.update(params_of=params_of, same_params=same_params, dict_precedence=dict_precedence,
                   only_constructor_parameters=only_constructor_parameters)



def dots_spec(cx):
    """left / right of the first '...' in a specification, exactly as str.partition('...') gives them"""
    from pyvc.world import first_sub, named_slice

    def has_dots(spec):
        s = as_str(spec)
        return first_sub(cx, s, "...") < s.n

    def before_dots(spec):
        s = as_str(spec)
        return named_slice(cx, s, z3.IntVal(0), first_sub(cx, s, "..."))

    def after_dots(spec):
        s = as_str(spec)
        p = first_sub(cx, s, "...")
        return named_slice(cx, s, z3.If(p < s.n, p + 3, s.n), s.n)

    cx.spec.update(has_dots=has_dots, before_dots=before_dots, after_dots=after_dots)


SEARCH_ONLY = "search_parameters_hold_constructor_parameters_only"


@contract("parser.py", "make_adapter", props=["C18"])
def make_adapter(c):
    """A...B with both sides given is a linked adapter; -a ...B is the 3' adapter B; -a A... and -g A... are the 5' adapter A;
    anything without '...' is taken as it is."""
    c.types(spec=Str, adapter_type=Str, search_parameters=SearchT, name=OptT(Str))
    c.returns(AnyAdapterT)
    c.defaults["name"] = None
    c.spec(cls_spec)
    c.spec(parsed_spec)
    c.spec(ctor_spec)
    c.spec(dots_spec)
    c.spec(file_spec)
    c.requires(search_parameters_hold_constructor_parameters_only="only_constructor_parameters(search_parameters)")
    # inlined (its own contract is proved separately): `parsed` is a function of the very string value that is passed on
    c.inline.update({"_normalize_ellipsis"})
    c.raises("ValueError", when=None)
    c.raises("KeyError", when=None)
    L, Rt = "before_dots(old(spec))", "after_dots(old(spec))"
    LINKED = f"(has_dots(old(spec)) and len({L}) > 0 and len({Rt}) > 0)"
    c.ensures(
        linked_iff_both_sides_of_the_dots_are_given=f"is_cls(result, 'LinkedAdapter') == {LINKED}",
        linked_parts=f"implies({LINKED}, " + class_table("kwval(result, 'front_adapter')", f"parsed({L}, 'front')") + " and " +
                     class_table("kwval(result, 'back_adapter')", f"parsed({Rt}, 'back')") + ")",
        without_dots_the_specification_is_taken_as_it_is=f"implies(not has_dots(old(spec)), " + class_table("result", "parsed(old(spec), old(adapter_type))") +
                                                         " and seq_eq(kwval(result, 'sequence'), parsed(old(spec), old(adapter_type)).sequence))",
        a_dots_adapter_is_a_3prime_adapter=f"implies(has_dots(old(spec)) and len({L}) == 0, seq_eq(old(adapter_type), 'back') and " +
                                           class_table("result", f"parsed({Rt}, 'back')") + ")",
        adapter_dots_is_a_5prime_adapter=f"implies(has_dots(old(spec)) and len({L}) > 0 and len({Rt}) == 0, not seq_eq(old(adapter_type), 'anywhere') and " +
                                         class_table("result", f"parsed({L}, 'front')") + ")",
    )
    c.runtime = {"module": "c18", "name": "specification", "replay_count": 4000}
    c.mutant("spec1 and spec2", "spec1 or spec2")
    c.mutant("_make_linked_adapter(spec1, spec2, name, adapter_type, search_parameters)", "_make_linked_adapter(spec2, spec1, name, adapter_type, search_parameters)")


@contract("parser.py", "parse_search_parameters", props=[], name="parse_search_parameters@abstract")
def parse_search_parameters_abstract(c):
    """Call-site contract: a deterministic function of the text that may raise (what it computes: bounded comparison)."""
    c.types(spec=Str)
    c.returns(FileParamsT)
    c.spec(ctor_spec)
    c.spec(file_spec)
    c.raises("KeyError", when=None)
    c.raises("ValueError", when=None)
    c.ensures(deterministic="same_params(result, params_of(spec))")


api.BY_NAME["parse_search_parameters"] = parse_search_parameters_abstract


@contract("parser.py", "read_adapters_fasta", props=[], name="read_adapters_fasta@abstract")
def read_adapters_fasta_abstract(c):
    c.types(path=Str)
    c.returns(SeqT(TupT(OptT(Str), Str)))
    c.raises("OSError", when=None)
    c.ensures(some_records="len(result) >= 0")


api.BY_NAME["read_adapters_fasta"] = read_adapters_fasta_abstract

# make_adapter at its call sites: its defaults dict may only hold what the adapter constructors take
make_adapter_requires = dict(search_parameters_hold_constructor_parameters_only="only_constructor_parameters(search_parameters)")


@contract("parser.py", "make_adapters_from_one_specification", props=["C18"])
def make_adapters_from_one_specification(c):
    """file:, ^file: and file$: read every FASTA record (anchoring each with ^ / $); parameters after the path override the
    global ones and are themselves overridden by the parameters of the individual records (the latter in make_adapter)."""
    c.types(spec=Str, adapter_type=Str, search_parameters=SearchT)
    c.spec(cls_spec)
    c.spec(parsed_spec)
    c.spec(ctor_spec)
    c.spec(dots_spec)
    c.spec(file_spec)
    c.local_types["name"] = OptT(Str)
    c.raises("ValueError", when=None)
    c.raises("KeyError", when=None)
    c.raises("InvalidCharacter", when=None)
    c.raises("OSError", when=None)
    c.loop(1, head="for name, spec in read_adapters_fasta(path)", inv=["True"])
    FILE = "(old(spec).startswith('file:') or old(spec).startswith('^file:') or old(spec).startswith('file$:'))"
    c.ghost("__assert__(" + " and ".join(f"dict_precedence(parameters, '{k}', params_of(parameters_spec), search_parameters)" for k in FP_KEYS if k in SEARCH_KEYS) +
            ", 'file_level_parameters_override_the_global_ones')", before="for name, spec in read_adapters_fasta(path)")
    c.ghost("__assert__(seq_eq(anchoring_prefix, '^') == old(spec).startswith('^file:') and seq_eq(anchoring_suffix, '$') == old(spec).startswith('file$:') "
            "and (len(anchoring_prefix) == 0 or len(anchoring_suffix) == 0) and len(anchoring_prefix) <= 1 and len(anchoring_suffix) <= 1, "
            "'caret_file_anchors_5prime_and_file_dollar_anchors_3prime')", before="for name, spec in read_adapters_fasta(path)")
    c.ensures(without_file_prefix_one_adapter_from_the_specification_itself=f"implies(not {FILE}, yields_exactly_one(result))")
    c.mutant("anchoring_suffix = '$'", "anchoring_suffix = ''")
    c.mutant("parameters.update(parse_search_parameters(parameters_spec))", "parse_search_parameters(parameters_spec).update(parameters)")


@contract("parser.py", "AdapterSpecification._parse_restrictions", props=["C18"])
def parse_restrictions(c):
    """^ anchors a 5' adapter, $ anchors a 3' adapter, a leading / trailing X (any case, any number) forbids internal matches;
    more than one placement restriction is an error."""
    c.types(spec=Str)
    c.returns(TupT(OptT(Str), OptT(Str), Str))
    c.spec(cls_spec)
    S = "old(spec)"
    CARET = f"{S}.startswith('^')"
    LEADX = f"{S}.upper().startswith('X')"
    AFTER_CARET_X = f"({CARET} and {S}[1:].upper().startswith('X'))"
    FRONT = f"({CARET} or {LEADX})"
    # what is left after the front marker
    REST = f"({S}[1:] if {CARET} else {S}.lstrip('xX'))"
    DOLLAR = f"{REST}.endswith('$')"
    TRAILX = f"{REST}.upper().endswith('X')"
    DOLLAR_X = f"({DOLLAR} and {REST}[:-1].upper().endswith('X'))"
    BACK = f"({DOLLAR} or {TRAILX})"
    c.raises("ValueError", when=f"{AFTER_CARET_X} or {DOLLAR_X} or ({FRONT} and {BACK})")
    c.ensures(
        caret_anchors_the_5prime_end=f"opt_is(result[0], 'anchored') == {CARET}",
        leading_x_forbids_internal_matches=f"opt_is(result[0], 'noninternal') == ({LEADX} and not {CARET})",
        no_marker_no_front_restriction=f"is_none(result[0]) == (not {FRONT})",
        dollar_anchors_the_3prime_end=f"opt_is(result[1], 'anchored') == {DOLLAR}",
        trailing_x_forbids_internal_matches=f"opt_is(result[1], 'noninternal') == ({TRAILX} and not {DOLLAR})",
        no_marker_no_back_restriction=f"is_none(result[1]) == (not {BACK})",
        at_most_one_restriction="is_none(result[0]) or is_none(result[1])",
        restriction_domain="(is_none(result[0]) or opt_is(result[0], 'anchored') or opt_is(result[0], 'noninternal')) and "
                           "(is_none(result[1]) or opt_is(result[1], 'anchored') or opt_is(result[1], 'noninternal'))",
        the_sequence_is_what_is_left_without_the_markers=
        f"seq_eq(result[2], {S}[1:] if {CARET} else ({S}.lstrip('xX') if {LEADX} else ({S}[:-1] if {DOLLAR} else ({S}.rstrip('xX') if {TRAILX} else {S}))))",
    )
    c.mutant("spec = spec[1:]", "spec = spec[2:]")
    c.mutant("back_restriction = 'anchored'", "back_restriction = 'noninternal'")
    c.mutant("n_placement_restrictions > 1", "n_placement_restrictions > 2")


EXTRACT = {k: z3.Function(f"extract_name.{k}", AII, I, {"none": B, "name.arr": AII, "name.n": I, "rest.arr": AII, "rest.n": I}[k])
           for k in ("none", "name.arr", "name.n", "rest.arr", "rest.n")}
EXPAND = {k: z3.Function(f"expand_braces.{k}", AII, I, {"arr": AII, "n": I}[k]) for k in ("arr", "n")}


@contract("parser.py", "AdapterSpecification._extract_name", props=[], name="AdapterSpecification._extract_name@abstract")
def extract_name_abstract(c):
    c.types(spec=Str)
    c.returns(TupT(OptT(Str), Str))

    def sp(cx):
        def extracted(spec):
            s = as_str(spec)
            return TupV((Opt(EXTRACT["none"](s.arr, s.n), StrV(EXTRACT["name.arr"](s.arr, s.n), EXTRACT["name.n"](s.arr, s.n))),
                         StrV(EXTRACT["rest.arr"](s.arr, s.n), EXTRACT["rest.n"](s.arr, s.n))))
        cx.spec["extracted"] = extracted
    c.spec(sp)
    c.ensures(deterministic="is_none(result[0]) == is_none(extracted(spec)[0]) and "
                            "implies(not is_none(result[0]), seq_eq(val(result[0]), val(extracted(spec)[0]))) and "
                            "seq_eq(result[1], extracted(spec)[1]) and len(result[1]) >= 0")


api.BY_NAME["AdapterSpecification._extract_name"] = extract_name_abstract


@contract("parser.py", "expand_braces", props=[], name="expand_braces@abstract")
def expand_braces_abstract(c):
    c.types(sequence=Str)
    c.returns(Str)

    def sp(cx):
        def expanded(spec):
            s = as_str(spec)
            return StrV(EXPAND["arr"](s.arr, s.n), EXPAND["n"](s.arr, s.n))
        cx.spec["expanded"] = expanded
    c.spec(sp)
    c.raises("ValueError", when=None)
    c.ensures(deterministic="seq_eq(result, expanded(sequence))")


api.BY_NAME["expand_braces"] = expand_braces_abstract
api.BY_NAME["AdapterSpecification._parse_restrictions"] = parse_restrictions


@contract("parser.py", "AdapterSpecification.parse", props=["C18"])
def parse_real(c):
    c.runtime = {"module": "c18", "name": "specification", "replay_count": 6000}
    """What the constructors rely on (assumed at their call sites through AdapterSpecification.parse@abstract) and the documented
    invalid combinations: a 5' adapter takes no 3' restriction and vice versa, -b takes none, min_overlap is not for anchored
    adapters (and is clipped to the sequence length), rightmost is for regular 5' adapters only."""
    c.types(cls=api.ConstT(ClsV("AdapterSpecification")), spec=Str, adapter_type=Str)
    c.spec(cls_spec)
    c.spec(ctor_spec)
    c.spec(file_spec)
    c.raises("ValueError", when=None)
    c.raises("KeyError", when=None)
    c.ensures(
        anywhere_has_no_restriction="implies(seq_eq(old(adapter_type), 'anywhere'), is_none(result.restriction))",
        rightmost_only_regular_front="implies(result.rightmost, seq_eq(old(adapter_type), 'front') and is_none(result.restriction))",
        restriction_domain="is_none(result.restriction) or opt_is(result.restriction, 'anchored') or opt_is(result.restriction, 'noninternal')",
        type_is_kept="seq_eq(result.adapter_type, old(adapter_type)) and (seq_eq(old(adapter_type), 'front') or seq_eq(old(adapter_type), 'back') or seq_eq(old(adapter_type), 'anywhere'))",
        min_overlap_not_for_anchored_and_clipped="implies(opt_is(result.restriction, 'anchored'), entry_absent(result.parameters, 'min_overlap')) and "
                                                 "implies(not entry_absent(result.parameters, 'min_overlap'), entry_val(result.parameters, 'min_overlap') <= len(result.sequence))",
        rightmost_is_not_a_constructor_parameter="entry_absent(result.parameters, 'rightmost')",
    )
    c.ghost("__assert__(implies(seq_eq(adapter_type, 'front'), is_none(back_restriction)) and implies(seq_eq(adapter_type, 'back'), is_none(front_restriction)), "
            "'a_5prime_adapter_takes_no_3prime_restriction_and_vice_versa')", before="return cls(name, restriction, spec, parameters, adapter_type, rightmost)")
    c.mutant("adapter_type == 'front' and back_restriction", "adapter_type == 'back' and back_restriction")
    c.mutant("adapter_type == 'anywhere' and restriction is not None", "adapter_type == 'anywhere' and restriction is None")
    c.mutant("parameters['min_overlap'] = len(spec)", "parameters['min_overlap'] = len(spec) + 1")


@contract("adapters.py", "SingleAdapter.__init__", props=["C18", "C02"], name="SingleAdapter.__init__:parameters")
def single_adapter_init(c):
    """The first part of the constructor (up to the character check): the sequence is upper-cased with U read as T and I as N;
    an error value of 1 or more is a number of errors and becomes a rate by dividing by the number of non-N bases; the minimum
    overlap is clipped to the length."""
    c.body_until = "iupac = frozenset('ABCDGHKMNRSTUVWXY')"
    c.types(self=ObjT("SingleAdapter"), sequence=Str, max_errors=Real, min_overlap=Int, read_wildcards=Bool, adapter_wildcards=Bool,
            name=OptT(Str), indels=Bool)
    c.modifies = ["self"]
    c.raises("ValueError", when="len(sequence) == 0")
    c.requires(errors_not_negative="max_errors >= 0")
    NONN = "(len(self.sequence) - self.sequence.count('N'))"
    c.ensures(
        sequence_is_upper_case_with_u_as_t_and_i_as_n=
        "len(self.sequence) == len(sequence) and forall(t, 0, len(sequence), code(self.sequence, t) == "
        "(84 if upper_code(code(sequence, t)) == 85 else (78 if upper_code(code(sequence, t)) == 73 else upper_code(code(sequence, t)))))",
        a_value_of_1_or_more_is_divided_by_the_number_of_non_n_bases=
        f"implies(max_errors >= 1 and {NONN} > 0, self.max_error_rate * {NONN} == max_errors)",
        a_value_below_1_is_the_rate_itself="implies(max_errors < 1, self.max_error_rate == max_errors)",
        min_overlap_clipped_to_the_length="self.min_overlap == (min_overlap if min_overlap <= len(sequence) else len(sequence))",
        given_name_is_kept="implies(not is_none(name), seq_eq(val(self.name), val(name)))",
    )
    c.mutant("len(self.sequence) - self.sequence.count('N')", "len(self.sequence)")
    c.mutant("max_errors >= 1", "max_errors > 1")
    c.mutant("min(min_overlap, len(self.sequence))", "min_overlap")
