"""The modifiers that change read names or quality characters only (C03: "the sequence written for a read is a contiguous
slice of the input sequence ... the only quality change is zero-capping of characters below the quality base"):
LengthTagModifier, SuffixRemover, PrefixSuffixAdder, Renamer, PairedEndRenamer leave sequence and qualities exactly as they
are; ZeroCapper leaves the sequence as it is and replaces exactly the quality characters below the base by the base."""
import z3
from pyvc import api
from pyvc.api import contract, Int, Bool, Str, OptT, ObjT, TupT, MapT, schema
from pyvc.values import *  # noqa
from .common import Record
from .shapes import InfoT

TRUSTED = [
    "re.Pattern.sub, str.format and the generated rename function return some string (names are not constrained by C03); "
    "str.translate(table) maps every character through the table; ZeroCapper.__init__ builds the table that maps every "
    "character below the quality base to the base (checked natively for every base 0..127)",
]
UNTOUCHED = ("seq_eq({r}.sequence, old({p}.sequence)) and is_none({r}.qualities) == is_none(old({p}.qualities)) and "
             "implies(not is_none(old({p}.qualities)), seq_eq(val({r}.qualities), val(old({p}.qualities))))")

schema("RegexLike")
schema("RenameFn")


def install(world):
    fresh_str = lambda ex, st, o, a, k, n, s: StrV(fresh("text.arr", AII), fresh("text.n", I))
    world.handlers[("RegexLike", "sub")] = fresh_str
    world.handlers[("RenameFn", "__call__")] = fresh_str

    def translate(ex, st, s, args, kwargs, node, spec):
        t = args[0]
        if not isinstance(t, MapV):
            raise Unsupported("str.translate with a table that is not a map")
        arr = fresh("translated", AII)
        k = z3.Int("k!tr")
        ex.cx.axioms.append(z3.ForAll([k], arr[k] == t.arr[s.arr[k]], patterns=[arr[k]]))
        return StrV(arr, s.n)
    world.str_methods["translate"] = translate
    world.builtins["record_names_match"] = lambda ex, st, a, k, n, s: fresh("names_match", B)


def simple(cls, self_t, extra=None, props=("C03",)):
    @contract("modifiers.py", f"{cls}.__call__", props=list(props))
    def _c(c):
        c.types(self=self_t, read=Record, info=InfoT)
        c.returns(Record)
        c.ensures(sequence_and_qualities_untouched=UNTOUCHED.format(r="result", p="read"))
        if extra:
            extra(c)
    return _c


def _suffix(c):
    # (an empty suffix would erase the whole name - name[:-0] - but names are not what C03 is about: outside the claim)
    c.requires(suffix_not_empty="len(self.suffix) >= 1")
    c.ensures(suffix_removed_from_the_name="implies(old(read.name).endswith(self.suffix), len(result.name) == len(old(read.name)) - len(self.suffix)) and "
                                           "implies(not old(read.name).endswith(self.suffix), seq_eq(result.name, old(read.name)))")
    c.mutant("read.name = read.name[:-len(self.suffix)]", "read.sequence = read.sequence[:-len(self.suffix)]")


def _adder(c):
    c.mutant("read.name = ", "read.sequence = ")


length_tag = simple("LengthTagModifier", ObjT("LengthTagModifier", regex=ObjT("RegexLike"), length_tag=Str),
                    lambda c: c.mutant("read.name = self.regex.sub(", "read.sequence = self.regex.sub("))
suffix_remover = simple("SuffixRemover", ObjT("SuffixRemover", suffix=Str), _suffix)
prefix_suffix = simple("PrefixSuffixAdder", ObjT("PrefixSuffixAdder", prefix=Str, suffix=Str), _adder)


@contract("modifiers.py", "Renamer.__call__", props=["C03"])
def renamer(c):
    c.types(self=ObjT("Renamer", _rename=ObjT("RenameFn")), read=Record, info=InfoT)
    c.returns(Record)
    c.modifies = ["read.name"]
    c.ensures(sequence_and_qualities_untouched=UNTOUCHED.format(r="result", p="read"))
    c.mutant("read.name = self._rename(self, read, info)", "read.sequence = self._rename(self, read, info)")


@contract("modifiers.py", "Renamer.parse_name", props=[], name="Renamer.parse_name@abstract")
def parse_name_abstract(c):
    c.types(read_name=Str)
    c.returns(TupT(Str, Str))
    c.ensures(some_strings="len(result[0]) >= 0")


@contract("modifiers.py", "PairedEndRenamer._rename", props=[], name="PairedEndRenamer._rename@abstract")
def paired_rename_abstract(c):
    c.types(self=ObjT("PairedEndRenamer", _template=Str), read1=Record, read2=Record, info1=InfoT, info2=InfoT)
    c.returns(TupT(Str, Str))
    c.ensures(some_strings="len(result[0]) >= 0")


api.BY_NAME["Renamer.parse_name"] = parse_name_abstract
api.BY_NAME["PairedEndRenamer._rename"] = paired_rename_abstract


@contract("modifiers.py", "PairedEndRenamer.__call__", props=["C03", "C05"])
def paired_renamer(c):
    c.types(self=ObjT("PairedEndRenamer", _template=Str), read1=Record, read2=Record, info1=InfoT, info2=InfoT)
    c.returns(TupT(Record, Record))
    c.modifies = ["read1.name", "read2.name"]
    c.raises("ValueError", when=None)
    c.raises("InvalidTemplate", when=None)
    c.ensures(sequence_and_qualities_of_both_mates_untouched=UNTOUCHED.format(r="result[0]", p="read1") + " and " + UNTOUCHED.format(r="result[1]", p="read2"))
    c.mutant("return (read1, read2)", "return (read2, read1)")


@contract("modifiers.py", "ZeroCapper.__call__", props=["C03"])
def zero_capper(c):
    c.types(self=ObjT("ZeroCapper", quality_base=Int, zero_cap_trans=MapT(Int)), read=Record, info=InfoT)
    c.returns(Record)
    c.requires(has_qualities="not is_none(read.qualities)",
               table_built_by_the_constructor="forall(t, 0, 128, self.zero_cap_trans[t] == (self.quality_base if t < self.quality_base else t))",
               base="0 <= self.quality_base <= 127")
    c.ensures(
        sequence_untouched="seq_eq(result.sequence, old(read.sequence)) and seq_eq(result.name, old(read.name))",
        only_characters_below_the_base_change_and_become_the_base=
        "len(val(result.qualities)) == len(val(old(read.qualities))) and forall(t, 0, len(val(old(read.qualities))), code(val(result.qualities), t) == "
        "(self.quality_base if code(val(old(read.qualities)), t) < self.quality_base else code(val(old(read.qualities)), t)))",
    )
    c.mutant("read.qualities = read.qualities.translate(self.zero_cap_trans)", "read.qualities = read.sequence.translate(self.zero_cap_trans)")


def extra_checks_c03(res, tier, seed, known, log):
    """finite: the table ZeroCapper.__init__ builds, for every quality base 0..127"""
    from pyvc import runner
    r = runner.run_native("zero_cap_table.py", {}, timeout=300)
    js = r["json"] or {}
    res.finite.append({"name": "ZeroCapper.__init__ builds the table assumed by the contract (every base 0..127, every character 0..127)",
                       "cases": js.get("cases", 0), "exhaustive": True, "failures": js.get("failures", [])[:3]})
    if js.get("failures") or not js.get("cases"):
        path = runner.write_replay("C03", "finite.zero_cap_table", {"property": "C03", "obligation": "finite:zero_cap_table",
                                                                    "failing_input": (js.get("failures") or [r["stderr"][-500:]])[0]})
        res.violations.append({"replay": path})
    runner.runtime_standin(res, "C03", "cnames", "renamer", seed, 2000 if tier == "quick" else 20000, 60 if tier == "quick" else 300, prefix="C03:", crosscheck=True,
                           label="cross-check only (the claim is proved by the Renamer / PairedEndRenamer contracts): renamers leave sequence and qualities untouched")
