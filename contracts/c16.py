"""C16 — --revcomp keeps the orientation that matches strictly better."""
import z3
from pyvc import api
from pyvc.api import contract, Int, Bool, Str, OptT, ObjT, TupT, SeqT
from pyvc.values import *  # noqa
from .common import Record
from .c09 import mt_spec
from .shapes import MatchT, InfoT, match_spec2, record_spec
from .c03 import CutterT, MatchesT, upper_rec, ACTION_OK, IS as _IS

RCT = ObjT("ReverseComplementer", adapter_cutter=CutterT, reverse_complemented=Int, _suffix=OptT(Str))
CUT_PRE = dict(
    rec="is_none(read.qualities) or len(val(read.qualities)) == len(read.sequence)",
    action_ok=ACTION_OK.replace("self.action", "self.adapter_cutter.action"),
    single_round="implies(%s or %s, self.adapter_cutter.times == 1)" % (
        _IS("retain").replace("self.action", "self.adapter_cutter.action"), _IS("crop").replace("self.action", "self.adapter_cutter.action")),
    crop_not_with_linked="implies(%s, no_linked(self.adapter_cutter.adapters))" % _IS("crop").replace("self.action", "self.adapter_cutter.action"),
)


@contract("modifiers.py", "ReverseComplementer.__call__", props=["C16", "C03", "C20", "C17"])
def reverse_complementer_call(c):
    c.runtime = {"module": "cmods", "name": "revcomp", "replay_count": 3000}
    c.types(self=RCT, read=Record, info=InfoT)
    c.returns(Record)
    c.modifies = ["self", "info", "read"]
    c.spec(mt_spec)
    c.spec(record_spec)
    c.spec(upper_rec)
    c.requires(**CUT_PRE)
    c.ghost("g_t0 = tally_len()\ng_rc0 = rc_total()", at_start=True)
    c.loop(1, head="for match in matches", inv=["0 <= __k1 <= len(matches)",
                                               "self.reverse_complemented == old(self.reverse_complemented) + (1 if use_reverse_complement else 0)",
                                               "self.adapter_cutter.with_adapters == old(self.adapter_cutter.with_adapters) + 1",
                                               "tally_len() == g_t0 + __k1 and rc_total() == g_rc0 + (__k1 if use_reverse_complement else 0)",
                                               "forall(t, 0, __k1, tally_id(g_t0 + t) == elem(matches, t).__id__ and tally_key(g_t0 + t) == elem(matches, t).adapter.__id__)"])
    c.ensures(
        reverse_used_iff_it_has_a_match_and_scores_strictly_higher=
            "use_reverse_complement == (len(reverse_matches) > 0 and reverse_score > forward_score)",
        given_orientation_kept_otherwise="implies(not use_reverse_complement, rec_same(result, forward_trimmed_read) and "
                                         "val(info.is_rc) == False and len(matches) == len(forward_matches))",
        reverse_result_is_trimmed_reverse_complement="implies(use_reverse_complement, seq_eq(result.sequence, reverse_trimmed_read.sequence) and "
                                                     "is_none(result.qualities) == is_none(reverse_trimmed_read.qualities) and "
                                                     "implies(not is_none(result.qualities), seq_eq(val(result.qualities), val(reverse_trimmed_read.qualities))) and "
                                                     "val(info.is_rc) == True)",
        name_gets_suffix_only_when_reversed="implies(use_reverse_complement and not is_none(self._suffix) and len(val(self._suffix)) > 0, "
                                            "seq_eq(result.name, old(read.name) + val(self._suffix))) and "
                                            "implies(use_reverse_complement and (is_none(self._suffix) or len(val(self._suffix)) == 0), seq_eq(result.name, old(read.name)))",
        counted_as_reverse_complemented="self.reverse_complemented == old(self.reverse_complemented) + (1 if use_reverse_complement else 0)",
        matches_of_chosen_orientation_recorded="len(info.matches) == len(old(info.matches)) + len(matches) and "
                                               "forall(t, 0, len(matches), elem(info.matches, len(old(info.matches)) + t).__id__ == "
                                               "elem(reverse_matches if use_reverse_complement else forward_matches, t).__id__)",
        with_adapters_counted="self.adapter_cutter.with_adapters == old(self.adapter_cutter.with_adapters) + (1 if len(matches) > 0 else 0)",
        statistics_registered_only_for_the_chosen_orientation="tally_len() == g_t0 + len(matches) and forall(t, 0, len(matches), "
            "tally_id(g_t0 + t) == elem(reverse_matches if use_reverse_complement else forward_matches, t).__id__ and "
            "tally_key(g_t0 + t) == elem(matches, t).adapter.__id__)",
        matches_on_reverse_complement_counted="rc_total() == g_rc0 + (len(matches) if use_reverse_complement else 0)",
    )
    c.mutant("stats.reverse_complemented += bool(use_reverse_complement)", "stats.reverse_complemented += 1")
    c.mutant("reverse_score > forward_score", "reverse_score >= forward_score")
    c.mutant("info.is_rc = True", "info.is_rc = False")
    c.mutant("self.reverse_complemented += 1", "pass")
    c.mutant("trimmed_read, matches = (reverse_trimmed_read, reverse_matches)", "trimmed_read, matches = (reverse_trimmed_read, forward_matches)")


PRCT = ObjT("PairedReverseComplementer", adapter_cutter1=OptT(CutterT), adapter_cutter2=OptT(CutterT), reverse_complemented=Int,
            _suffix=OptT(Str))


def _cut_pre(which, r):
    cut = f"val(self.adapter_cutter{which})"
    rep = lambda s: s.replace("self.action", cut + ".action")
    return {
        f"action_ok{which}": f"implies(not is_none(self.adapter_cutter{which}), {rep(ACTION_OK)})",
        f"single_round{which}": f"implies(not is_none(self.adapter_cutter{which}) and ({rep(_IS('retain'))} or {rep(_IS('crop'))}), {cut}.times == 1)",
        f"crop_not_with_linked{which}": f"implies(not is_none(self.adapter_cutter{which}) and {rep(_IS('crop'))}, no_linked({cut}.adapters))",
    }


@contract("modifiers.py", "PairedReverseComplementer.__call__", props=["C16", "C03", "C05", "C20", "C17"])
def paired_reverse_complementer_call(c):
    c.types(self=PRCT, r1=Record, r2=Record, info1=InfoT, info2=InfoT)
    c.returns(TupT(Record, Record))
    c.modifies = ["self", "info1", "info2", "r1", "r2"]
    for nme in ("r1_matches", "r2_matches", "r1_matches_swapped", "r2_matches_swapped"):
        c.local_types[nme] = MatchesT
    c.spec(mt_spec)
    c.spec(record_spec)
    c.spec(upper_rec)
    c.requires(rec1="is_none(r1.qualities) or len(val(r1.qualities)) == len(r1.sequence)",
               rec2="is_none(r2.qualities) or len(val(r2.qualities)) == len(r2.sequence)",
               distinct="r1.__id__ != r2.__id__",
               **_cut_pre(1, "r1"), **_cut_pre(2, "r2"))
    c.ghost("g_r1_trimmed = r1_trimmed\ng_r2_trimmed = r2_trimmed\ng_r1_matches = r1_matches\ng_r2_matches = r2_matches",
            before="if use_reverse_complement:")
    c.ghost("g_t0 = tally_len()\ng_rc0 = rc_total()", at_start=True)
    c.loop(1, head="for match in r1_matches", inv=[
        "0 <= __k1 <= len(r1_matches)",
        "self.reverse_complemented == old(self.reverse_complemented) + (1 if use_reverse_complement else 0)",
        "tally_len() == g_t0 + __k1 and rc_total() == g_rc0 + (__k1 if use_reverse_complement else 0)",
        "forall(t, 0, __k1, tally_id(g_t0 + t) == elem(r1_matches, t).__id__ and tally_key(g_t0 + t) == elem(r1_matches, t).adapter.__id__)"])
    c.loop(2, head="for match in r2_matches", inv=[
        "0 <= __k2 <= len(r2_matches)",
        "self.reverse_complemented == old(self.reverse_complemented) + (1 if use_reverse_complement else 0)",
        "len(info1.matches) == len(old(info1.matches)) + len(r1_matches)",
        "tally_len() == g_t0 + len(r1_matches) + __k2 and rc_total() == g_rc0 + ((len(r1_matches) + __k2) if use_reverse_complement else 0)",
        "forall(t, 0, len(r1_matches), tally_id(g_t0 + t) == elem(r1_matches, t).__id__)",
        "forall(t, 0, __k2, tally_id(g_t0 + len(r1_matches) + t) == elem(r2_matches, t).__id__ and tally_key(g_t0 + len(r1_matches) + t) == elem(r2_matches, t).adapter.__id__)"])
    c.ensures(
        swapped_used_iff_it_has_a_match_and_scores_strictly_higher=
            "use_reverse_complement == ((len(r1_matches_swapped) > 0 or len(r2_matches_swapped) > 0) and swapped_score > unswapped_score)",
        given_orientation_kept_otherwise="implies(not use_reverse_complement, rec_same(result[0], g_r1_trimmed) and rec_same(result[1], g_r2_trimmed) and "
                                         "val(info1.is_rc) == False and val(info2.is_rc) == False and "
                                         "len(r1_matches) == len(g_r1_matches) and len(r2_matches) == len(g_r2_matches))",
        swapped_result_is_the_swapped_pair="implies(use_reverse_complement, seq_eq(result[0].sequence, r1_trimmed_swapped.sequence) and "
                                           "seq_eq(result[1].sequence, r2_trimmed_swapped.sequence) and val(info1.is_rc) == True and val(info2.is_rc) == True)",
        counted_as_reverse_complemented="self.reverse_complemented == old(self.reverse_complemented) + (1 if use_reverse_complement else 0)",
        matches_of_chosen_orientation_recorded="len(info1.matches) == len(old(info1.matches)) + len(r1_matches) and "
                                               "len(info2.matches) == len(old(info2.matches)) + len(r2_matches) and "
                                               "len(r1_matches) == len(r1_matches_swapped if use_reverse_complement else g_r1_matches) and "
                                               "len(r2_matches) == len(r2_matches_swapped if use_reverse_complement else g_r2_matches)",
    )
    c.ensures(
        statistics_registered_once_per_recorded_match="tally_len() == g_t0 + len(r1_matches) + len(r2_matches) and "
            "forall(t, 0, len(r1_matches), tally_id(g_t0 + t) == elem(r1_matches, t).__id__) and "
            "forall(t, 0, len(r2_matches), tally_id(g_t0 + len(r1_matches) + t) == elem(r2_matches, t).__id__)",
        matches_on_reverse_complement_counted="rc_total() == g_rc0 + ((len(r1_matches) + len(r2_matches)) if use_reverse_complement else 0)",
    )
    c.mutant("swapped_score > unswapped_score", "swapped_score >= unswapped_score")
    c.mutant("r2_matches = r2_matches_swapped", "pass")
    c.mutant("info1.is_rc = info2.is_rc = True", "info1.is_rc = True")
