"""C13 — quality trimming (qualtrim.pyx: quality_trim_index, nextseq_trim_index; modifiers)."""
import z3
from pyvc.api import contract, Int, Bool, Str, OptT, ObjT, TupT
from pyvc.values import I, AII, StrV, as_str
from .common import Record

S3 = z3.Function("S3", AII, I, I, I, I, I)     # S3(q, n, cutoff, base, k) = sum_{k <= t < n} (cutoff - (q[t] - base))
S5 = z3.Function("S5", AII, I, I, I, I)        # S5(q, cutoff, base, k)   = sum_{0 <= t < k} (cutoff - (q[t] - base))
SG = z3.Function("SG", AII, AII, I, I, I, I, I)  # NextSeq: like S3 but a G counts as quality cutoff-1 (term 1)


def qsum_spec(cx):
    """Recurrence axioms are instantiated per (array, n, cutoff, base) tuple in use: no
    quantification over arrays."""
    if "S3" in cx.spec:
        return
    seen = set()
    k = z3.Int("k!s")

    def s3(qs, cut, base, kk):
        qs = as_str(qs)
        q, n, c, b = qs.arr, qs.n, cut, base
        key = ("S3", q.get_id(), n.get_id(), c.get_id(), b.get_id())
        if key not in seen:
            seen.add(key)
            cx.axioms.append(S3(q, n, c, b, n) == 0)
            cx.axioms.append(z3.ForAll([k], z3.Implies(z3.And(0 <= k, k < n), S3(q, n, c, b, k) == S3(q, n, c, b, k + 1) + c - (q[k] - b)),
                                       patterns=[S3(q, n, c, b, k)]))
        return S3(q, n, c, b, kk)

    def s5(qs, cut, base, kk):
        qs = as_str(qs)
        q, c, b = qs.arr, cut, base
        key = ("S5", q.get_id(), c.get_id(), b.get_id())
        if key not in seen:
            seen.add(key)
            cx.axioms.append(S5(q, c, b, 0) == 0)
            cx.axioms.append(z3.ForAll([k], z3.Implies(0 <= k, S5(q, c, b, k + 1) == S5(q, c, b, k) + c - (q[k] - b)),
                                       patterns=[S5(q, c, b, k + 1)]))
        return S5(q, c, b, kk)

    def sg(seq, qs, cut, base, kk):
        seq, qs = as_str(seq), as_str(qs)
        s, q, n, c, b = seq.arr, qs.arr, qs.n, cut, base
        key = ("SG", s.get_id(), q.get_id(), n.get_id(), c.get_id(), b.get_id())
        if key not in seen:
            seen.add(key)
            cx.axioms.append(SG(s, q, n, c, b, n) == 0)
            cx.axioms.append(z3.ForAll([k], z3.Implies(
                z3.And(0 <= k, k < n),
                SG(s, q, n, c, b, k) == SG(s, q, n, c, b, k + 1) + z3.If(s[k] == ord("G"), 1, c - (q[k] - b))),
                patterns=[SG(s, q, n, c, b, k)]))
        return SG(s, q, n, c, b, kk)

    cx.spec["S3"] = s3
    cx.spec["S5"] = s5
    cx.spec["SG"] = sg

    # ---- the clauses of the property statement, as predicates over the results
    t = z3.Int("t!c13")
    fa = lambda lo, hi, body: z3.ForAll([t], z3.Implies(z3.And(lo <= t, t < hi), body))

    def scan5(q, cf, base, n, brk5):
        return z3.And(z3.Or(brk5 == n, s5(q, cf, base, brk5 + 1) < 0), 0 <= brk5, brk5 <= n,
                      fa(0, brk5 + 1, z3.Or(t > n, s5(q, cf, base, t) >= 0)))

    def start_min(q, cf, base, n, brk5, gs):
        return z3.And(0 <= gs, gs <= brk5, gs <= n,
                      fa(0, brk5 + 1, z3.Or(t > n, s5(q, cf, base, t) <= s5(q, cf, base, gs))))

    def start_short(q, cf, base, gs):
        return fa(0, gs, s5(q, cf, base, t) < s5(q, cf, base, gs))

    def scan3(q, cb, base, n, brk3):
        return z3.And(z3.Or(brk3 == -1, s3(q, cb, base, brk3) < 0), -1 <= brk3, brk3 < n,
                      fa(brk3 + 1, n + 1, s3(q, cb, base, t) >= 0))

    def stop_min(q, cb, base, n, brk3, ge):
        return z3.And(brk3 < ge, ge <= n, fa(brk3 + 1, n + 1, s3(q, cb, base, t) <= s3(q, cb, base, ge)))

    def stop_short(q, cb, base, n, ge):
        return fa(ge + 1, n + 1, s3(q, cb, base, t) < s3(q, cb, base, ge))

    def scang(seq, q, c, base, n, brk):
        return z3.And(z3.Or(brk == -1, sg(seq, q, c, base, brk) < 0), -1 <= brk, brk < n,
                      fa(brk + 1, n + 1, sg(seq, q, c, base, t) >= 0))

    def stopg_min(seq, q, c, base, n, brk, ge):
        return z3.And(brk < ge, ge <= n, fa(brk + 1, n + 1, sg(seq, q, c, base, t) <= sg(seq, q, c, base, ge)))

    def stopg_short(seq, q, c, base, n, ge):
        return fa(ge + 1, n + 1, sg(seq, q, c, base, t) < sg(seq, q, c, base, ge))

    cx.spec.update(scan5=scan5, start_min=start_min, start_short=start_short, scan3=scan3, stop_min=stop_min,
                   stop_short=stop_short, scang=scang, stopg_min=stopg_min, stopg_short=stopg_short)


QT_PRE = dict(
    base_ok="base == 33 or base == 64",
    printable="forall(t, 0, len(qualities), 33 <= code(qualities, t) <= 126)",
    cutoffs="-256 <= cutoff_front <= 256 and -256 <= cutoff_back <= 256",
    size="len(qualities) <= 2097152",
)


def qt_post(q, cf, cb, base, r0, r1, g=lambda x: x):
    """Postcondition transcribed from the property statement; brk5/brk3 are the positions where
    the scans stopped (ghost), g_start/g_stop the two one-sided results before combination."""
    n = f"len({q})"
    return dict(
        scan5_stops_when_sum_positive=f"scan5({q}, {cf}, {base}, {n}, {g('brk5')})",
        start_minimises_prefix_sum=f"start_min({q}, {cf}, {base}, {n}, {g('brk5')}, {g('g_start')})",
        start_shortest_on_ties=f"start_short({q}, {cf}, {base}, {g('g_start')})",
        scan3_stops_when_sum_positive=f"scan3({q}, {cb}, {base}, {n}, {g('brk3')})",
        stop_minimises_suffix_sum=f"stop_min({q}, {cb}, {base}, {n}, {g('brk3')}, {g('g_stop')})",
        stop_shortest_on_ties=f"stop_short({q}, {cb}, {base}, {n}, {g('g_stop')})",
        combined=f"{r0} == (0 if {g('g_start')} >= {g('g_stop')} else {g('g_start')}) and "
                 f"{r1} == (0 if {g('g_start')} >= {g('g_stop')} else {g('g_stop')})",
        in_bounds=f"0 <= {r0} <= {r1} <= {n}",
    )


@contract("qualtrim.pyx", "quality_trim_index", props=["C13"])
def quality_trim_index(c):
    c.types(qualities=Str, cutoff_front=Int, cutoff_back=Int, base=Int)
    c.defaults["base"] = 33
    c.returns(TupT(Int, Int))
    c.spec(qsum_spec)
    c.requires(**QT_PRE)
    c.c_int_bits = 32
    c.ghost_results = ["brk5", "brk3", "g_start", "g_stop"]
    c.ghost("brk5 = n\nbrk3 = -1", after="start = 0")
    c.ghost("brk5 = i", before="break", occurrence=1)
    c.ghost("brk3 = i", before="break", occurrence=2)
    c.ghost("g_start = start\ng_stop = stop", after="loop:2")
    c.loop(1, head="for i in range(n)", inv=[
        "0 <= i_next <= n and n == len(qualities) and stop == n and brk5 == n and brk3 == -1",
        "s == S5(qualities, cutoff_front, base, i_next)",
        "forall(t, 0, i_next + 1, 0 <= S5(qualities, cutoff_front, base, t) <= max_qual)",
        "0 <= start <= i_next and max_qual == S5(qualities, cutoff_front, base, start)",
        "forall(t, 0, start, S5(qualities, cutoff_front, base, t) < max_qual)",
        "s <= 512 * i_next and -s <= 512 * i_next",
    ])
    c.loop(2, head="for i in reversed(range(n))", inv=[
        "-1 <= i_next <= n - 1 and n == len(qualities) and brk3 == -1",
        "s == S3(qualities, cutoff_back, base, i_next + 1)",
        "forall(t, i_next + 1, n + 1, 0 <= S3(qualities, cutoff_back, base, t) <= max_qual)",
        "i_next < stop <= n and max_qual == S3(qualities, cutoff_back, base, stop)",
        "forall(t, stop + 1, n + 1, S3(qualities, cutoff_back, base, t) < max_qual)",
        "s <= 512 * (n - 1 - i_next) and -s <= 512 * (n - 1 - i_next)",
    ])
    c.ensures(**qt_post("qualities", "cutoff_front", "cutoff_back", "base", "result[0]", "result[1]"))
    c.runtime = {"module": "c13", "name": "quality_trim_index"}
    c.mutant("s > max_qual", "s >= max_qual", occurrence=2)
    c.mutant("s > max_qual", "s >= max_qual", occurrence=1)
    c.mutant("s < 0", "s <= 0", occurrence=2)
    c.mutant("stop = i", "stop = i + 1")
    c.mutant("start = i + 1", "start = i")
    c.mutant("start >= stop", "start > stop")
    c.mutant("cutoff_back - (qual[i] - base)", "cutoff_front - (qual[i] - base)")


NS_PRE = dict(
    base_ok="base == 33 or base == 64",
    has_qualities="not is_none(sequence.qualities)",
    same_length="len(val(sequence.qualities)) == len(sequence.sequence)",
    printable="forall(t, 0, len(val(sequence.qualities)), 33 <= code(val(sequence.qualities), t) <= 126)",
    cutoffs="-256 <= cutoff <= 256",
    size="len(sequence.sequence) <= 2097152",
)


def ns_post(seq, q, cutoff, base, r, g=lambda x: x):
    n = f"len({q})"
    return dict(
        scan_stops_when_sum_positive=f"scang({seq}, {q}, {cutoff}, {base}, {n}, {g('brk')})",
        stop_minimises_suffix_sum_with_G_as_cutoff_minus_1=f"stopg_min({seq}, {q}, {cutoff}, {base}, {n}, {g('brk')}, {r})",
        stop_shortest_on_ties=f"stopg_short({seq}, {q}, {cutoff}, {base}, {n}, {r})",
        in_bounds=f"0 <= {r} <= {n}",
    )


@contract("qualtrim.pyx", "nextseq_trim_index", props=["C13"])
def nextseq_trim_index(c):
    c.types(sequence=Record, cutoff=Int, base=Int)
    c.defaults["base"] = 33
    c.returns(Int)
    c.spec(qsum_spec)
    c.requires(**NS_PRE)
    c.c_int_bits = 32
    c.ghost_results = ["brk"]
    c.ghost("brk = -1", after="max_i = len(qualities)")
    c.ghost("brk = i", before="break")
    c.loop(1, head="for i in reversed(range(max_i))", inv=[
        "-1 <= i_next <= len(qualities) - 1 and brk == -1",
        "s == SG(bases, val(qualities), cutoff, base, i_next + 1)",
        "forall(t, i_next + 1, len(qualities) + 1, 0 <= SG(bases, val(qualities), cutoff, base, t) <= max_qual)",
        "i_next < max_i <= len(qualities) and max_qual == SG(bases, val(qualities), cutoff, base, max_i)",
        "forall(t, max_i + 1, len(qualities) + 1, SG(bases, val(qualities), cutoff, base, t) < max_qual)",
        "s <= 512 * (len(qualities) - 1 - i_next) and -s <= 512 * (len(qualities) - 1 - i_next)",
    ])
    c.ensures(**ns_post("sequence.sequence", "val(sequence.qualities)", "cutoff", "base", "result"))
    c.runtime = {"module": "c13", "name": "nextseq_trim_index"}
    c.mutant("q = cutoff - 1", "q = cutoff")
    c.mutant("s > max_qual", "s >= max_qual")
    c.mutant("bases[i] == 'G'", "bases[i] == 'C'")
    c.mutant("max_i = i", "max_i = i + 1")


QTrimmer = ObjT("QualityTrimmer", cutoff_front=Int, cutoff_back=Int, base=Int, trimmed_bases=Int)
NSTrimmer = ObjT("NextseqQualityTrimmer", cutoff=Int, base=Int, trimmed_bases=Int)
Info = ObjT("ModificationInfo")


@contract("modifiers.py", "QualityTrimmer.__call__", props=["C13"])
def quality_trimmer_call(c):
    c.types(self=QTrimmer, read=Record, info=Info)
    c.modifies = ["self.trimmed_bases"]
    c.spec(qsum_spec)
    c.requires(
        base_ok="self.base == 33 or self.base == 64",
        has_qualities="not is_none(read.qualities)",
        same_length="len(val(read.qualities)) == len(read.sequence)",
        printable="forall(t, 0, len(val(read.qualities)), 33 <= code(val(read.qualities), t) <= 126)",
        cutoffs="-256 <= self.cutoff_front <= 256 and -256 <= self.cutoff_back <= 256",
        size="len(read.sequence) <= 2097152")
    g = lambda x: f"cg('quality_trim_index', '{x}')"
    post = qt_post("val(old(read.qualities))", "old(self.cutoff_front)", "old(self.cutoff_back)", "old(self.base)", "start", "stop", g)
    c.ensures(**{"interval_" + k: v for k, v in post.items()})
    c.ensures(
        sequence_is_the_slice="seq_eq(result.sequence, old(read.sequence)[start:stop])",
        qualities_same_slice="seq_eq(val(result.qualities), val(old(read.qualities))[start:stop])",
        name_kept="seq_eq(result.name, old(read.name))",
        removed_bases_counted="self.trimmed_bases == old(self.trimmed_bases) + len(old(read.sequence)) - len(result.sequence)",
    )
    c.mutant("stop - start", "stop - start + 1")
    c.mutant("read[start:stop]", "read[start:stop + 1]")
    c.mutant("self.cutoff_front, self.cutoff_back", "self.cutoff_back, self.cutoff_front")


@contract("modifiers.py", "NextseqQualityTrimmer.__call__", props=["C13"])
def nextseq_trimmer_call(c):
    c.types(self=NSTrimmer, read=Record, info=Info)
    c.modifies = ["self.trimmed_bases"]
    c.spec(qsum_spec)
    c.requires(
        base_ok="self.base == 33 or self.base == 64",
        has_qualities="not is_none(read.qualities)",
        same_length="len(val(read.qualities)) == len(read.sequence)",
        printable="forall(t, 0, len(val(read.qualities)), 33 <= code(val(read.qualities), t) <= 126)",
        cutoffs="-256 <= self.cutoff <= 256",
        size="len(read.sequence) <= 2097152")
    g = lambda x: f"cg('nextseq_trim_index', '{x}')"
    post = ns_post("old(read.sequence)", "val(old(read.qualities))", "old(self.cutoff)", "old(self.base)", "stop", g)
    c.ensures(**{"interval_" + k: v for k, v in post.items()})
    c.ensures(
        sequence_is_the_prefix="seq_eq(result.sequence, old(read.sequence)[:stop])",
        qualities_same_prefix="seq_eq(val(result.qualities), val(old(read.qualities))[:stop])",
        name_kept="seq_eq(result.name, old(read.name))",
        removed_bases_counted="self.trimmed_bases == old(self.trimmed_bases) + len(old(read.sequence)) - len(result.sequence)",
    )
    c.mutant("len(read) - stop", "len(read) - stop - 1")
    c.mutant("read[:stop]", "read[stop:]")


# ------------------------------------------------------------------------------ constructors: the counters start at zero
@contract("modifiers.py", "QualityTrimmer.__init__", props=["C13"])
def quality_trimmer_init(c):
    c.types(self=ObjT("QualityTrimmer"), cutoff_front=Int, cutoff_back=Int, base=Int)
    c.modifies = ["self"]
    c.ensures(cutoffs_and_base_stored="self.cutoff_front == cutoff_front and self.cutoff_back == cutoff_back and self.base == base",
              nothing_removed_yet="self.trimmed_bases == 0")
    c.mutant("self.cutoff_back = cutoff_back", "self.cutoff_back = cutoff_front")


@contract("modifiers.py", "NextseqQualityTrimmer.__init__", props=["C13"])
def nextseq_trimmer_init(c):
    c.types(self=ObjT("NextseqQualityTrimmer"), cutoff=Int, base=Int)
    c.modifies = ["self"]
    c.ensures(cutoff_and_base_stored="self.cutoff == cutoff and self.base == base", nothing_removed_yet="self.trimmed_bases == 0")
    c.mutant("self.trimmed_bases = 0", "self.trimmed_bases = 1")
