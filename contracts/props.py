"""Per-property metadata used by the check CLI and by tools/gen_manifest.py."""
PROPS = {
    "C13": {
        "level": "proof",
        "text": "Loop-invariant proofs, for every quality string, cutoff pair and base, that the real quality_trim_index / "
                "nextseq_trim_index (lowered from qualtrim.pyx by Cython's parser on every run) return exactly the BWA interval of the "
                "statement (argmin of the suffix/prefix sums, shortest on ties, early stop, crossing -> empty), and that the two "
                "modifiers slice sequence and qualities at that interval and count the removed bases.",
        "note": "Trusted: CPython str accessors, dnaio record slicing contract; inputs printable ASCII, |cutoff| <= 256, "
                "length <= 2^21 (C-int no-overflow preconditions); parse_cutoffs' string parsing is not under contract.",
        "assumptions": [
            "quality strings are printable ASCII (33..126), |cutoff| <= 256, base in {33,64}, length <= 2^21 "
            "(preconditions of the C-int no-overflow obligations)",
            "cli.parse_cutoffs / make_quality_trimmers (string parsing of '5p,3p') are not under contract"],
    },
}

PROPS["C14"] = {
    "level": "proof",
    "text": "Loop-invariant proofs on the real poly_a_trim_index (both directions), on expected_errors_from_phreds (C header via "
            "clang's AST, uint8 wrap-around modelled) and its Cython wrapper, on NEndTrimmer, PolyATrimmer and TooManyN, against the "
            "definitions in the statement; the 94 table literals are compared exhaustively with 10^(-q/10).",
    "note": "Trusted: `re` semantics of the two fixed patterns ^N+ / N+$, CPython str accessors, dnaio record slicing; doubles as "
            "reals (summation order and rounding not verified); table tolerance 1e-12 relative.",
    "assumptions": ["doubles are treated as reals", "sequence length <= 2^21 (C-int no-overflow precondition)",
                    "regular expressions ^N+ and N+$ behave as documented on newline-free strings"],
}

PROPS["C03"] = {
    "level": "proof",
    "text": "Every read-modifying function is proved to return the exact documented slice of its input record (sequence and "
            "qualities sliced alike), and the adapter actions to keep/mask/lowercase exactly the remainder interval.",
    "note": "Trusted: dnaio record slicing contract; str.upper/lower; statistics updates do not touch reads.",
    "assumptions": ["match objects are immutable after construction (heap-by-field model of lists of matches)"],
}

PROPS["C16"] = {
    "level": "proof",
    "text": "ReverseComplementer.__call__ and PairedReverseComplementer.__call__ are proved against the decision rule of the statement "
            "(reverse orientation iff it has a match and a strictly higher summed score), including the code's own assert, the name "
            "suffix, the is_rc flag, the counter and which matches are recorded.",
    "note": "Trusted: dnaio reverse_complement contract; AdapterCutter.match_and_trim by its (proved, C03) contract.",
    "assumptions": ["scores are unconstrained integers (accepted matches can have negative score at high error rates)"],
}

PROPS["C09"] = {
    "level": "proof",
    "text": "Loop-invariant proof that MultipleAdapters.match_to returns the match of the first adapter maximising (score, -errors); "
            "proof of the rounds loop of AdapterCutter.match_and_trim (each round searches what the previous one left; non-trim actions "
            "applied once to the original read over the remainder interval); truth-table proof of LinkedAdapter.match_to.  The match_to methods of the six single-adapter classes are proved against the abstract Matchable.match_to contract.",
    "note": "Trusted: each adapter's match_to is a deterministic function of (adapter, string) satisfying the abstract Matchable "
            "contract (proved per class under C01/C08); linked parts are 5'/3' single adapters (parser, C18).",
    "assumptions": ["the index (IndexedPrefix/SuffixAdapters) is one Matchable among the others, as the statement excludes it"],
}

PROPS["C17"] = {
    "level": "other",
    "text": "Proof that SingleMatch/LinkedMatch.get_info_records split the read they are given exactly at the match coordinates "
            "(three fields concatenate to it, qualities split alike, ;1/;2 rows) and that InfoFileWriter.__call__ prints at least one "
            "row per read and per match while following the chain of rounds — under the precondition that the stored original read is "
            "the string the first match was computed on.  That precondition is NOT established by the pipeline when a 5' modification "
            "(-u N, -q X,Y) runs before adapter trimming: known finding, demonstrated natively.",
    "note": "Trusted: print semantics (ghost row counter), dnaio record contract.  Bounded: the pipeline-level precondition is only "
            "exercised by a native stand-in on a grid of command lines.",
    "assumptions": ["rows are observed through a ghost counter and ghost assertions at the print statement, not through the file"],
}

PROPS["C20"] = {
    "level": "other",
    "text": "Proof that each add_match increments exactly one histogram cell [removed length][errors] on the correct end (5'/3' split "
            "for anywhere and linked adapters), exactly one adjacent-base bucket for 3' matches, and nothing else; proof that every "
            "registration site calls add_match once per recorded match; the merges of the per-adapter statistics across chunks are "
            "cell-by-cell sums; report.histogram_rows: every row of the report's table carries the tallied count of its removed "
            "length and the tally's error counts cell for cell, none beyond the end of the list.  Bounded: the 'allowed errors' "
            "ranges (float arithmetic), the report's JSON against the tally of the applied matches, --revcomp bookkeeping.",
    "note": "Trusted: dict/defaultdict semantics; sorted()/max() over dict keys; rows observed where they are yielded.  Bounded: ErrorRanges over all lengths <= 60 and rates k/100.",
    "assumptions": ["ErrorRanges: Python float arithmetic is exercised natively, not modelled"],
}

PROPS["C04"] = {
    "level": "other",
    "text": "Each pipeline step is proved against the abstract step contract: it returns None exactly when it consumes the read, and "
            "then exactly one write on exactly one writer and/or exactly one filter counter increment happened (ghost write log); "
            "sinks pair write and statistics update.  SingleEndPipeline.process_reads: every input read starts exactly one chain of calls, which ends at the first step that returns None.",
    "note": "Trusted: writers write what they are given; Predicate.test deterministic.  Statistics.collect / __iadd__ are under contract (cstats.py); the "
            "rendering of the report (as_json, report.py) is exercised by the bounded command-line grid only.",
    "assumptions": ["writes are observed through a ghost log, not through files"],
}

PROPS["C15"] = {
    "level": "other",
    "text": "The three demultiplexers are proved to write every read (pair) exactly once to the writer selected by the name of the "
            "last match on R1 (the pair of names), to the untrimmed writer, or to count it as discarded; demultiplex-mode detection is "
            "proved as a truth table.  Demultiplexer._open_writers / PairedDemultiplexer._open_writers: one writer per adapter name, opened "
            "on the template with {name} replaced, plus the untrimmed writer iff requested; CombinatorialDemultiplexer._open_writers: a writer "
            "for every combination of an R1 and an R2 name and, unless untrimmed pairs are discarded, for (none, none), (none, name2) and "
            "(name1, none) with `unknown` in the file names.  Bounded: that nothing else is opened, and file creation of the whole command line.",
    "note": "Trusted: dict lookups as uninterpreted functions of the key; adapter names of matches are among the configured names.",
    "assumptions": ["itertools.product enumerates exactly the pairs; a list enumerates exactly its elements; names identified by integer ids"],
}

PROPS["C05"] = {
    "level": "other",
    "text": "Proved: the pair-filter decision table of PairedEndFilter (any/both/first, one-sided predicates) against the statement, "
            "that every paired writer call receives both mates of the same pair together (sinks, demultiplexers, redirecting filters), "
            "that the paired wrapper gives each modifier only its own mate, that --pair-adapters picks the best same-rank pair "
            "(loop invariant) and changes both mates or neither.  Bounded: file-level synchronisation on a command-line grid; the "
            "'both is forced' rule of the command-line builder.  PairedEndPipeline.process_reads: both mates travel together through every call.",
    "note": "Trusted: abstract modifier/predicate contracts (deterministic functions); writers write what they are given.",
    "assumptions": ["pair identity is the identity of the two record objects handed to the step"],
}

PROPS["C11"] = {
    "level": "other",
    "text": "Each predicate's test is proved equal to the criterion in the statement (boundary values included, inputs symbolic); the "
            "filtering steps are proved to consume exactly the reads for which the criterion holds, count them once and redirect them "
            "iff a file was given (C04 step contracts).  Bounded: the order of the filter steps built by the command line is exercised "
            "on a grid, predicting each read's destination from the statement.  Both process_reads loops: a chain ends at the first call that returns None, so no later filter or output sees the read.",
    "note": "Trusted: floats as reals; expected_errors by its (proved, C14) contract; str.partition semantics.",
    "assumptions": ["the step-building segment of cli.make_pipeline_from_args is under contract with predicate constructors abstract "
                    "(their own constructor contracts establish the stored thresholds); whole-command-line behaviour is bounded"],
}

PROPS["C10"] = {
    "level": "other",
    "text": "The modifier-assembling part of make_pipeline_from_args (and the generator helpers it calls, inlined) is executed "
            "symbolically with a symbolic argparse namespace: for all option subsets the resulting list is sorted by the documented "
            "rank and every item obeys the documented R1/R2 routing; the paired wrapper gives each modifier only its own mate.  "
            "Bounded: option-order invariance and step-by-step composition on a command-line grid.  Both process_reads loops: modifiers, then steps, in list order, each call on what the previous call returned.",
    "note": "Trusted: argparse semantics; modifier constructors abstract; parse_cutoffs a deterministic function of its string.",
    "assumptions": ["at most three -u/-U and two --strip-suffix occurrences are modelled"],
}

PROPS["C01"] = {
    "level": "proof",
    "text": "Column-invariant proof on the real Aligner.locate (lowered from _align.pyx on every run): memory safety of every array "
            "access, result intervals inside read and adapter, placement rule of the flag set, minimum overlap, N-discounted "
            "tolerance, and existence of an alignment of the reported cost, for all adapters, reads, error rates and flag sets.  Also proved: the match_to methods of the six single-adapter classes hand the aligner's result on unchanged (mirrored for the rightmost 5' adapter) as a match of the documented kind.",
    "note": "Trusted: double arithmetic as the uninterpreted monotone function budget(L); translate() byte tables (checked "
            "exhaustively); at the match_to wrappers' call sites the aligner is abstract (its proved interval clause) and assumed built "
            "from the adapter's own sequence (the _aligner / _make_aligner methods are under contract; the constructor wiring "
            "`self.aligner = self._aligner()` is not).",
    "assumptions": ["indel cost is 1 or 100000 (the two values the constructor can set)", "rate in [0, 1]"],
}

PROPS["C02"] = {
    "level": "other",
    "text": "Proved on the real Aligner.locate: (E1) every admissible error-free occurrence forces a match; (E2) every admissible "
            "occurrence within tolerance forces a match for the flag sets that cannot skip the adapter start, with indels; (E3) the "
            "same for all flag sets when indels are disabled — via the completeness invariant cost <= Dist for all allowed starts.  "
            "Bounded: only the cut-position sentences (leftmost / rightmost copy), on a grid with a brute-force oracle.",
    "note": "Trusted: as C01, plus rate < 1.  The adapter-class wrappers (match_to) are under contract (cwrap.py); the cut-position sentences are covered by the bounded stand-in.",
    "assumptions": ["the occurrence is given as ghost parameters (universally quantified)"],
}

PROPS["C07"] = {
    "level": "other",
    "text": "Proved: the window arithmetic of KmerFinder.kmers_present (the searched window equals Python's sequence[start:stop], and "
            "lies inside the string, so shift_and_multiple_is_present never reads out of bounds).  Bounded: the headline clause "
            "(match_to with and without the prefilter agree) on seeded random adapter/read configurations for all eight adapter types.",
    "note": "The relation between the k-mer sets and the aligner (pigeonhole argument) is not proved; known losses are listed as findings.",
    "assumptions": ["bit-parallel search treated as an uninterpreted predicate of its window"],
}

PROPS["C08"] = {
    "level": "other",
    "text": "Proved on AdapterIndex._match_to_one_length / _match_to_multiple_lengths (both anchor sides): a reported match has its "
            "coordinates inside the read, removes exactly an affix of an indexed length, and carries the adapter, errors and score of "
            "the index entry; for several affix lengths the reported entry is the optimum (most matches, then fewest errors) over all "
            "indexed lengths that hit.  AdapterIndex._make_index: every entry is genuine, the best entry per key is kept, ambiguity is "
            "recorded exactly and ambiguous keys are removed; _accept / _split_adapters / _regroup_into_indexed_adapters decide which "
            "adapters are indexed.  Bounded: that hamming_sphere / edit_environment enumerate exactly the neighbourhood with exact "
            "error counts, and agreement of indexed and one-by-one search.",
    "note": "Trusted: the dictionary as an abstract map; hamming_sphere/edit_environment (Cython generators) are abstract in _make_index and only exercised natively.",
    "assumptions": ["reads without N for the proved part (the N fallback re-aligns with the adapter's own match_to)"],
}

PROPS["C06"] = {
    "level": "other",
    "text": "Scope-restricted.  Proved: OrderedChunkWriter.write keeps the invariant 'the file holds exactly the chunks 0.._current_index-1 "
            "in index order, everything else is waiting' for every arrival order (so the file content is a function of the set of "
            "(index, data) messages only).  Bounded: -j N against -j 1 (bytes and JSON report) on a command-line grid.  Statistics.__iadd__: read counts, reverse-complemented counts and per-filter counts are merged as point-wise sums with the union of the keys; per read end base totals, with-adapter / quality-trimmed counts, poly-A histograms and per-adapter statistics are merged component-wise.",
    "note": "NOT explored: OS schedules, IPC primitives, deadlock/liveness (assumed reliable FIFO connections and exactly-once queue).",
    "assumptions": ["no interleaving of processes is enumerated; the claim is about arrival-order independence of the main process"],
}

PROPS["C19"] = {
    "level": "other",
    "text": "Scope-restricted.  Proved on OutputFiles.open_record_writer: the `fileformat` handed to the record writer is determined by "
            "the file name before any compression suffix (else left to the input format via `qualities`), and the same keyword "
            "arguments reach the direct writer (one core) and the proxied writer (several cores).  Bounded: compression / interleaved "
            "/ core-count independence on a command-line grid.",
    "note": "NOT decided here: that the codecs round-trip bytes and that dnaio parses FASTA/FASTQ equivalently (third-party code).",
    "assumptions": ["codec equivalence of xopen/isal/zlib/bz2/xz/zstd is assumed"],
}

PROPS["C18"] = {
    "level": "other",
    "text": "Under contract: the adapter class table (-a/-g/-b x ^ $ X x rightmost), the `...` normalisation and make_adapter's "
            "dispatch, the linked and non-linked constructors (class, sequence, name, required flags as documented for -a versus -g, "
            "explicit required/optional overriding them, adapter-level parameters over file-level over global ones), the file: / "
            "^file: / file$: notation, the placement-restriction parser and the error-count to rate conversion.  Bounded: a reference "
            "parser written from the guide compared with the real one on an enumerated grammar; exit status 2 on a list of invalid "
            "combinations.",
    "note": "expand_braces, parse_search_parameters and _extract_name (string loops) are covered by the bounded comparison only.",
    "assumptions": ["adapter constructors are abstract at the parser's call sites", "string method semantics as encoded"],
}

_PENDING = "check not built yet in this revision (see DESIGN.md section 7 for the build order)"
NOT_APPLICABLE = {
    "C12": "quantifies over fault sequences, crash points and schedules and contains a liveness clause; malformed-input detection "
           "lives in dnaio's C parser and the codecs; no contract on cutadapt functions can express or decide it (DESIGN.md section 5)",
}
for _p in ["C%02d" % i for i in range(1, 21)]:
    if _p not in PROPS and _p not in NOT_APPLICABLE:
        NOT_APPLICABLE[_p] = _PENDING
