"""Assumed contracts of the language runtime and of dependencies (dnaio, CPython C API).
Everything in this file is *trusted*: it is listed in every evidence file that uses it."""
import z3
from pyvc.values import *  # noqa
from pyvc.state import CArr
from pyvc import api
from pyvc.api import Int, Bool, Str, OptT, ObjT
from pyvc.engine import str_slice, zint, slice_bounds
from pyvc.world import BUILTINS

TRUSTED = {
    "cpython-unicode": "PyUnicode_1BYTE_DATA/PyUnicode_DATA return the code units of the str; inputs are ASCII "
                       "(PyUnicode_KIND == 1BYTE, compact ASCII) — non-ASCII input raises ValueError and is outside the claim",
    "dnaio-record": "dnaio.SequenceRecord: r[a:b] is a fresh record with the same name, sequence[a:b] and "
                    "qualities[a:b] (or None), len(r) == len(r.sequence) (so an empty record is falsy); attribute assignment sets the field",
}

# ---------------------------------------------------------------- CPython C-API as used by the .pyx files


def _data(name):
    def f(ex, st, args, kwargs, node, spec):
        v = args[0]
        if isinstance(v, CArr):
            return v
        if isinstance(v, Opt):
            v = v.val if spec else ex.need_not_none(v, st, node, name)
        s = as_str(v)
        return CArr(s.arr, s.n, None, name)
    return f


BUILTINS["PyUnicode_1BYTE_DATA"] = _data("str_data")
BUILTINS["PyUnicode_DATA"] = _data("str_data")
BUILTINS["PyBytes_AS_STRING"] = _data("bytes_data")
BUILTINS["PyUnicode_KIND"] = lambda ex, st, a, k, n, s: z3.IntVal(1)
BUILTINS["PyUnicode_GET_LENGTH"] = lambda ex, st, a, k, n, s: as_str(a[0]).n
BUILTINS["PyUnicode_IS_COMPACT_ASCII"] = lambda ex, st, a, k, n, s: z3.BoolVal(True)


def c_globals(name, cx):
    if name == "PyUnicode_1BYTE_KIND":
        return z3.IntVal(1)
    return None


# ---------------------------------------------------------------- dnaio.SequenceRecord

api.schema("SequenceRecord", name=Str, sequence=Str, qualities=OptT(Str))

Record = ObjT("SequenceRecord")


def rec_slice(ex, st, rec, lo, hi, node, spec):
    seq = rec.fields["sequence"]
    q = rec.fields["qualities"]
    nq = Opt(q.none, str_slice(q.val, lo, hi)) if isinstance(q, Opt) else (None if q is None else str_slice(q, lo, hi))
    return ObjV("SequenceRecord", {"name": rec.fields["name"], "sequence": str_slice(seq, lo, hi), "qualities": nq})


def rec_len(ex, st, rec, args, kwargs, node, spec):
    return rec.fields["sequence"].n


def install(world):
    world.handlers[("SequenceRecord", "__getslice__")] = rec_slice
    world.handlers[("SequenceRecord", "__len__")] = rec_len
    world.global_providers.append(c_globals)

# ---------------------------------------------------------------- reverse complement (dnaio)
COMP = z3.Function("dna_complement", z3.IntSort(), z3.IntSort())
TRUSTED["dnaio-revcomp"] = ("dnaio.SequenceRecord.reverse_complement(): fresh record, same name, sequence reversed and "
                            "complemented character-wise, qualities reversed")


def rec_revcomp(ex, st, rec, args, kwargs, node, spec):
    from pyvc.values import fresh, AII, I
    cx = ex.cx
    cache = cx.__dict__.setdefault("_rc_cache", {})
    seq = rec.fields["sequence"]
    q = rec.fields["qualities"]
    key = (seq.arr.get_id(), seq.n.get_id(), q.val.arr.get_id() if isinstance(q, Opt) else 0)
    if key not in cache:
        k = z3.Int("k!rc")
        rs = fresh("rc.seq", AII)
        cx.axioms.append(z3.ForAll([k], rs[k] == COMP(seq.arr[seq.n - 1 - k]), patterns=[rs[k]]))
        rq = None
        if isinstance(q, Opt):
            rqa = fresh("rc.qual", AII)
            cx.axioms.append(z3.ForAll([k], rqa[k] == q.val.arr[q.val.n - 1 - k], patterns=[rqa[k]]))
            rq = Opt(q.none, StrV(rqa, q.val.n))
        cache[key] = (StrV(rs, seq.n), rq, fresh("id.rc", I))
    s2, q2, oid = cache[key]
    return ObjV("SequenceRecord", {"name": rec.fields["name"], "sequence": s2, "qualities": q2, "__id__": oid})


_install0 = install


def install(world):
    _install0(world)
    from pyvc import values
    # dnaio.SequenceRecord defines __len__: an empty record is falsy
    values.TRUTHY_HOOKS["SequenceRecord"] = lambda r: r.fields["sequence"].n > 0
    world.handlers[("SequenceRecord", "reverse_complement")] = rec_revcomp
