"""C19 — results do not depend on compression, file layout or how a format is requested (scope-restricted: the output
format decision and layout routing; the codecs themselves are third-party and assumed)."""
import z3
from pyvc import api
from pyvc.api import contract, Int, Bool, Str, OptT, ObjT, TupT, SeqT, GListT
from pyvc.values import *  # noqa
from pyvc.engine import str_eq

TRUSTED = [
    "xopen / isal / zlib / bz2 / xz / zstd round-trip bytes; dnaio parses FASTA/FASTQ equivalently and honours the `fileformat`, "
    "`qualities` and `interleaved` arguments it is given (third-party code: no contract of cutadapt is involved)",
    "str.lower / endswith semantics",
]


def fmt_spec(cx):
    if "fmt_of_name" in cx.spec:
        return
    from pyvc.world import map_str, LOWER

    def ends(s, suf):
        suf = as_str(PyConst(suf))
        k = len(suf_text(suf))
        return None

    def fmt_of_name(path):
        """'fasta' / 'fastq' / none, from the name before any compression suffix — written from the statement."""
        s = map_str(cx, LOWER, as_str(path))
        cx.need_char_axioms = True

        def endswith(x, text):
            L = len(text)
            return z3.And(x.n >= L, *[x.arr[x.n - L + i] == ord(ch) for i, ch in enumerate(text)])

        def strip(x):
            out_n = x.n
            for ext in (".gz", ".bz2", ".xz", ".zst"):
                pass
            # first matching compression suffix is removed
            n = x.n
            conds = [endswith(x, e) for e in (".gz", ".bz2", ".xz", ".zst")]
            lens = [3, 4, 3, 4]
            res = n
            for c_, L in reversed(list(zip(conds, lens))):
                res = z3.If(c_, n - L, res)
            return StrV(x.arr, res)
        t = strip(s)
        is_fasta = z3.Or(*[endswith(t, e) for e in (".fasta", ".fa", ".fna", ".csfasta", ".csfa")])
        is_fastq = z3.Or(*[endswith(t, e) for e in (".fastq", ".fq")])
        return is_fasta, z3.And(z3.Not(is_fasta), is_fastq)

    cx.spec["name_says_fasta"] = lambda p: fmt_of_name(p)[0]
    cx.spec["name_says_fastq"] = lambda p: fmt_of_name(p)[1]


def suf_text(s):
    return ""


OutFilesT = ObjT("OutputFiles", _proxied=Bool, _qualities=Bool, _interleaved=Bool, _file_opener=ObjT("FileOpener"),
                 _binary_files=ObjT("PyList"), _binary_files_to_close=ObjT("PyList"), _writers=ObjT("PyList"), _proxy_files=ObjT("PyList"))


def install(world):
    from pyvc.calls import Mut

    def append(ex, st, l, a, k, n, s):
        return Mut(None, l)
    world.handlers[("PyList", "append")] = append
    world.handlers[("FileOpener", "xopen")] = lambda ex, st, o, a, k, n, s: ObjV("BinFile2", {"__id__": fresh("id.file", I)})

    def record(kind):
        def h(ex, st, *rest):
            if kind == "proxy":
                args, kwargs = rest[0], rest[1]
            else:
                args, kwargs = rest[1], rest[2]
            st.env["$fmt_kwargs"] = ObjV("__kwargs__", dict(kwargs))
            st.env["$fmt_kind"] = PyConst(kind)
            return ObjV("Writer", {"__id__": fresh("id.writer", I)})
        return h
    world.ctor_handlers["ProxyRecordWriter"] = record("proxy")
    world.handlers[("FileOpener", "dnaio_open")] = record("direct")

    prev_dict = world.builtins.get("dict")

    def b_dict(ex, st, args, kwargs, node, spec):
        if prev_dict is not None and not args and not kwargs and getattr(ex.cx.c, "int_key_dicts", False):
            return prev_dict(ex, st, args, kwargs, node, spec)
        return ObjV("__kwdict__", dict(kwargs))
    world.builtins["dict"] = b_dict



@contract("files.py", "OutputFiles.open_record_writer", props=["C19", "C06"])
def open_record_writer(c):
    c.types(self=OutFilesT, paths=GListT(Str, 2), interleaved=Bool, force_fasta=Bool)
    c.modifies = ["self"]
    c.spec(fmt_spec)
    c.raises("ValueError", when=None)
    c.requires(not_stdout="len(paths) >= 1")
    c.ensures(
        format_from_the_file_name_before_any_compression_suffix="implies(name_says_fasta(paths[0]) and not (len(paths) == 1 and seq_eq(paths[0], '-') and force_fasta), fmt_passed_is('fasta')) and "
                                                                "implies(name_says_fastq(paths[0]), fmt_passed_is('fastq') or (len(paths) == 1 and seq_eq(paths[0], '-') and force_fasta))",
        unrecognised_name_falls_back_to_the_input_format="implies(not name_says_fasta(paths[0]) and not name_says_fastq(paths[0]) and not (len(paths) == 1 and seq_eq(paths[0], '-') and force_fasta), "
                                                         "fmt_passed_is_unset()) and qualities_passed() == self._qualities",
        same_arguments_with_one_core_and_with_several="writer_kind_is_proxy() == self._proxied",
        interleaved_passed_through="interleaved_passed() == interleaved",
    )
    c.mutant("kwargs['fileformat'] = fileformat", "pass", occurrence=1)
    c.mutant("if self._proxied:", "if not self._proxied:")
    c.mutant("qualities=self._qualities", "qualities=True")


@contract("files.py", "OutputFiles.open_record_writer", props=["C19"], name="OutputFiles.open_record_writer@stdout")
def open_record_writer_stdout(c):
    """The paired-end sink for standard output is opened as open_record_writer(None, interleaved=True, force_fasta=--fasta):
    no name, so FASTA exactly when --fasta was given."""
    c.types(self=OutFilesT, paths=api.ConstT(TupV((None,))), interleaved=Bool, force_fasta=Bool)
    c.modifies = ["self"]
    c.spec(fmt_spec)
    c.raises("ValueError", when=None)
    c.ensures(
        fasta_exactly_when_forced="fmt_passed_is('fasta') == force_fasta and fmt_passed_is_unset() == (not force_fasta)",
        falls_back_to_the_input_format="qualities_passed() == self._qualities",
        same_arguments_with_one_core_and_with_several="writer_kind_is_proxy() == self._proxied",
    )


def kw_spec(cx):
    def kw(st_env_getter):
        pass

    def fmt_passed_is(st, text):
        d = st.env.get("$fmt_kwargs")
        v = d.fields.get("fileformat") if d is not None else None
        if v is None:
            return z3.BoolVal(False)
        if isinstance(v, Opt):
            return z3.And(z3.Not(v.none), str_eq(v.val, text))
        return str_eq(v, text)

    def fmt_unset(st):
        d = st.env.get("$fmt_kwargs")
        v = d.fields.get("fileformat") if d is not None else None
        if v is None:
            return z3.BoolVal(True)
        if isinstance(v, Opt):
            return v.none
        return z3.BoolVal(False)

    cx.spec["__stateful__"] = {
        "fmt_passed_is": fmt_passed_is,
        "fmt_passed_is_unset": fmt_unset,
        "qualities_passed": lambda st: st.env["$fmt_kwargs"].fields["qualities"],
        "interleaved_passed": lambda st: st.env["$fmt_kwargs"].fields["interleaved"],
        "writer_kind_is_proxy": lambda st: str_eq(st.env["$fmt_kind"], PyConst("proxy")),
    }


open_record_writer.specs.append(kw_spec)
open_record_writer_stdout.specs.append(kw_spec)


@contract("files.py", "OutputFiles.open_stdout_record_writer", props=["C19", "C06"])
def open_stdout_record_writer(c):
    """Standard output has no name: FASTA exactly when --fasta was given, otherwise the input format decides (through
    `qualities`); the same arguments reach the direct and the proxied writer."""
    c.types(self=OutFilesT, interleaved=Bool, force_fasta=Bool)
    c.modifies = ["self"]
    c.env["sys.stdout"] = ObjV("Stdout", {"buffer": ObjV("BinFile2", {"__id__": z3.IntVal(-7)})})
    c.spec(fmt_spec)
    c.spec(kw_spec)
    c.ensures(
        fasta_exactly_when_forced="fmt_passed_is('fasta') == force_fasta and fmt_passed_is_unset() == (not force_fasta)",
        falls_back_to_the_input_format="qualities_passed() == self._qualities",
        same_arguments_with_one_core_and_with_several="writer_kind_is_proxy() == self._proxied",
        interleaved_passed_through="interleaved_passed() == interleaved",
    )
    c.mutant("if force_fasta:", "if not force_fasta:")
    c.mutant("qualities=self._qualities", "qualities=False")


def extra_checks(res, tier, seed, known, log):
    from pyvc import runner
    runner.cli_grid(res, "C19", tier, seed, known, quick=16, thorough=150)
    # what a worker process gets under the spawn / forkserver start methods is the proxy writer rebuilt from its pickled
    # state (this sandbox's runs use fork, where the object itself is inherited): runtime contract on that round trip
    runner.runtime_standin(res, "C19", "cfiles", "proxy_record_writer", seed, 1500 if tier == "quick" else 20000, 60 if tier == "quick" else 300,
                           label="proxy record writer: requested format, pickled state = the keyword arguments given, rebuilt copy writes the same bytes (bounded)")
