"""C17 — the info file locates every match and reconstructs every read."""
import z3
from pyvc import api, heap
from pyvc.api import contract, Int, Bool, Str, OptT, ObjT, TupT, SeqT, schema
from pyvc.values import *  # noqa
from .common import Record
from .shapes import MatchT, SingleMatchT, InfoT, AdapterT, LinkedT, match_spec, match_spec2, record_spec
from .c09 import mt_spec

TRUSTED = [
    "print(..., sep='\\t', file=f) writes its arguments as one row (rows are counted through a ghost counter)",
]

SingleT = ObjT("SingleMatch")


@contract("adapters.py", "SingleMatch.get_info_records", props=["C17"])
def single_get_info_records(c):
    c.types(self=SingleT, read=Record)
    c.spec(mt_spec)
    c.spec(record_spec)
    c.requires(wf="wf_single(self)", same_length="len(read.sequence) == len(self.sequence)",
               rec="is_none(read.qualities) or len(val(read.qualities)) == len(read.sequence)")
    R = "result[0]"
    c.ensures(
        one_row="len(result) == 1 and len(result[0]) == 11",
        coordinates_and_errors=f"{R}[1] == self.errors and {R}[2] == self.rstart and {R}[3] == self.rstop",
        middle_field_is_the_stretch_between_the_coordinates=f"seq_eq({R}[5], read.sequence[self.rstart:self.rstop])",
        three_fields_concatenate_to_the_read=f"seq_eq({R}[4] + {R}[5] + {R}[6], read.sequence)",
        adapter_name=f"seq_eq({R}[7], self.adapter.name)",
        qualities_split_at_the_same_coordinates=f"implies(not is_none(read.qualities) and len(val(read.qualities)) > 0, "
                                                f"seq_eq({R}[8], val(read.qualities)[:self.rstart]) and seq_eq({R}[9], val(read.qualities)[self.rstart:self.rstop]) "
                                                f"and seq_eq({R}[10], val(read.qualities)[self.rstop:]))",
        no_qualities_gives_empty_fields=f"implies(is_none(read.qualities), len({R}[8]) == 0 and len({R}[9]) == 0 and len({R}[10]) == 0)",
    )
    c.runtime = {"module": "c17", "name": "get_info_records"}
    c.mutant("seq[self.rstop:]", "seq[self.rstop + 1:]")
    c.mutant("seq[0:self.rstart]", "seq[0:self.rstop]")
    c.mutant("self.errors, self.rstart, self.rstop", "self.errors, self.astart, self.rstop")
    c.mutant("qualities[self.rstart:self.rstop]", "qualities[self.astart:self.astop]")


@contract("adapters.py", "LinkedMatch.get_info_records", props=["C17"])
def linked_get_info_records(c):
    c.types(self=ObjT("LinkedMatch", front_match=OptT(SingleMatchT), back_match=OptT(SingleMatchT),
                      adapter=ObjT("Adapter", name=OptT(Str)), __cls__=Int), read=Record)
    c.spec(mt_spec)
    c.spec(record_spec)
    c.inline.update({"SingleMatch.get_info_records"})
    from .c03 import LINKED_WF
    c.requires(rec="is_none(read.qualities) or len(val(read.qualities)) == len(read.sequence)",
               matches_this_read="len(read.sequence) == (len(val(self.front_match).sequence) if not is_none(self.front_match) else len(val(self.back_match).sequence))",
               **LINKED_WF)
    F, B_ = "val(self.front_match)", "val(self.back_match)"
    both = "not is_none(self.front_match) and not is_none(self.back_match)"
    c.ensures(
        one_row_per_part="len(result) == (1 if not is_none(self.front_match) else 0) + (1 if not is_none(self.back_match) else 0)",
        front_row_reconstructs_the_read=f"implies(not is_none(self.front_match), seq_eq(result[0][4] + result[0][5] + result[0][6], old(read.sequence)) and "
                                        f"seq_eq(result[0][5], old(read.sequence)[{F}.rstart:{F}.rstop]) and result[0][2] == {F}.rstart and result[0][3] == {F}.rstop)",
        back_row_reconstructs_what_the_front_part_left=f"implies({both}, seq_eq(result[1][4] + result[1][5] + result[1][6], old(read.sequence)[{F}.rstop:]) and "
                                                       f"seq_eq(result[1][5], old(read.sequence)[{F}.rstop:][{B_}.rstart:{B_}.rstop]) and result[1][2] == {B_}.rstart)",
        back_only_row_reconstructs_the_read=f"implies(is_none(self.front_match), seq_eq(result[0][4] + result[0][5] + result[0][6], old(read.sequence)) and "
                                            f"seq_eq(result[0][5], old(read.sequence)[{B_}.rstart:{B_}.rstop]))",
        names_marked_1_and_2=f"implies(not is_none(self.front_match) and not is_none(self.adapter.name), seq_eq(result[0][7], val(self.adapter.name) + ';1')) and "
                             f"implies({both} and not is_none(self.adapter.name), seq_eq(result[1][7], val(self.adapter.name) + ';2')) and "
                             f"implies(is_none(self.front_match) and not is_none(self.adapter.name), seq_eq(result[0][7], val(self.adapter.name) + ';2'))",
    )
    c.mutant("read = match.trimmed(read)", "pass")
    c.mutant("(self.back_match, ';2')", "(self.back_match, ';1')")


WriterT = ObjT("InfoFileWriter", _file=ObjT("TextIO"))


@contract("steps.py", "InfoFileWriter.__call__", props=["C17"])
def info_file_writer_call(c):
    c.types(self=WriterT, read=Record, info=InfoT)
    c.returns(Record)
    c.spec(mt_spec)
    c.spec(record_spec)
    c.inline.update({"SingleMatch.get_info_records", "LinkedMatch.get_info_records"})
    c.requires(
        original="is_none(info.original_read.qualities) or len(val(info.original_read.qualities)) == len(info.original_read.sequence)",
        all_wf="forall(t, 0, len(info.matches), wf(elem(info.matches, t)))",
        first_match_was_computed_on_the_read_as_read_from_the_input="implies(len(info.matches) > 0, mlen(elem(info.matches, 0)) == len(info.original_read.sequence))",
        later_rounds_searched_what_the_previous_round_left="forall(t, 1, len(info.matches), mlen(elem(info.matches, t)) == hi(elem(info.matches, t - 1)) - lo(elem(info.matches, t - 1)))",
    )
    c.ghost("g_cur0 = current_read", before="if info.matches:")
    c.ghost("__assert__(seq_eq(info_record[4] + info_record[5] + info_record[6], g_cur0.sequence[START(info.matches, __k1):START(info.matches, __k1) + mlen(match)]) "
            "or (match.__cls__ == LM() and not is_none(match.front_match) and not is_none(match.back_match)), 'row_fields_concatenate_to_what_the_previous_round_left')",
            before="print(read.name + info_record[0], *info_record[1:], self.RC_MAP[info.is_rc], sep='\\t', file=self._file)")
    c.ghost("g_before = nprinted()", before="for info_record in match.get_info_records(current_read):")
    c.loop(1, head="for match in info.matches", inv=[
        "0 <= __k1 <= len(info.matches)",
        "nprinted() >= __k1",
        "rec_is_slice(current_read, g_cur0, START(info.matches, __k1), START(info.matches, __k1) + len(current_read.sequence))",
        "0 <= START(info.matches, __k1) and START(info.matches, __k1) + len(current_read.sequence) <= len(g_cur0.sequence)",
        "implies(__k1 > 0, rem1_at(info.matches, __k1) == START(info.matches, __k1) + len(current_read.sequence))",
        "is_none(current_read.qualities) or len(val(current_read.qualities)) == len(current_read.sequence)",
        "implies(__k1 < len(info.matches), mlen(elem(info.matches, __k1)) == len(current_read.sequence))",
    ])
    c.ensures(
        at_least_one_row_per_read="nprinted() >= 1",
        at_least_one_row_per_match="nprinted() >= len(info.matches)",
        read_passed_on_unchanged="rec_same(result, old(read))",
        orientation_follows_the_flag="implies(is_none(info.is_rc) or not val(info.is_rc), rec_same(g_cur0, info.original_read))",
    )
    c.mutant("current_read = match.trimmed(current_read)", "pass")
    c.mutant("if info.is_rc:", "if not info.is_rc:")
    c.mutant("return read", "return current_read")


def extra_checks(res, tier, seed, known, log):
    """Pipeline-level bounded stand-in: the real command line with --info-file (never counted as proved)."""
    from pyvc import runner
    count = 60 if tier == "quick" else 400
    r = runner.run_native("c17_infofile.py", {"seed": seed, "count": count}, timeout=1800)
    js = r["json"]
    if js is None:
        res.errors.append(("crash", "c17_infofile.py: " + r["stderr"][-800:]))
        return
    fails = js["failures"]
    known_hits = [f for f in fails if f.get("five_prime_removal_before_adapters")]
    other = [f for f in fails if not f.get("five_prime_removal_before_adapters")]
    entry = {"name": "info file rows vs recomputed matches on the real command line", "bounded": True, "cases": js["cases"],
             "distinct_nontrivial": js["distinct_nontrivial"], "bounds": js["bounds"], "known_hits": len(known_hits),
             "failures": other, "samples": js["samples"][:2]}
    res.native.append(entry)
    k = runner.match_known(known, "C17", "bounded:infofile:five_prime_removal_before_adapters")
    if known_hits:
        if k is not None:
            class _O:   # minimal stand-in for an obligation in the report
                oid = "bounded:infofile:five_prime_removal_before_adapters"
            res.known.append((k, _O()))
        else:
            other = known_hits + other
    if other:
        path = runner.write_replay("C17", "infofile", {"property": "C17", "obligation": "bounded:infofile", "failing_input": other[0], "all": other[:5]})
        res.violations.append({"replay": path})
