"""Object shapes (schemas) and spec vocabulary shared by the pure-Python properties:
matches, adapters, records, ModificationInfo, interval arithmetic."""
import z3
from pyvc import api, heap
from pyvc.api import Int, Bool, Real, Str, OptT, ObjT, TupT, SeqT, MapT, schema
from pyvc.values import *  # noqa
from pyvc.engine import str_slice, slice_bounds
from .common import Record

schema("Adapter", name=Str)
AdapterT = ObjT("Adapter")

_single = dict(astart=Int, astop=Int, rstart=Int, rstop=Int, score=Int, errors=Int, sequence=Str,
               adapter=AdapterT, __cls__=Int, length=Int)
schema("SingleMatch", **_single)
SingleMatchT = ObjT("SingleMatch")
schema("Match", front_match=OptT(SingleMatchT), back_match=OptT(SingleMatchT), **_single)
MatchT = ObjT("Match")

LinkedT = ObjT("LinkedMatch", front_match=OptT(SingleMatchT), back_match=OptT(SingleMatchT), adapter=AdapterT, __cls__=Int)

schema("ModificationInfo", matches=SeqT(MatchT), original_read=Record, cut_prefix=OptT(Str), cut_suffix=OptT(Str),
       is_rc=OptT(Bool))
InfoT = ObjT("ModificationInfo")


def tags(w):
    return w.cls_tag("RemoveBeforeMatch"), w.cls_tag("RemoveAfterMatch"), w.cls_tag("LinkedMatch")


def match_spec(cx):
    """wf / lo / hi / START and friends.  lo(m), hi(m) are the remainder interval of one match."""
    if "wf" in cx.spec:
        return
    from pyvc import verify
    w = verify.world()
    RB, RA, LM = tags(w)

    def wf_single(m, tag=None):
        n = m.fields["sequence"].n
        c = [0 <= m.fields["astart"], m.fields["astart"] <= m.fields["astop"],
             0 <= m.fields["rstart"], m.fields["rstart"] <= m.fields["rstop"], m.fields["rstop"] <= n, n >= 0]
        if "length" in m.fields:
            c.append(m.fields["length"] == m.fields["astop"] - m.fields["astart"])     # set by SingleMatch.__init__
        if tag is not None:
            c.append(m.fields["__cls__"] == tag)
        return z3.And(*c)

    def wf(m):
        """Well-formed match of any of the three classes (LinkedMatch: chain between its parts)."""
        m = m.val if isinstance(m, Opt) else m
        t = m.fields["__cls__"]
        if "front_match" not in m.fields:
            return z3.And(z3.Or(t == RB, t == RA), wf_single(m))
        f, b = m.fields["front_match"], m.fields["back_match"]
        linked = z3.And(
            z3.Or(z3.Not(f.none), z3.Not(b.none)),
            z3.Implies(z3.Not(f.none), wf_single(f.val, RB)),
            z3.Implies(z3.Not(b.none), wf_single(b.val, RA)),
            z3.Implies(z3.And(z3.Not(f.none), z3.Not(b.none)),
                       b.val.fields["sequence"].n == f.val.fields["sequence"].n - f.val.fields["rstop"]))
        return z3.And(z3.Or(t == RB, t == RA, t == LM), z3.If(t == LM, linked, wf_single(m)))

    def mlen(m):
        """Length of the string the match was computed on."""
        m = m.val if isinstance(m, Opt) else m
        t = m.fields["__cls__"]
        if "front_match" not in m.fields:
            return m.fields["sequence"].n
        f, b = m.fields["front_match"], m.fields["back_match"]
        return z3.If(t == LM, z3.If(z3.Not(f.none), f.val.fields["sequence"].n, b.val.fields["sequence"].n),
                     m.fields["sequence"].n)

    def lo(m):
        m = m.val if isinstance(m, Opt) else m
        t = m.fields["__cls__"]
        single = z3.If(t == RB, m.fields["rstop"], z3.IntVal(0))
        if "front_match" not in m.fields:
            return single
        f = m.fields["front_match"]
        return z3.If(t == LM, z3.If(z3.Not(f.none), f.val.fields["rstop"], z3.IntVal(0)), single)

    def hi(m):
        m = m.val if isinstance(m, Opt) else m
        t = m.fields["__cls__"]
        single = z3.If(t == RB, m.fields["sequence"].n, m.fields["rstart"])
        if "front_match" not in m.fields:
            return single
        f, b = m.fields["front_match"], m.fields["back_match"]
        fl = z3.If(z3.Not(f.none), f.val.fields["rstop"], z3.IntVal(0))
        linked = z3.If(z3.Not(b.none), fl + b.val.fields["rstart"], f.val.fields["sequence"].n)
        return z3.If(t == LM, linked, single)

    START = z3.Function("START", AII, I, I)     # START(ids, k) = sum_{t<k} lo(match ids[t])
    seen = set()
    k = z3.Int("k!st")

    def start(seq, kk):
        a = heap.named_array(cx, seq.arr)
        seq = SeqV(a, seq.n, seq.elem)
        if a.get_id() not in seen:
            seen.add(a.get_id())
            cx.axioms.append(START(a, 0) == 0)
            cx.axioms.append(z3.ForAll([k], z3.Implies(k > 0, START(a, k) == START(a, k - 1) + lo(heap.seq_elem(seq, a[k - 1]))),
                                       patterns=[START(a, k)]))
        return START(a, kk)

    def elem(seq, i):
        a = heap.named_array(cx, seq.arr)
        return heap.seq_elem(seq, a[i])

    def rem0(seq):
        return start(seq, seq.n)

    def rem1(seq):
        last = elem(seq, seq.n - 1)
        return start(seq, seq.n) + hi(last) - lo(last)

    def rem1_at(seq, kk):
        last = elem(seq, kk - 1)
        return start(seq, kk) + hi(last) - lo(last)

    cx.spec["rem1_at"] = rem1_at

    def same_str(a, b):
        a, b = as_str(a), as_str(b)
        return z3.And(a.n == b.n, a.arr == b.arr)

    cx.spec.update(wf=wf, wf_single=wf_single, mlen=mlen, lo=lo, hi=hi, START=start, elem=elem, rem0=rem0, rem1=rem1,
                   same_str=same_str, RB=lambda: z3.IntVal(RB), RA=lambda: z3.IntVal(RA), LM=lambda: z3.IntVal(LM))


def rec_same(a, b):
    """Two records hold the same name/sequence/qualities (extensionally)."""
    from pyvc.engine import str_eq
    qa, qb = a.fields["qualities"], b.fields["qualities"]
    return z3.And(str_eq(a.fields["name"], b.fields["name"]), str_eq(a.fields["sequence"], b.fields["sequence"]),
                  qa.none == qb.none, z3.Implies(z3.Not(qa.none), str_eq(qa.val, qb.val)))


def rec_is_slice(out, inp, a, b):
    """out == inp[a:b] (dnaio record slice: same name, sequence and qualities sliced alike)."""
    from pyvc.engine import str_eq
    qo, qi = out.fields["qualities"], inp.fields["qualities"]
    return z3.And(str_eq(out.fields["name"], inp.fields["name"]),
                  str_eq(out.fields["sequence"], str_slice(inp.fields["sequence"], a, b)),
                  qo.none == qi.none, z3.Implies(z3.Not(qi.none), str_eq(qo.val, str_slice(qi.val, a, b))))


def record_spec(cx):
    cx.spec.setdefault("rec_same", rec_same)
    cx.spec.setdefault("rec_is_slice", rec_is_slice)
    cx.spec.setdefault("rec_wf", lambda r: z3.Or(r.fields["qualities"].none,
                                                  r.fields["qualities"].val.n == r.fields["sequence"].n))


def match_spec2(cx):
    """Retained-adapter interval of a match and the START frame lemma instance."""
    match_spec(cx)
    if "ret0" in cx.spec:
        return
    from pyvc import verify
    RB, RA, LM = tags(verify.world())

    def ret0(m):
        t = m.fields["__cls__"]
        f = m.fields["front_match"]
        return z3.If(t == LM, z3.If(z3.Not(f.none), f.val.fields["rstart"], z3.IntVal(0)),
                     z3.If(t == RB, m.fields["rstart"], z3.IntVal(0)))

    def ret1(m):
        t = m.fields["__cls__"]
        f, b = m.fields["front_match"], m.fields["back_match"]
        off = z3.If(z3.Not(f.none), f.val.fields["rstop"], z3.IntVal(0))
        linked = z3.If(z3.Not(b.none), b.val.fields["rstop"] + off, f.val.fields["sequence"].n)
        return z3.If(t == LM, linked, z3.If(t == RB, m.fields["sequence"].n, m.fields["rstop"]))

    cx.spec.update(ret0=ret0, ret1=ret1)


@api.lemma("start_frame", props=["C03", "C09"])
def start_frame(lem):
    """START(a, k) == START(b, k) when a and b agree on [0, k) — induction on k."""
    a = z3.Const("a!sf", AII)
    b = z3.Const("b!sf", AII)
    START = z3.Function("START", AII, I, I)
    LOF = z3.Function("lo_of_id", I, I)       # stands for lo(match with this id): any function of the id
    k, j = z3.Ints("k!sf j!sf")

    def defs(x):
        return [START(x, 0) == 0,
                z3.ForAll([j], z3.Implies(j > 0, START(x, j) == START(x, j - 1) + LOF(x[j - 1])), patterns=[START(x, j)])]

    def prove(lx):
        ax = defs(a) + defs(b)
        agree = lambda n: z3.ForAll([j], z3.Implies(z3.And(0 <= j, j < n), a[j] == b[j]), patterns=[a[j]])
        lx.vc("base", ax, START(a, 0) == START(b, 0))
        lx.vc("step", ax + [k >= 0, z3.Implies(agree(k), START(a, k) == START(b, k)), agree(k + 1)],
              START(a, k + 1) == START(b, k + 1))

    def statement(sa, sb, n, cx):
        from pyvc import heap
        st = cx.spec["START"]
        aa, bb = heap.named_array(cx, sa.arr), heap.named_array(cx, sb.arr)
        return z3.Implies(z3.And(n >= 0, z3.ForAll([j], z3.Implies(z3.And(0 <= j, j < n), aa[j] == bb[j]), patterns=[aa[j]])),
                          st(sa, n) == st(sb, n))

    lem.prove = prove
    lem.statement = statement
