#!/bin/sh
# usage: tools/try_seed_wt.sh <seed-id> <property> [other properties...]
# Like try_seed.sh, but the checks run against the scratch worktree itself (VERIF_REPO=/tmp/seed/<id>): /repo is not touched.
set -u
ID="$1"; shift
PID="$1"
WT=/tmp/seed/$ID
DEST=/verif/seeded/$ID
mkdir -p "$DEST"
cd "$WT" || exit 2
git diff -- src > "$DEST/patch.diff"
cp "$WT"/demo_*.py "$DEST/" 2>/dev/null
cp "$WT/NOTES.md" "$DEST/agent_notes.md" 2>/dev/null
NEEDS_BUILD=0
grep -q "\.pyx\|\.h" "$DEST/patch.diff" && NEEDS_BUILD=1
run() { (cd "$WT" && PATH=/venv/bin:$PATH PYTHONPATH=$WT/src timeout 900 /venv/bin/python "$@"); }
[ $NEEDS_BUILD = 1 ] && /tmp/seed/build_ext.sh "$WT" >/dev/null
SUITE=$(run -m pytest -q -p no:cacheprovider 2>&1 | tail -1)
run demo_*.py >/dev/null 2>&1; DEMO_WITH=$?
git apply -R "$DEST/patch.diff"
[ $NEEDS_BUILD = 1 ] && /tmp/seed/build_ext.sh "$WT" >/dev/null
run demo_*.py >/dev/null 2>&1; DEMO_WITHOUT=$?
git apply "$DEST/patch.diff"
[ $NEEDS_BUILD = 1 ] && /tmp/seed/build_ext.sh "$WT" >/dev/null
echo "suite with change: $SUITE | demo exit with change: $DEMO_WITH, without: $DEMO_WITHOUT"
cd /verif
RES=""
for P in "$@"; do
  OUT=$(VERIF_REPO=$WT ./check "$P" 2>&1); CODE=$?
  echo "$OUT" | grep "VIOLATION\|failed obligation\|UNDECIDED\|CHECKER-ERROR" | head -8
  echo "$OUT" | grep -v WARNING | tail -1
  RES="$RES $P:exit=$CODE"
done
cat > "$DEST/meta.json" <<META
{"seed": "$ID", "property": "$PID", "suite_with_change": "$SUITE", "demo_exit_with_change": $DEMO_WITH, "demo_exit_without_change": $DEMO_WITHOUT,
 "checks_run": "$RES"}
META
echo "RESULT $ID:$RES"
