#!/usr/bin/env python3
"""Regenerate MANIFEST.json from contracts/props.py (claimed) and the not-applicable list."""
import json, os, sys
sys.path.insert(0, os.path.dirname(os.path.dirname(os.path.abspath(__file__))))
from contracts.props import PROPS, NOT_APPLICABLE

checks = []
for pid in sorted(PROPS):
    m = PROPS[pid]
    checks.append({
        "property_id": pid,
        "quick_cmd": f"./check {pid} --tier quick",
        "thorough_cmd": f"./check {pid} --tier thorough",
        "evidence_file": f"evidence/{pid}.json",
        "replay_cmd_template": "cat {path}",
        "engine": "pyvc",
        "level_claimed": {"category": m["level"], "text": m["text"], "design_ref": m.get("design_ref", "DESIGN.md section 4")},
        "level_note": m["note"],
        "technique": m.get("technique", "contract-based deductive verification: VCs generated from the real source by pyvc, discharged by z3/cvc5"),
    })
man = {
    "version": 1,
    "setup_cmd": "./setup.sh",
    "hooks": {"guard": "MARCELM_CUTADAPT_VERIF", "enable": "no hooks: contracts are sidecar files under /verif/contracts; nothing in /repo is instrumented",
              "baseline_off_cmd": "cd /repo && /venv/bin/python -m pytest -ra -q -p no:cacheprovider --timeout=900 --continue-on-collection-errors",
              "source_commits": [], "add_only": True},
    "engines": [{"name": "pyvc", "path": "pyvc/", "serves_properties": sorted(PROPS),
                 "kind_free_text": "own VC generator: Cython parser / ast / clang JSON AST -> symbolic executor with loop invariants and modular contracts -> z3 5.1 (cvc5 1.0.3, z3 4.8.12 fallback); runtime form of the contracts on the rebuilt real code for replay and bounded stand-ins"}],
    "checks": checks,
    "not_applicable": [{"property_id": k, "reason": v} for k, v in sorted(NOT_APPLICABLE.items())],
    "notes": "See DESIGN.md. Exit codes of ./check: 0 held, 1 violation (VIOLATION line), 2 undecided (contract could not be attached / new obligation unknown), 3 checker failure.",
}
json.dump(man, open(os.path.join(os.path.dirname(os.path.dirname(os.path.abspath(__file__))), "MANIFEST.json"), "w"), indent=1)
print("MANIFEST.json:", len(checks), "checks,", len(man["not_applicable"]), "not applicable")
