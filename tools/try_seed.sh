#!/bin/sh
# usage: tools/try_seed.sh <seed-id> <property> [other properties to run...]
# Confirms a seeded change in its scratch worktree (suite passes, demo fails with / passes without), stores it under
# /verif/seeded/<seed-id>/, applies it to /repo, runs the checks, and undoes it.
set -u
ID="$1"; shift
PID="$1"
WT=/tmp/seed/$ID
DEST=/verif/seeded/$ID
mkdir -p "$DEST"
cd "$WT" || exit 2
git diff -- src > "$DEST/patch.diff"
cp "$WT"/demo_*.py "$DEST/" 2>/dev/null
cp "$WT/NOTES.md" "$DEST/agent_notes.md" 2>/dev/null
NEEDS_BUILD=0
grep -q "\.pyx\|\.h" "$DEST/patch.diff" && NEEDS_BUILD=1
run() { (cd "$WT" && PATH=/venv/bin:$PATH PYTHONPATH=$WT/src timeout 900 /venv/bin/python "$@"); }
[ $NEEDS_BUILD = 1 ] && /tmp/seed/build_ext.sh "$WT" >/dev/null
SUITE=$(run -m pytest -q -p no:cacheprovider 2>&1 | tail -1)
run demo_*.py >/dev/null 2>&1; DEMO_WITH=$?
git apply -R "$DEST/patch.diff"
[ $NEEDS_BUILD = 1 ] && /tmp/seed/build_ext.sh "$WT" >/dev/null
run demo_*.py >/dev/null 2>&1; DEMO_WITHOUT=$?
git apply "$DEST/patch.diff"
[ $NEEDS_BUILD = 1 ] && /tmp/seed/build_ext.sh "$WT" >/dev/null
echo "suite with change: $SUITE | demo exit with change: $DEMO_WITH, without: $DEMO_WITHOUT"
# apply to /repo, run the checks, undo
cd /verif
git -C /repo apply "$DEST/patch.diff" || { echo "patch does not apply to /repo"; exit 2; }
RES=""
for P in "$@"; do
  OUT=$(./check "$P" 2>&1); CODE=$?
  echo "$OUT" | grep "VIOLATION\|failed obligation\|UNDECIDED\|CHECKER-ERROR\|KNOWN" | head -8
  echo "$OUT" | tail -1
  RES="$RES $P:exit=$CODE"
done
git -C /repo checkout -- .
cat > "$DEST/meta.json" <<META
{"seed": "$ID", "property": "$PID", "suite_with_change": "$SUITE", "demo_exit_with_change": $DEMO_WITH, "demo_exit_without_change": $DEMO_WITHOUT,
 "checks_run": "$RES"}
META
echo "RESULT $ID:$RES"
