#!/bin/sh
# usage: seed_build_ext.sh <worktree>   -- rebuilds the four Cython extensions of a scratch worktree in place (offline)
set -e
WT="$1"
cd "$WT"
B=$(mktemp /tmp/seed_build_XXXXXX.py)
cat > $B <<PY
from setuptools import setup, Extension
from Cython.Build import cythonize
exts = [Extension("cutadapt." + n, [f"src/cutadapt/{n}.pyx"], include_dirs=["src/cutadapt"]) for n in ["_align", "qualtrim", "info", "_kmer_finder"]]
setup(name="cutadapt_seed", package_dir={"": "src"}, packages=["cutadapt"], ext_modules=cythonize(exts, language_level=3, quiet=True),
      script_args=["-q", "build_ext", "--inplace", "-j", "4"])
PY
/venv/bin/python $B >/dev/null 2>&1 || /venv/bin/python $B
rm -f $B
rm -rf build
echo "extensions rebuilt in $WT/src/cutadapt"
