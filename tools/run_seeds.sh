#!/bin/sh
# usage: tools/run_seeds.sh [seed-id ...]
# For every stored seeded change (/verif/seeded/<id>/patch.diff): apply it to /repo, run the checks of the properties
# listed in seeded/<id>/checks (default: the property in the id), record what they report in seeded/<id>/result.json,
# and undo the change (git -C /repo checkout -- .).  /repo must be clean when this starts.
# With SEED_REPO=<scratch worktree of /repo> the changes are applied there and the checks run against it
# (VERIF_REPO=$SEED_REPO): /repo itself is then not touched.
set -u
cd /verif
R=${SEED_REPO:-/repo}
if [ -n "$(git -C $R status --porcelain -- src)" ]; then echo "$R has local changes: refusing"; exit 2; fi
IDS="$*"
[ -z "$IDS" ] && IDS=$(ls seeded)
for ID in $IDS; do
  D=seeded/$ID
  [ -f "$D/patch.diff" ] || continue
  [ "$ID" = "harmless" ] && continue
  PROPS=$(cat "$D/checks" 2>/dev/null || echo "$ID" | cut -c1-3)
  git -C $R apply "/verif/$D/patch.diff" || { echo "$ID: patch does not apply"; continue; }
  OUT="{\"seed\": \"$ID\", \"results\": ["
  SEP=""
  for P in $PROPS; do
    LOG=$(VERIF_REPO=$R ./check "$P" 2>&1); CODE=$?
    OBL=$(echo "$LOG" | grep "failed obligation" | sed 's/.*failed obligation \([^ ]*\).*/\1/' | sort -u | head -6 | tr '\n' ' ')
    VIO=$(echo "$LOG" | grep -c "^VIOLATION")
    REP=$(echo "$LOG" | grep "^VIOLATION" | sed 's/.*replay=\([^ ]*\).*/\1/' | xargs -n1 basename 2>/dev/null | sort -u | head -6 | tr '\n' ' ')
    NOINPUT=$(echo "$LOG" | grep "^VIOLATION" | grep -c "no-failing-input-found")
    OUT="$OUT$SEP{\"property\": \"$P\", \"exit\": $CODE, \"violation_lines\": $VIO, \"without_failing_input\": $NOINPUT, \"failed_obligations\": \"$OBL\", \"replays\": \"$REP\"}"
    SEP=", "
    echo "$ID $P exit=$CODE violations=$VIO obligations: $OBL replays: $REP"
  done
  echo "$OUT]}" > "$D/result.json"
  git -C $R checkout -- .
done
